"""Seeded faults in the embedded C++ constants (clang-based rules): C02.strict, C04.selector, C10.selector, C11."""
MCS = 'support_files/multi_client_selector.py'
MW = 'support_files/mutex_wrapped.py'
SP = 'support_files/strict_port.py'
PR = 'adv_shell/core/processing.py'

VARIANTS = [
    # ---- C11 -------------------------------------------------------------------------------------------------
    dict(id='c11-lock-not-moved-into-deleter', prop='C11', expect='violation', rule='C11.guarded',
         edits=[dict(file=MW, old="        return std::unique_ptr<T, RaiiLockDeleter>(&m_protectee, RaiiLockDeleter{std::move(lock)});", new="        return std::unique_ptr<T, RaiiLockDeleter>(&m_protectee, RaiiLockDeleter{});")]),
    dict(id='c11-no-lock-taken', prop='C11', expect='violation', rule='C11.guarded',
         edits=[dict(file=MW, old="        std::unique_lock lock(m_mutex);\n        return std::unique_ptr<T, RaiiLockDeleter>(&m_protectee, RaiiLockDeleter{std::move(lock)});", new="        std::unique_lock<std::mutex> lock;\n        return std::unique_ptr<T, RaiiLockDeleter>(&m_protectee, RaiiLockDeleter{std::move(lock)});")]),
    dict(id='c11-deleter-never-unlocks', prop='C11', expect='violation', rule='C11.guarded',
         edits=[dict(file=MW, old="        void operator()(T*) { if (lock.owns_lock()) lock.unlock(); }", new="        void operator()(T*) { if (lock.owns_lock()) lock.release(); }")]),
    dict(id='c11-deleter-holds-lock-by-reference', prop='C11', expect='violation', rule='C11.guarded',
         edits=[dict(file=MW, old="        std::unique_lock<std::mutex> lock;\n        void operator()", new="        std::unique_lock<std::mutex>& lock;\n        void operator()"),
                dict(file=MW, old="RaiiLockDeleter{std::move(lock)}", new="RaiiLockDeleter{lock}")]),
    dict(id='c11-protectee-public', prop='C11', expect='violation', rule='C11.guarded',
         edits=[dict(file=MW, old="private:\n    T m_protectee;      // default construct typename T", new="    T m_protectee;      // default construct typename T\nprivate:")]),
    dict(id='c11-unlocked-peek-accessor', prop='C11', expect='violation', rule='C11.guarded',
         edits=[dict(file=MW, old="private:\n    T m_protectee;", new="    const T& Peek() const { return m_protectee; }\n\nprivate:\n    T m_protectee;")]),
    dict(id='c11-select-inserts-client', prop='C11', expect='violation', rule='C11.immutable',
         edits=[dict(file=MCS, old="        if (m_clients.count(identifier) == 0) return log.Error(\"Identifier \" + identifier + \" not recognised as a valid registered client.\");", new="        if (m_clients.count(identifier) == 0) m_clients.insert_or_assign(identifier, ClientPort{identifier, m_cbInitializePort(identifier)});")]),
    dict(id='c11-deselect-reacquires-lock', prop='C11', expect='violation', rule='C11.nonreentrant',
         edits=[dict(file=MCS, old="        // Let go of the client\n        clientSelect.reset();", new="        // Let go of the client\n        if (CurrentClient()->has_value()) clientSelect.reset();")]),
    dict(id='c11-selection-not-mutex-wrapped', prop='C11', expect='violation', rule='C11.guarded',
         edits=[dict(file=MCS, old="    MutexWrapped<ClientSelect> m_clientSelect;", new="    struct Unwrapped { ClientSelect value; auto operator()() { return &value; } };\n    Unwrapped m_clientSelect;")]),
    dict(id='c11-delivery-after-reset', prop='C11', expect='violation', rule='C11.deliver-under-lock',
         edits=[dict(file=PR, old="              f'    auto lockAndData = {port.accessor_target}.CurrentClient();\\n' \\\n              '    if (lockAndData->has_value()) lockAndData->value().get().dznPort.out.' \\",
                     new="              f'    auto lockAndData = {port.accessor_target}.CurrentClient();\\n' \\\n              '    auto selected = *lockAndData;\\n' \\\n              '    lockAndData.reset();\\n' \\\n              '    if (selected.has_value()) selected.value().get().dznPort.out.' \\")]),
    # ---- C10.selector ------------------------------------------------------------------------------------------
    dict(id='c10-finalconstruct-loop-removed', prop='C10', expect='violation', rule='C10.selector',
         edits=[dict(file=MCS, old="        for (const auto& [_, client] : m_clients) client.dznPort.check_bindings();\n", new="")]),
    dict(id='c10-finalconstruct-first-client-only', prop='C10', expect='violation', rule='C10.selector',
         edits=[dict(file=MCS, old="        for (const auto& [_, client] : m_clients) client.dznPort.check_bindings();", new="        for (const auto& [_, client] : m_clients) { client.dznPort.check_bindings(); break; }")]),
    dict(id='c10-index-guard-removed', prop='C10', expect='violation', rule='C10.selector',
         edits=[dict(file=MCS, old="            if (m_finalConstructed) throw std::runtime_error(\"Can not allocate a ClientPort entry when final constructed.\");\n", new="")]),
    dict(id='c10-flag-never-set', prop='C10', expect='violation', rule='C10.selector',
         edits=[dict(file=MCS, old="        m_log.check_bindings();\n        m_finalConstructed = true;", new="        m_log.check_bindings();")]),
    dict(id='c10-arbitered-port-writable-after-final', prop='C10', expect='violation', rule='C10.selector',
         edits=[dict(file=MCS, old="        if (m_finalConstructed) throw std::runtime_error(\"Can not grant write access to arbitered port when final constructed.\");\n", new="")]),
    # ---- C04.selector ------------------------------------------------------------------------------------------
    dict(id='c04-select-unregistered-client', prop='C04', expect='violation', rule='C04.selector',
         edits=[dict(file=MCS, old="        if (m_clients.count(identifier) == 0) return log.Error(\"Identifier \" + identifier + \" not recognised as a valid registered client.\");\n\n        auto lockAndData = CurrentClient();\n        auto& clientSelect = *lockAndData;\n        if (clientSelect.has_value())",
                     new="        auto lockAndData = CurrentClient();\n        auto& clientSelect = *lockAndData;\n        if (clientSelect.has_value())")]),
    dict(id='c04-deselect-holder-check-ok', prop='C04', expect='silent',
         edits=[dict(file=MCS, old="        // Let go of the client\n        clientSelect.reset();", new="        // Let go of the client, but only for the client that holds the claim\n        if (clientSelect.has_value() && clientSelect.value().get().identifier == identifier) clientSelect.reset();")]),
    # ---- C02.strict ----------------------------------------------------------------------------------------------
    dict(id='c02-mixed-connect-overload', prop='C02', tier='thorough', expect='violation', rule='C02.strict',
         edits=[dict(file=SP, old="template <typename P>\nvoid ConnectPorts(Mts<P> provided, Mts<P> required)", new="template <typename P>\nvoid ConnectPorts(Sts<P> provided, Mts<P> required)\n{\n    connect(provided.port, required.port);\n}\n\ntemplate <typename P>\nvoid ConnectPorts(Mts<P> provided, Mts<P> required)")]),
    dict(id='c02-mts-derives-from-sts', prop='C02', tier='thorough', expect='violation', rule='C02.strict',
         edits=[dict(file=SP, old="template <typename P>\nstruct Mts\n{\n    P& port;\n};", new="template <typename P>\nstruct Mts : Sts<P>\n{\n};")]),
    dict(id='c02-strict-comment-ok', prop='C02', tier='thorough', expect='silent',
         edits=[dict(file=SP, old="// Enclosure for a port that conforms to Multi-threaded Runtime Semantics (MTS)", new="// Enclosure for a port that conforms to Multi-threaded Runtime Semantics (MTS); not convertible to Sts")]),
    # ---- C06.odr (found by an independent seeded change: the template turned into two plain overloads) ---------------
    dict(id='c06-odr-helper-not-inline', prop='C06', expect='violation', rule='C06.odr',
         edits=[dict(file='support_files/misc_utils.py', old="    return result;\n}\n\"\"\")  # noqa: E501", new="    return result;\n}\n\nbool IsBlank(const std::string& str)\n{\n    return str.empty();\n}\n\"\"\")  # noqa: E501")]),
    dict(id='c06-odr-helper-inline-ok', prop='C06', expect='silent',
         edits=[dict(file='support_files/misc_utils.py', old="    return result;\n}\n\"\"\")  # noqa: E501", new="    return result;\n}\n\ninline bool IsBlank(const std::string& str)\n{\n    return str.empty();\n}\n\"\"\")  # noqa: E501")]),
    dict(id='c06-odr-namespace-variable', prop='C06', expect='violation', rule='C06.odr',
         edits=[dict(file='support_files/misc_utils.py', old="    return result;\n}\n\"\"\")  # noqa: E501", new="    return result;\n}\n\nint g_capitalizeCalls = 0;\n\"\"\")  # noqa: E501")]),
    # ---- C11.deliver-under-lock: who keeps the lock-and-data object alive (found by an independent seeded change) -------
    dict(id='c11-selection-const-ref-holder-ok', prop=['C11', 'C04', 'C01'], expect='silent',
         edits=[dict(file=PR, old="              f'    auto lockAndData = {port.accessor_target}.CurrentClient();\\n' \\\n              '    if (lockAndData->has_value()) lockAndData->value().get().dznPort.out.' \\\n", new="              f'    const auto& lockAndData = {port.accessor_target}.CurrentClient();\\n' \\\n              '    if (lockAndData->has_value()) lockAndData->value().get().dznPort.out.' \\\n")]),
    dict(id='c11-selection-renamed-holder-ok', prop=['C11', 'C04', 'C01'], expect='silent',
         edits=[dict(file=PR, old="              f'    auto lockAndData = {port.accessor_target}.CurrentClient();\\n' \\\n              '    if (lockAndData->has_value()) lockAndData->value().get().dznPort.out.' \\\n", new="              f'    auto current = {port.accessor_target}.CurrentClient();\\n' \\\n              '    if (current->has_value()) current->value().get().dznPort.out.' \\\n")]),
    dict(id='c11-selection-dereferenced-temporary', prop='C11', expect='violation', rule='C11.deliver-under-lock',
         edits=[dict(file=PR, old="              f'    auto lockAndData = {port.accessor_target}.CurrentClient();\\n' \\\n              '    if (lockAndData->has_value()) lockAndData->value().get().dznPort.out.' \\\n", new="              f'    auto& sel = *{port.accessor_target}.CurrentClient();\\n' \\\n              '    if (sel.has_value()) sel.value().get().dznPort.out.' \\\n")]),
    # ---- member renames in the support headers: the rules find the members by type / role, not by name ------------------
    dict(id='cxx-selector-members-renamed-ok', prop=['C04', 'C10', 'C11', 'C06'], expect='silent',
         edits=[dict(file=MCS, old='m_clients', new='m_registeredPorts', count=9),
                dict(file=MCS, old='m_finalConstructed', new='m_sealed', count=5),
                dict(file=MCS, old='m_clientSelect', new='m_selection', count=2)]),
    dict(id='cxx-mutexwrapped-members-renamed-ok', prop=['C11', 'C06'], expect='silent',
         edits=[dict(file=MW, old='m_protectee', new='m_value', count=2),
                dict(file=MW, old='m_mutex', new='m_guard', count=2)]),
    # the logger shared by all client threads must not carry changeable state (found by an independent seeded change)
    dict(id='cxx-ilog-line-buffer-member', prop='C11', expect='violation', rule='C11.shared-log',
         edits=[dict(file='support_files/ilog.py', old='    const ILog subLog;', new='    const ILog subLog;\n    std::string m_line;')]),
    dict(id='cxx-ilog-mutable-counter', prop='C11', expect='violation', rule='C11.shared-log',
         edits=[dict(file='support_files/ilog.py', old='    const ILog subLog;', new='    const ILog subLog;\n    mutable int m_count = 0;')]),
    dict(id='cxx-ilog-const-member-ok', prop=['C11', 'C06'], expect='silent',
         edits=[dict(file='support_files/ilog.py', old='    const ILog subLog;', new='    const ILog subLog;\n    const int level = 0;')]),
    # an ordered search is not an exact-match lookup (found by an independent seeded change)
    dict(id='cxx-selector-index-lower-bound-unchecked', prop='C04', expect='violation', rule='C04.selector',
         edits=[dict(file=MCS, old='        if (m_clients.count(identifier) == 0)\n        {\n            log.Info("Allocating ClientPort entry for " + identifier);\n            if (m_finalConstructed) throw std::runtime_error("Can not allocate a ClientPort entry when final constructed.");\n\n            m_clients.insert_or_assign(identifier, ClientPort{identifier, m_cbInitializePort(identifier)});\n        }\n\n        return m_clients.at(identifier);\n', new='        auto entry = m_clients.lower_bound(identifier);\n        if (entry == m_clients.end())\n        {\n            log.Info("Allocating ClientPort entry for " + identifier);\n            if (m_finalConstructed) throw std::runtime_error("Can not allocate a ClientPort entry when final constructed.");\n\n            entry = m_clients.emplace_hint(entry, identifier, ClientPort{identifier, m_cbInitializePort(identifier)});\n        }\n\n        return entry->second;\n')]),
    dict(id='cxx-selector-index-lower-bound-key-compared-ok', prop=['C04', 'C10', 'C11', 'C06'], expect='silent',
         edits=[dict(file=MCS, old='        if (m_clients.count(identifier) == 0)\n        {\n            log.Info("Allocating ClientPort entry for " + identifier);\n            if (m_finalConstructed) throw std::runtime_error("Can not allocate a ClientPort entry when final constructed.");\n\n            m_clients.insert_or_assign(identifier, ClientPort{identifier, m_cbInitializePort(identifier)});\n        }\n\n        return m_clients.at(identifier);\n', new='        auto entry = m_clients.lower_bound(identifier);\n        if (entry == m_clients.end() || entry->first != identifier)\n        {\n            log.Info("Allocating ClientPort entry for " + identifier);\n            if (m_finalConstructed) throw std::runtime_error("Can not allocate a ClientPort entry when final constructed.");\n\n            entry = m_clients.emplace_hint(entry, identifier, ClientPort{identifier, m_cbInitializePort(identifier)});\n        }\n\n        return entry->second;\n')]),
]
