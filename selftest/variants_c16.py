"""Seeded faults / behaviour-preserving variants for C16."""
J = 'json_ast.py'
RESET = "        self._file_contents = FileContents()  # start afresh: processing again must not accumulate\n"

VARIANTS = [
    dict(id='c16-d5-reintroduced', prop='C16', expect='violation', rule='C16.idempotent', func='process',
         edits=[dict(file=J, old=RESET, new='')]),
    dict(id='c16-reset-after-growth', prop='C16', expect='violation', rule='C16.idempotent',
         edits=[dict(file=J, old=RESET, new=''),
                dict(file=J, old="            self.parse_element(element, self._ns_trail)\n        return self.file_contents",
                     new="            self.parse_element(element, self._ns_trail)\n        result = self.file_contents\n        self._file_contents = FileContents()\n        return self.file_contents")]),
    dict(id='c16-reset-conditional', prop='C16', expect='violation', rule='C16.idempotent',
         edits=[dict(file=J, old=RESET, new="        if self._verbose:\n            self._file_contents = FileContents()\n")]),
    dict(id='c16-class-level-filecontents', prop='C16', expect='violation',
         edits=[dict(file=J, old="    _file_contents: FileContents\n", new="    _file_contents: FileContents = FileContents()\n"),
                dict(file=J, old="        self._file_contents = FileContents()\n\n    def load_file", new="\n    def load_file"),
                dict(file=J, old=RESET, new='')]),
    dict(id='c16-module-cache', prop='C16', expect='violation', rule='C16.instance-state',
         edits=[dict(file=J, old="def get_class_value(element: dict) -> str:", new="_SEEN = {}\n\n\ndef get_class_value(element: dict) -> str:")]),
    dict(id='c16-shared-default-list', prop='C16', expect='violation', rule='C16.instance-state',
         edits=[dict(file='ast.py', old="    imports: List[Import] = field(default_factory=list)", new="    imports: List[Import] = field(default=_SHARED)"),
                dict(file='ast.py', old="@dataclass(frozen=True)\nclass FileContents:", new="_SHARED = []\n\n\n@dataclass(frozen=True)\nclass FileContents:")]),
    dict(id='c16-parse-mutates-json', prop='C16', expect='violation', rule='C16.no-sharing',
         edits=[dict(file=J, old="    opt_comment = elt.tryget_dict_value('comment')\n", new="    opt_comment = elt.tryget_dict_value('comment')\n    element.pop('comment', None)\n")]),
    dict(id='c16-namespace-node-mutated', prop='C16', expect='violation',
         edits=[dict(file=J, old="                for sub_element in namespace.elements:\n", new="                parent_ns.scope_name = namespace.scope_name.value\n                for sub_element in namespace.elements:\n")]),
    dict(id='c16-reset-via-helper-ok', prop='C16', expect='silent',
         edits=[dict(file=J, old=RESET, new="        self._reset()\n"),
                dict(file=J, old="    def process(self) -> FileContents:", new="    def _reset(self):\n        self._file_contents = FileContents()\n\n    def process(self) -> FileContents:")]),
    dict(id='c16-local-accumulator-ok', prop='C16', expect='silent',
         edits=[dict(file=J, old=RESET, new="        self._file_contents = FileContents(components=[], enums=[])\n")]),
]
