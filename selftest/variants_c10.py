"""Seeded faults / behaviour-preserving variants for C10."""
PR = 'adv_shell/core/processing.py'
INIT = 'adv_shell/__init__.py'

VARIANTS = [
    dict(id='c10-only-mts-ports-checked', prop='C10', expect='violation', rule='C10.cover',
         edits=[dict(file=PR, old="    all_pp = provides_ports.ports\n    all_rp = requires_ports.ports", new="    all_pp = provides_ports.mts_ports\n    all_rp = requires_ports.mts_ports")]),
    dict(id='c10-requires-line-removed', prop='C10', expect='violation', rule='C10.cover',
         edits=[dict(file=PR, old="        [f'{p.accessor_target}.check_bindings();' for p in all_rp],\n", new="")]),
    dict(id='c10-multiclient-filter-inverted', prop='C10', expect='violation', rule='C10.cover',
         edits=[dict(file=PR, old="    final_construct_calls = [f'{p.accessor_target}.FinalConstruct();' for p in all_pp if\n                             p.dzn_port_itf.multiclient]", new="    final_construct_calls = [f'{p.accessor_target}.FinalConstruct();' for p in all_pp if\n                             not p.dzn_port_itf.multiclient]")]),
    dict(id='c10-check-on-encapsulee-port', prop='C10', expect='violation', rule='C10.cover',
         edits=[dict(file=PR, old="        [f'{p.accessor_target}.check_bindings();' for p in all_rp],", new="        [f'{encapsulee_mv}.{p.name}.check_bindings();' for p in all_rp],")]),
    dict(id='c10-multiclient-checked-with-check-bindings-too', prop='C10', expect='violation', rule='C10.cover',
         edits=[dict(file=PR, old="        [f'{p.accessor_target}.check_bindings();' for p in all_pp if\n         not p.dzn_port_itf.multiclient],", new="        [f'{p.accessor_target}.check_bindings();' for p in all_pp],")]),
    dict(id='c10-parent-assignment-removed', prop='C10', expect='violation', rule='C10.encapsulee',
         edits=[dict(file=PR, old="        f'{encapsulee_mv}.dzn_meta.parent = {param.name};',\n", new="")]),
    dict(id='c10-parent-nullptr', prop='C10', expect='violation', rule='C10.encapsulee',
         edits=[dict(file=PR, old="        f'{encapsulee_mv}.dzn_meta.parent = {param.name};',", new="        f'{encapsulee_mv}.dzn_meta.parent = nullptr;',")]),
    dict(id='c10-encapsulee-check-removed', prop='C10', expect='violation', rule='C10.encapsulee',
         edits=[dict(file=PR, old="        f'{encapsulee_mv}.check_bindings();',\n    ])\n    return fnc", new="    ])\n    return fnc")]),
    dict(id='c10-early-return', prop='C10', expect='violation', rule='C10.encapsulee',
         edits=[dict(file=PR, old="        Comment('Check the bindings of all boundary ports'),", new="        'if (parentComponentMeta == nullptr) return;',\n        Comment('Check the bindings of all boundary ports'),")]),
    dict(id='c10-first-provides-port-only', prop='C10', expect='violation', rule='C10.cover',
         edits=[dict(file=PR, old="        [f'{p.accessor_target}.check_bindings();' for p in all_pp if\n         not p.dzn_port_itf.multiclient],", new="        [f'{p.accessor_target}.check_bindings();' for p in all_pp[:1] if\n         not p.dzn_port_itf.multiclient],")]),
    dict(id='c10-not-defined-in-source', prop='C10', expect='violation', rule='C10.encapsulee',
         edits=[dict(file=INIT, old="                                     chunk(cpp.final_construct_fn.as_def),\n", new="")]),
    # behaviour preserving
    dict(id='c10-loop-instead-of-comprehension-ok', prop='C10', expect='silent',
         edits=[dict(file=PR, old="    final_construct_calls = [f'{p.accessor_target}.FinalConstruct();' for p in all_pp if\n                             p.dzn_port_itf.multiclient]",
                     new="    final_construct_calls = []\n    for pp in all_pp:\n        if pp.is_multiclient:\n            final_construct_calls.append(f'{pp.accessor_target}.FinalConstruct();')")]),
    dict(id='c10-order-requires-first-ok', prop='C10', expect='silent',
         edits=[dict(file=PR, old="        [f'{p.accessor_target}.check_bindings();' for p in all_pp if\n         not p.dzn_port_itf.multiclient],\n        [f'{p.accessor_target}.check_bindings();' for p in all_rp],",
                     new="        [f'{p.accessor_target}.check_bindings();' for p in all_rp],\n        [f'{p.accessor_target}.check_bindings();' for p in all_pp if\n         not p.dzn_port_itf.multiclient],")]),
]
