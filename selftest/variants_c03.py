"""Seeded faults / behaviour-preserving variants for C03."""
PS = 'adv_shell/port_selection.py'
PR = 'adv_shell/core/processing.py'
V = 'ast_view.py'
LOOKUP = "    if port.name not in matched_ports.value:\n        raise AdvShellError(f'Port \"{port.name}\" is not configured with STS or MTS runtime semantics')\n    return matched_ports.value[port.name]"

VARIANTS = [
    dict(id='c03-d3-reintroduced', prop='C03', expect='violation', rule='C03.total',
         edits=[dict(file=PR, old=LOOKUP, new="    return matched_ports.value[port.name]")]),
    dict(id='c03-miss-raises-keyerror', prop='C03', expect='violation', rule='C03.total',
         edits=[dict(file=PR, old="        raise AdvShellError(f'Port \"{port.name}\" is not configured with STS or MTS runtime semantics')", new="        raise KeyError(port.name)")]),
    dict(id='c03-wildcard-before-explicit', prop='C03', expect='violation', rule='C03.explicit-first',
         edits=[dict(file=PS, old="            if self.sts.match_strset(port):\n                result[port] = RuntimeSemantics.STS\n            elif self.mts.match_strset(port):\n                result[port] = RuntimeSemantics.MTS\n            elif self.sts.match_wildcard(port):\n                result[port] = RuntimeSemantics.STS\n            elif self.mts.match_wildcard(port):",
                     new="            if self.sts.match_strset(port):\n                result[port] = RuntimeSemantics.STS\n            elif self.sts.match_wildcard(port):\n                result[port] = RuntimeSemantics.STS\n            elif self.mts.match_strset(port):\n                result[port] = RuntimeSemantics.MTS\n            elif self.mts.match_wildcard(port):")]),
    dict(id='c03-branch-assigns-other-semantics', prop='C03', expect='violation', rule='C03.explicit-first',
         edits=[dict(file=PS, old="            elif self.mts.match_strset(port):\n                result[port] = RuntimeSemantics.MTS", new="            elif self.mts.match_strset(port):\n                result[port] = RuntimeSemantics.STS")]),
    dict(id='c03-unknown-check-removed', prop='C03', expect='violation', rule='C03.unknown',
         edits=[dict(file=PS, old="        if unmatched:\n            raise AdvShellError(f'Configured {label} ports {sorted(unmatched)} not matched')\n", new="")]),
    dict(id='c03-unknown-check-sts-only', prop='C03', expect='violation', rule='C03.unknown',
         edits=[dict(file=PS, old="        all_explicitly_configured = self.sts.tryget_strset() | self.mts.tryget_strset()", new="        all_explicitly_configured = self.sts.tryget_strset() | set()")]),
    dict(id='c03-injected-guard-removed', prop='C03', expect='violation', rule='C03.injected',
         edits=[dict(file=PR, old="            if not port.injected.value:  # filter out injected required ports\n                requires_ports.append(", new="            if True:\n                requires_ports.append(")]),
    dict(id='c03-injected-guard-inverted', prop='C03', expect='violation', rule='C03.injected',
         edits=[dict(file=PR, old="            if not port.injected.value:  # filter out injected required ports", new="            if port.injected.value:")]),
    dict(id='c03-lookup-by-type-name', prop='C03', expect='violation', rule='C03.lookup',
         edits=[dict(file=PR, old=LOOKUP, new=LOOKUP.replace("return matched_ports.value[port.name]", "return matched_ports.value[str(port.type_name)]").replace("if port.name not in matched_ports.value", "if str(port.type_name) not in matched_ports.value"))]),
    dict(id='c03-requires-matched-with-provides-set', prop='C03', expect='violation', rule='C03.sides',
         edits=[dict(file=PS, old="result.update(self.requires.match(requires_ports, 'requires'))", new="result.update(self.requires.match(provides_ports, 'requires'))")]),
    dict(id='c03-portnames-swapped', prop='C03', expect='violation', rule='C03.sides',
         edits=[dict(file=V, old="        if port.direction == PortDirection.PROVIDES:\n            provides.add(port.name)", new="        if port.direction == PortDirection.REQUIRES:\n            provides.add(port.name)"),
                dict(file=V, old="        if port.direction == PortDirection.REQUIRES:\n            requires.add(port.name)", new="        if port.direction == PortDirection.PROVIDES:\n            requires.add(port.name)")]),
    dict(id='c03-mixed-provides-check-removed', prop='C03', expect='violation', rule='C03.rejects',
         edits=[dict(file=PS, old="        if self.provides.sts.is_not_empty() and self.provides.mts.is_not_empty():\n            raise AdvShellError('Mixed STS/MTS provides ports are currently not supported')", new="        pass")]),
    dict(id='c03-overlap-check-removed', prop='C03', expect='violation', rule='C03.rejects',
         edits=[dict(file=PS, old="        if [x for x in self.sts.tryget_strset() if x in self.mts.tryget_strset()]:\n            raise AdvShellError('properties sts and mts can not overlap')\n", new="")]),
    dict(id='c03-valueerror-in-port-selection', prop='C03', expect='violation', rule='C03.errors',
         edits=[dict(file=PS, old="                raise AdvShellError('strset must not be empty')", new="                raise ValueError('strset must not be empty')")]),
    dict(id='c03-semantics-of-other-port', prop='C03', expect='violation', rule='C03.lookup',
         edits=[dict(file=PR, old="                requires_ports.append(DznPortItf(port, itf, lookup_semantics(all_ports, port)))", new="                requires_ports.append(DznPortItf(port, itf, lookup_semantics(all_ports, encapsulee.ports.elements[0])))")]),
    # behaviour preserving
    dict(id='c03-overlap-by-intersection-ok', prop='C03', expect='silent',
         edits=[dict(file=PS, old="        if [x for x in self.sts.tryget_strset() if x in self.mts.tryget_strset()]:", new="        if self.sts.tryget_strset() & self.mts.tryget_strset():")]),
    dict(id='c03-lookup-eafp-ok', prop='C03', expect='silent',
         edits=[dict(file=PR, old=LOOKUP, new="    try:\n        return matched_ports.value[port.name]\n    except KeyError as exc:\n        raise AdvShellError(f'Port \"{port.name}\" is not configured') from exc")]),
    dict(id='c03-lookup-get-ok', prop='C03', expect='silent',
         edits=[dict(file=PR, old=LOOKUP, new="    semantics = matched_ports.value.get(port.name)\n    if semantics is None:\n        raise AdvShellError(f'Port \"{port.name}\" is not configured')\n    return semantics")]),
]
