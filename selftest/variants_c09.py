"""Seeded faults / behaviour-preserving variants for C09."""
PR = 'adv_shell/core/processing.py'
CM = 'adv_shell/common.py'
INIT = 'adv_shell/__init__.py'

VARIANTS = [
    dict(id='c09-clone-dropped', prop='C09', expect='violation', rule='C09.chain',
         edits=[dict(file=PR, old="std::move(FacilitiesCheck({p_locator.name}).clone()'", new="std::move(dzn::locator(FacilitiesCheck({p_locator.name}))'")]),
    dict(id='c09-set-runtime-dropped', prop='C09', expect='violation', rule='C09.chain',
         edits=[dict(file=PR, old="               f'.set({facilities.runtime.name})'\n", new="")]),
    dict(id='c09-encapsulee-from-prototype', prop='C09', expect='violation', rule='C09.chain',
         edits=[dict(file=PR, old="               f'{encapsulee.member_var.name}({facilities.locator.name})']", new="               f'{encapsulee.member_var.name}({p_locator.name})']")]),
    dict(id='c09-check-skipped-create', prop='C09', expect='violation', rule='C09.chain',
         edits=[dict(file=PR, old="std::move(FacilitiesCheck({p_locator.name}).clone()'", new="std::move({p_locator.name}.clone()'")]),
    dict(id='c09-polarity-create', prop='C09', expect='violation', rule='C09.check',
         edits=[dict(file=PR, old="            'if (locator.try_get<dzn::pump>() != nullptr) throw std::runtime_error('", new="            'if (locator.try_get<dzn::pump>() == nullptr) throw std::runtime_error('")]),
    dict(id='c09-runtime-check-removed-import', prop='C09', expect='violation', rule='C09.check',
         edits=[dict(file=PR, old="            'if (locator.try_get<dzn::runtime>() == nullptr) throw std::runtime_error('\n            f'\"{scope.name}: Dezyne runtime missing (dzn::runtime)\");',\n", new="")]),
    dict(id='c09-dispatcher-value-member-import', prop='C09', expect='violation', rule='C09.members',
         edits=[dict(file=PR, old="        dispatcher_mv = cpp_gen.decl_var_ref_t(fqn_t('dzn.pump'), 'm_dispatcher')\n        return Facilities(origin, dispatcher_mv, None, None, None)", new="        dispatcher_mv = cpp_gen.decl_var_t(fqn_t('dzn.pump'), 'm_dispatcher')\n        return Facilities(origin, dispatcher_mv, None, None, None)")]),
    dict(id='c09-dispatcher-reference-create', prop='C09', expect='violation', rule='C09.members',
         edits=[dict(file=PR, old="        dispatcher_mv = cpp_gen.decl_var_t(fqn_t('dzn.pump'), 'm_dispatcher')\n        runtime_mv", new="        dispatcher_mv = cpp_gen.decl_var_ref_t(fqn_t('dzn.pump'), 'm_dispatcher')\n        runtime_mv")]),
    dict(id='c09-locator-declared-first', prop='C09', expect='violation', rule='C09.order',
         edits=[dict(file=CM, old="        member_vars = [str(mv) for mv in [self.runtime,\n                                          self.dispatcher,\n                                          self.locator] if mv is not None]", new="        member_vars = [str(mv) for mv in [self.locator,\n                                          self.runtime,\n                                          self.dispatcher] if mv is not None]")]),
    dict(id='c09-encapsulee-before-facilities', prop='C09', expect='violation', rule='C09.order',
         edits=[dict(file=INIT, old="        private_section = [chunk([cpp.facilities.member_variables,\n                                  cpp.facilities_check_fn.as_decl]),\n                           chunk(cpp.encapsulee),", new="        private_section = [chunk(cpp.encapsulee),\n                           chunk([cpp.facilities.member_variables,\n                                  cpp.facilities_check_fn.as_decl]),")]),
    dict(id='c09-accessor-for-import', prop='C09', expect='violation', rule='C09.members',
         edits=[dict(file=PR, old="        return Facilities(origin, dispatcher_mv, None, None, None)", new="        return Facilities(origin, dispatcher_mv, None, None,\n                          Function(TypeDesc(fqn_t('dzn.locator'), postfix=TypePostfix.REFERENCE), 'Locator', scope=scope, contents='return m_locator;'))")]),
    dict(id='c09-import-get-runtime', prop='C09', expect='violation', rule='C09.import',
         edits=[dict(file=PR, old="(FacilitiesCheck({p_locator.name}).get<dzn::pump>())',", new="({p_locator.name}.get<dzn::pump>())',")]),
    dict(id='c09-check-returns-copy-not-param', prop='C09', expect='violation', rule='C09.check',
         edits=[dict(file=PR, old="            BLANK_LINE,\n            'return locator;'\n        ])\n    elif facilities_origin", new="            BLANK_LINE,\n            'return {};'\n        ])\n    elif facilities_origin")]),
    # behaviour preserving
    dict(id='c09-set-order-swapped-ok', prop='C09', expect='silent',
         edits=[dict(file=PR, old="               f'.set({facilities.runtime.name})'\n               f'.set({facilities.dispatcher.name})))',", new="               f'.set({facilities.dispatcher.name})'\n               f'.set({facilities.runtime.name})))',")]),
    dict(id='c09-message-reworded-ok', prop='C09', expect='silent',
         edits=[dict(file=PR, old="Overlapping dispatcher found (dzn::pump)", new="a dispatcher is already registered")]),
    # the member block written as an explicit loop (found by the refactoring fuzz: the literal sequence is unrolled by N8)
    dict(id='c09-member-variables-loop-ok', prop=['C09', 'C13'], expect='silent',
         edits=[dict(file='adv_shell/common.py', old='        member_vars = [str(mv) for mv in [self.runtime,\n                                          self.dispatcher,\n                                          self.locator] if mv is not None]\n', new='        member_vars = []\n        for mv in [self.runtime, self.dispatcher, self.locator]:\n            if mv is not None:\n                member_vars.append(str(mv))\n')]),
    dict(id='c09-member-variables-loop-locator-first', prop='C09', expect='violation', rule='C09.order',
         edits=[dict(file='adv_shell/common.py', old='        member_vars = [str(mv) for mv in [self.runtime,\n                                          self.dispatcher,\n                                          self.locator] if mv is not None]\n', new='        member_vars = []\n        for mv in [self.locator, self.runtime, self.dispatcher]:\n            if mv is not None:\n                member_vars.append(str(mv))\n')]),
]
