"""Hand-built Dezyne JSON AST used only for triage demonstrations (never by a check)."""
import json


def sn(*ids):
    return {'<class>': 'scope_name', 'ids': list(ids)}


def formal(name, typ, direction='in'):
    return {'<class>': 'formal', 'name': name, 'type_name': sn(*typ.split('.')), 'direction': direction}


def event(name, direction, ret='void', formals=()):
    return {'<class>': 'event', 'name': name, 'direction': direction,
            'signature': {'<class>': 'signature', 'type_name': sn(*ret.split('.')),
                          'formals': {'<class>': 'formals', 'elements': list(formals)}}}


def port(name, typ, direction, injected=False):
    p = {'<class>': 'port', 'name': name, 'type_name': sn(*typ.split('.')), 'direction': direction,
         'formals': {'<class>': 'formals', 'elements': []}}
    if injected:
        p['injected?'] = 'injected'
    return p


def interface(name, events, enums=()):
    return {'<class>': 'interface', 'name': sn(name),
            'types': {'<class>': 'types', 'elements': [
                {'<class>': 'enum', 'name': sn(e), 'fields': {'<class>': 'fields', 'elements': list(f)}}
                for e, f in enums]},
            'events': {'<class>': 'events', 'elements': list(events)}}


def component(name, ports):
    return {'<class>': 'component', 'name': sn(name), 'ports': {'<class>': 'ports', 'elements': list(ports)}}


def model(release='Free', claim_formal_type='MyType', global_ns=False):
    iapi = interface('IApi', [
        event('Claim', 'in', 'Result', [formal('who', claim_formal_type)]),
        event(release, 'in', 'void', [formal('who', 'MyType')]),
        event('Use', 'in', 'void', [formal('a', 'MyType'), formal('b', 'MyType', 'out')]),
        event('Done', 'out', 'void', [formal('v', 'MyType')]),
    ], enums=[('Result', ['Ok', 'Fail'])])
    ihal = interface('IHal', [event('Go', 'in'), event('Went', 'out', 'void', [formal('v', 'MyType')])])
    ilog = interface('ILogger', [event('Log', 'in')])
    comp = component('Comp', [port('api', 'IApi', 'provides'), port('hal', 'IHal', 'requires'),
                              port('hal2', 'IHal', 'requires'), port('log', 'ILogger', 'requires', injected=True)])
    ext = {'<class>': 'extern', 'name': sn('MyType'), 'value': {'<class>': 'data', 'value': 'std::string'}}
    elems = [ext, iapi, ihal, ilog, comp]
    if not global_ns:
        elems = [{'<class>': 'namespace', 'name': sn('My'), 'elements': elems}]
    return json.dumps({'<class>': 'root', 'elements': [{'<class>': 'file-name', 'name': 'Comp.dzn'}] + elems,
                       'working-directory': '/x'}).encode()
