#!/usr/bin/env python3
"""Debug aid: print the loop bodies (templates) the E4 evaluator derives for the wiring generators of a tree.
   show_wiring.py [repo-root]"""
import sys
sys.path.insert(0, '/verif')
from dznverif.cli import Ctx
from dznverif.rules import wiring as W
ctx = Ctx('C01', 'quick', 0, sys.argv[1] if len(sys.argv) > 1 else '/repo')
try:
    w = W.build_wiring(ctx)
except Exception as exc:
    print('build_wiring:', exc)
    from dznverif.template import Evaluator
    ev = Evaluator(ctx.prog, ctx.cg)
    for name in ('create_constructor', 'create_cpp_port_helpers'):
        val = ev.eval_entry(ctx.prog.func(W.PROC, name))
    print('opaque log:', sorted(set(ev.opaque_log)))
    sys.exit(1)
for entry, loops in w.loops.items():
    for lp in loops:
        print(f'--- {entry} @ {lp.where}  src={lp.src!r}')
        print('   ', repr(lp.body)[:1500])
