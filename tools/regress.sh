#!/bin/sh
# full regression of the machinery: 20 quick checks on /repo, catalogue self-test, replay of the stored changes
cd /verif
(for p in $(seq -w 1 20); do DZNVERIF_NO_EVIDENCE=1 /venv/bin/python -m dznverif check C$p 2>&1 | tail -1; done) 2>&1 | grep -v "violations=0 known=[01] analysis_errors=0"
/venv/bin/python -m dznverif selftest 2>&1 | grep -v "^selftest ok" | tail -8
/venv/bin/python tools/replay_seeded.py 2>&1 | tail -4
