#!/usr/bin/env python3
"""Regenerate section 9 of DESIGN.md from tools/design_section9.md (prose), the evidence files (table of checks)
and seeded/*/meta.json (table of independently seeded changes).  Run after a thorough run of all checks."""
import json
import os

ROOT = os.path.dirname(os.path.dirname(os.path.abspath(__file__)))
rows = []
for n in range(1, 21):
    pid = f'C{n:02d}'
    e = json.load(open(f'{ROOT}/evidence/{pid}.json'))
    c = e['coverage']
    rules = ', '.join(f"{k.split('.', 1)[1]} {v['instances']}" for k, v in c['per_rule'].items() if '.' in k)
    sv = c.get('checker_self_validation', {})
    rows.append(f"| {pid} | {rules} | {c['evaluations']} | {sv.get('seeded_faults_reported', '-')} / "
                f"{sv.get('behaviour_preserving_silent', '-')} | {sv.get('agent_changes_reported', '-')} / "
                f"{sv.get('agent_changes_silent', '-')} | {e['wall_s']:.0f} s ({e['tier']}) |")
table = ("| id | rules (instances on today's tree) | instances | catalogue: faults reported / refactorings silent | "
         "agent changes: reported / silent | wall of the last run |\n|---|---|---|---|---|---|\n" + '\n'.join(rows))
srows, brows = [], []
for d in sorted(os.listdir(f'{ROOT}/seeded')):
    m = json.load(open(f'{ROOT}/seeded/{d}/meta.json'))
    if m.get('pending'):
        continue
    cb = ', '.join(f"{w['property']} `{w['rule']}`" for w in m['caught_by'])
    imp = ', '.join(f"{w['property']}" for w in m.get('imprecise', []))
    if m.get('benign'):
        brows.append(f"| {d} | {m['property']} | {m['summary']} | {imp or 'all twenty silent'} | {m.get('notes', '-')} |")
    else:
        srows.append(f"| {d} | {m['property']} | {m['summary']} | {cb} | {imp or '-'} | {m.get('notes', '-')} |")
seeded = open(f'{ROOT}/tools/design_section9_seeded.md').read() + '\n'.join(srows)
s = open(f'{ROOT}/tools/design_section9.md').read().replace('@@TABLE@@', table).replace('@@SEEDED@@', seeded)
benign = ('| id | written for | the change | checks that still answer | what the checks had to learn (where recorded) |\n|---|---|---|---|---|\n'
          + '\n'.join(brows))
ok4 = ok5 = 0
for d_ in sorted(os.listdir(f'{ROOT}/seeded')):
    if d_.endswith('-ok4') or d_.endswith('-ok5'):
        m_ = json.load(open(f'{ROOT}/seeded/{d_}/meta.json'))
        if not m_.get('pending') and not m_.get('imprecise'):
            if d_.endswith('-ok4'):
                ok4 += 1
            else:
                ok5 += 1
import importlib.util, glob
nf = nb = 0
for vf in sorted(glob.glob(f'{ROOT}/selftest/variants_*.py')):
    spec = importlib.util.spec_from_file_location('v', vf)
    mod = importlib.util.module_from_spec(spec)
    spec.loader.exec_module(mod)
    nf += sum(1 for v in mod.VARIANTS if v['expect'] == 'violation')
    nb += sum(1 for v in mod.VARIANTS if v['expect'] != 'violation')
s10 = open(f'{ROOT}/tools/design_section10.md').read().replace('@@BENIGN@@', benign).replace('@@OK4@@', str(ok4)).replace('@@OK5@@', str(ok5)) \
    .replace('@@CATALOGUE@@', f'{nf + nb} variants: {nf} faults reported, {nb} refactorings silent')
s = s.replace('@@CATALOGUE@@', f'{nf + nb} variants: {nf} faults reported, {nb} refactorings silent')
d = open(f'{ROOT}/DESIGN.md').read()
marker = '-' * 93 + '\n\n## Appendix A'
assert marker in d
if '## 9. Build report' in d:
    d = d[:d.index('## 9. Build report')] + s + '\n' + s10 + '\n' + d[d.index(marker):]
else:
    d = d.replace(marker, s + '\n' + s10 + '\n' + marker)
open(f'{ROOT}/DESIGN.md', 'w').write(d)
print('DESIGN.md sections 9 and 10 regenerated,', len(d.splitlines()), 'lines')
