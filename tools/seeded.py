#!/usr/bin/env python3
"""Book-keeping for property-breaking changes written by independent sub-agents.

  seeded.py import <Cxx> <worktree> [--id ID] [--benign]   verify demo both ways + pinned suite, store under /verif/seeded/<ID>/
                                               (--benign: a property-preserving change; the demo must hold both ways)
  seeded.py scan <ID> [--tier quick|thorough]  apply the patch to a scratch copy of /repo/src, run all 20 checks, print who reports
  seeded.py repo <ID>                          the same against /repo itself (git apply ... checkout), target property only

Nothing here is part of a registered check; the stored patches are replayed by the thorough tier
(dznverif.selftest.validate_for) according to `caught_by` in meta.json.
"""
import concurrent.futures as cf
import json
import os
import re
import shutil
import subprocess
import sys
import tempfile

ROOT = os.path.dirname(os.path.dirname(os.path.abspath(__file__)))
PY = '/venv/bin/python'
ALL = [f'C{n:02d}' for n in range(1, 21)]


def sh(cmd, **kw):
    return subprocess.run(cmd, capture_output=True, text=True, **kw)


def do_import(prop, wt, ident, benign=False):
    demo = os.path.join(wt, f'demo_{prop}.py')
    assert os.path.exists(demo), demo
    diff = sh(['git', '-C', wt, 'diff']).stdout
    assert diff.strip(), 'no uncommitted change in the worktree'
    names = sh(['git', '-C', wt, 'diff', '--name-only']).stdout.split()
    assert all(n.startswith('src/dznpy/') for n in names), names
    env = dict(os.environ, PYTHONPATH=os.path.join(wt, 'src'))
    with_change = sh([PY, demo], cwd='/tmp', env=env)
    suite = sh([PY, '-m', 'pytest', '-q', '-p', 'no:cacheprovider', '--timeout=900', '--continue-on-collection-errors'], cwd=wt)
    tail = suite.stdout.strip().splitlines()[-1] if suite.stdout.strip() else ''
    # no `git stash`: the stash is shared by all worktrees of /repo (agents running in parallel would race)
    pfile = tempfile.NamedTemporaryFile('w', suffix='.diff', delete=False)
    pfile.write(diff)
    pfile.close()
    rv = sh(['git', '-C', wt, 'apply', '-R', '--whitespace=nowarn', pfile.name])
    assert rv.returncode == 0, rv.stderr
    try:
        assert not sh(['git', '-C', wt, 'diff']).stdout.strip()
        without = sh([PY, demo], cwd='/tmp', env=env)
    finally:
        ap = sh(['git', '-C', wt, 'apply', '--whitespace=nowarn', pfile.name])
        assert ap.returncode == 0, ap.stderr
        os.unlink(pfile.name)
    print('with change   :', with_change.returncode, (with_change.stdout.strip().splitlines() or [''])[-1][:200])
    print('without change:', without.returncode, (without.stdout.strip().splitlines() or [''])[-1][:200])
    print('suite         :', tail)
    if benign:
        # a behaviour-preserving change: the demonstration holds both ways
        ok = with_change.returncode == 0 and 'HOLDS' in with_change.stdout and without.returncode == 0 and \
            'HOLDS' in without.stdout and re.search(r'\b181 passed\b', tail) and re.search(r'\b10 errors\b', tail)
    else:
        ok = with_change.returncode != 0 and 'VIOLATED' in with_change.stdout and without.returncode == 0 and \
            'HOLDS' in without.stdout and re.search(r'\b181 passed\b', tail) and re.search(r'\b10 errors\b', tail)
    if not ok:
        print('NOT CONFIRMED - nothing stored')
        return 1
    d = os.path.join(ROOT, 'seeded', ident)
    os.makedirs(d, exist_ok=True)
    # the patch is stored relative to the directory that contains src/
    with open(os.path.join(d, 'patch.diff'), 'w') as fh:
        fh.write(diff)
    shutil.copy(demo, os.path.join(d, f'demo_{prop}.py'))
    meta_path = os.path.join(d, 'meta.json')
    meta = {}
    if os.path.exists(meta_path):
        meta = json.load(open(meta_path))
    meta.update({'id': ident, 'property': prop, 'files': names,
                 'demo': f'demo_{prop}.py',
                 'demo_with_change': (with_change.stdout.strip().splitlines() or [''])[-1 if benign else 0][:400],
                 'demo_without_change': (without.stdout.strip().splitlines() or [''])[-1][:200],
                 'suite_with_change': tail})
    if benign:
        meta['benign'] = True
    meta.setdefault('summary', '')
    meta.setdefault('caught_by', [])
    json.dump(meta, open(meta_path, 'w'), indent=1)
    print('stored', d)
    return 0


def scratch_with_patch(ident):
    d = os.path.join(ROOT, 'seeded', ident)
    base = tempfile.mkdtemp(prefix='dznverif-seeded-')
    shutil.copytree('/repo/src', os.path.join(base, 'src'), ignore=shutil.ignore_patterns('__pycache__', '*.pyc'))
    ap = sh(['git', 'apply', '--whitespace=nowarn', os.path.join(d, 'patch.diff')], cwd=base)
    if ap.returncode != 0:
        shutil.rmtree(base)
        raise SystemExit(f'patch does not apply: {ap.stderr}')
    return base


def one(prop, base, tier):
    env = dict(os.environ, DZNVERIF_NO_EVIDENCE='1', DZNVERIF_NO_SELFVALIDATION='1')
    p = sh([PY, '-m', 'dznverif', 'check', prop, '--repo', base, '--tier', tier], cwd=ROOT, env=env)
    rules = re.findall(r'^\s+rule (\S+) @ (\S+) (\S+): (.*)$', p.stdout, flags=re.M)
    errs = re.findall(r'^ANALYSIS-ERROR.*$', p.stdout, flags=re.M)
    return prop, p.returncode, rules, errs


def do_scan(ident, tier):
    base = scratch_with_patch(ident)
    try:
        with cf.ThreadPoolExecutor(16) as ex:
            res = list(ex.map(lambda p: one(p, base, tier), ALL))
    finally:
        shutil.rmtree(base, ignore_errors=True)
    for prop, rc, rules, errs in res:
        if rc != 0:
            print(f'{prop}: exit={rc}')
            for r in rules[:6]:
                print(f'    {r[0]} @ {r[2]} {r[3][:220]}')
            for e in errs[:3]:
                print('    ' + e[:300])
    print('reporting:', [p for p, rc, _r, _e in res if rc == 1], 'analysis-error:', [p for p, rc, _r, _e in res if rc == 2])
    out = os.path.join(ROOT, 'out', 'scan')
    os.makedirs(out, exist_ok=True)
    json.dump({p: {'exit': rc, 'rules': sorted({r[0] for r in rules}), 'errors': [e[:200] for e in errs[:3]]}
               for p, rc, rules, errs in res if rc != 0}, open(os.path.join(out, ident + '.json'), 'w'), indent=1)


def do_repo(ident):
    d = os.path.join(ROOT, 'seeded', ident)
    meta = json.load(open(os.path.join(d, 'meta.json')))
    assert not sh(['git', '-C', '/repo', 'status', '--porcelain']).stdout.strip(), '/repo is not clean'
    ap = sh(['git', '-C', '/repo', 'apply', '--whitespace=nowarn', os.path.join(d, 'patch.diff')])
    assert ap.returncode == 0, ap.stderr
    try:
        for w in meta.get('caught_by') or [{'property': meta['property']}]:
            env = dict(os.environ, DZNVERIF_NO_EVIDENCE='1', DZNVERIF_NO_SELFVALIDATION='1')
            p = sh([PY, '-m', 'dznverif', 'check', w['property'], '--tier', w.get('tier', 'quick')], cwd=ROOT, env=env)
            print(w['property'], 'exit', p.returncode)
            print('\n'.join(l for l in p.stdout.splitlines() if l.startswith(('VIOLATION', '  rule', 'ANALYSIS'))))
    finally:
        sh(['git', '-C', '/repo', 'checkout', '--', '.'])
    assert not sh(['git', '-C', '/repo', 'status', '--porcelain']).stdout.strip()


if __name__ == '__main__':
    cmd = sys.argv[1]
    if cmd == 'import':
        prop, wt = sys.argv[2], sys.argv[3]
        ident = sys.argv[sys.argv.index('--id') + 1] if '--id' in sys.argv else f'{prop}-a'
        sys.exit(do_import(prop, wt, ident, benign='--benign' in sys.argv))
    if cmd == 'scan':
        tier = sys.argv[sys.argv.index('--tier') + 1] if '--tier' in sys.argv else 'quick'
        do_scan(sys.argv[2], tier)
    if cmd == 'repo':
        do_repo(sys.argv[2])
