# Per-property table for gen_manifest.py.  claim(pid, technique, text, note) / na(pid, reason)

claim('C08',
      'interprocedural order-taint dataflow (sets -> formatting/indexing sinks) + forbidden-source reachability + '
      'call-shape rule on GeneratedContent.hash + module/class mutable-state lint, over python ast',
      'Static rule set deciding necessary conditions of purity for all inputs at once: no set-ordered value (nor a '
      'list/dict built by iterating one) reaches an order-sensitive sink unsanitised in any function reachable from '
      'the generator entry points; no ambient source (id/hash/time/random/uuid/environment, default object repr) is '
      'reachable; the hash is md5 over UTF-8 contents; no module- or class-level mutable state. A pass means none of '
      'the enumerated sources of variation exists in the current source - it is not a proof of byte equality.',
      'Trusted: python ast, the E1 type inference over the repository annotations, determinism of CPython apart '
      'from the enumerated sources. Values typed Any are followed through parameter/return/field taint only.')

claim('C12',
      'ownership/mutation analysis over python ast: receiver roots by copy propagation with a path-indexed heap for '
      'fresh objects, mutates-self / mutates-parameter / returns-alias / stores-into-self summaries to a fixpoint, '
      'judged at every mutation site reachable from the build entry points; plus structural rules on Builder state '
      'and the six create_header calls',
      'Static rule set: every mutation site reachable from Builder.build and the six create_header functions has a '
      'receiver allocated by the build itself - never (a part of) the configuration or the parsed model, never a '
      'module-level object, never an object of unknown provenance whose static type is an input type; rendering '
      'functions do not mutate their receiver; text buffers never alias caller data; no module/class level mutable '
      'state; Builder keeps only _recipe, assigned before it is read; the support files in the result are the '
      'unmodified results of the six stand-alone generators called with the configured prefix. These are necessary '
      'and (together with C08) sufficient structural conditions for independence of builds; equality of outputs as '
      'values is not computed.',
      'Trusted: python ast, E1 type inference, the language-level immutability of str/int/enum values. The heap '
      'abstraction is k-limited (paths of length 6) and field-sensitive only for fresh objects.')

claim('C16',
      'ownership/mutation analysis (E3c) over the parser entry points + accumulator rule (grown-and-returned '
      'instance state must be re-initialised before growth) + module/class mutable-state lint, over python ast',
      'Static rule set: every mutation site reachable from the public DznJsonAst methods and the parse_* functions '
      'writes a fresh local or instance state allocated per instance in __init__; nothing class-level or '
      'module-level; no parse function mutates an argument (JSON nodes, namespace-tree nodes); a public method '
      'that returns instance state it grows resets that state on every path before the first growth. Absence of '
      'shared mutable state is sufficient for isolation of parses; idempotence of process() is decided by the '
      'accumulator rule. Equality of results as values is not computed.',
      'Trusted: python ast, E1 type inference, E3c ownership summaries (k-limited paths).')

claim('C13',
      'finite-scenario interpretation of the package syntax trees by the checker own evaluator (E7) of the single-instance gate and of factories for dispatch facts, inside the exception-escape analysis over the call graph from Builder.build (implicit raisers and explicit built-in '
      'raises as obligations; discharge by path facts, class invariants, constructor-site correlation, call-site '
      'evaluation of validator preconditions, enumerated exhaustive branch chains, reasoned entries re-verified per '
      'run) + termination-shape rules + structural rules on the result list and the rejection guards, over python ast',
      'Static rule set: the set of exception classes that may leave Builder.build contains only the library\'s own '
      'error types - every subscript, Optional dereference, attribute access on a (union) type, pop/next/index, '
      'unpacking, call arity, possibly-unbound name and every explicit raise of a built-in exception type in the '
      'reachable set is discharged; no handler swallows; build has one unconditional return of header, source and '
      'all six support files; recursion is on structurally smaller values and while loops shrink; each listed class '
      'of invalid input has a dominating raise of a library error. Decides "never an internal error / never partial '
      '/ termination shape" for all well-typed inputs; does not decide that valid inputs always succeed.',
      'Trusted: python ast, E1 type inference from the repository annotations, the closed table of implicit '
      'raisers, stdlib calls outside that table do not raise for well-typed arguments. Assumption A1 (Dezyne '
      'identifiers are non-empty) is stated in the evidence. RecursionError from input depth is out of reach.')

claim('C15',
      'finite-scenario interpretation of the package syntax trees by the checker own evaluator (E7) of parse_event over all out-event shapes, with the dominance rule as fallback; typestate analysis of decoded JSON values (unchecked until a dominating isinstance) + exception-escape '
      'analysis from process()/parse_* + dominance rules on the out-event rejections and the identifier path, over '
      'python ast',
      'Static rule set: in json_ast.py no operation that can fail is applied to a JSON value before a dominating '
      'type test (children of checked containers are unchecked again; the typed getters are verified to test before '
      'they return); the exception classes that may leave process(), parse_element and every parse_* function are '
      'DznJsonError or NamespaceIdsTypeError; identifier lists reach NamespaceIds only through the validating '
      'constructor path after the empty-list refusal; both out-event rejections dominate the only construction of '
      'Event with the right polarity; recursion is on sub-elements only. This decides "never an internal exception" '
      'for every JSON value; it does not bound recursion depth.',
      'Trusted: python ast, E1/E2, the closed table of operations that can raise on JSON values, orjson producing '
      'only dict/list/str/int/float/bool/None with str keys. RecursionError on ~500 nested namespaces is out of reach.')

claim('C17',
      'finite-scenario interpretation of the package syntax trees by the checker own evaluator (E7) of TextBlock.__str__ on blocks of zero to three lines, with the shape rule as fallback; provenance judgement on every write to the TextBlock line buffer (clean-line-list abstract property), '
      'ownership analysis for buffer aliasing, shape rules on __str__ and flatten_to_strlist, over python ast',
      'Static rule set for the invariant part of the property: every string entering a block\'s buffer comes from '
      'str.splitlines() without keepends, the guarded empty string, another block\'s lines or a per-line map / '
      'sub-list of such a list, so no stored line contains a line break and each physical line is one entry; blocks '
      'never share a buffer; the string form is every header and content line followed by exactly one EOL (empty '
      'block -> empty string); flattening recurses into lists and dict values in order with the empty-string skip as '
      'the only filter, and append keeps empty strings; TextBlock(v), append, + and += interpreted (E7) over 24 kinds of content '
      'hold exactly the lines of what was put in (C17.lines), trimming interpreted on line lists up to length 4 (C17.trim). The algebraic laws of the statement (round trip, reference '
      'flattener, trim, chunk) are value-level equalities and are NOT decided.',
      'Trusted: python ast, E1 types, semantics of str.splitlines/join. Assumes callers of the public lines setter '
      'pass line-break-free strings and that bullet glyphs contain no line break.')

claim('C18',
      'finite-scenario interpretation of the package syntax trees by the checker own evaluator (E7) of Indentizer.to_list / to_str over indentor x bullet mode x glyph width x line sequences up to length two plus longer witnesses, with the shape rules as fallback; sibling rule to_str/to_list (join-shape recognition), termination-shape analysis, cardinality judgement on the '
      'result expressions of to_list, guard rules on prefixing expressions, write-set rule for indent(), over python ast',
      'Static rule set: Indentizer.to_str is EOL.join(self.to_list(arg)) + EOL (the two forms agree by construction); '
      'no unconditional self-recursion in the text layer; every result of to_list is an order- and length-preserving '
      'map of the flattened input (no filter, head/tail split covers the input once); the whitespace prefix is only '
      'applied to non-blank lines and bullet-prefixed lines are stripped; the prefix is SPACE*n or TAB and the '
      'continuation prefix is re-derived from the bullet width; indent() never writes the header. That the text of a '
      'line is unchanged for every string (strip() in bullet modes also removes leading whitespace) is value-level and '
      'not decided.',
      'Trusted: python ast, E1/E2, the recognised expression shapes; an unrecognised shape is an ANALYSIS-ERROR.')

claim('C14',
      'finite-scenario interpretation of the package syntax trees by the checker own evaluator (E7) of find_fqn / find_any on a small universe of declarations and of the identifier validation, with the shape rules as fallback; cross-table agreement (scanned containers vs FileContents declaration fields vs valid_types), structural rules '
      'on the lookup loops, regex language inclusion via re._parser, who-may-write analysis on NamespaceIds.items '
      '(E3c), separator table agreement, over python ast',
      'Static rule set for the structural part: find_fqn/find_any scan exactly the declaration containers (never '
      'imports/file names) and valid_types is the same class set; a declaration is appended at most once and matches '
      'by whole-name equality (suffix search: exact tail slice); the resolution order is append-only from the full '
      'calling scope outwards on a deep copy; the identifier regex denotes a subset of [A-Za-z_][A-Za-z0-9_]* and is '
      'applied with fullmatch to every identifier, NamespaceIds cannot be built or modified around that validation; '
      'writer and reader separators agree and cannot occur in identifiers. The set equalities of the statement '
      '(exactly the declarations on the chain, innermost-to-outermost, lossless conversion) are value-level and are '
      'NOT decided.',
      'Trusted: python ast, re._parser of the running interpreter, E1 types, E3c ownership summaries. A caller that '
      'mutates its own list after handing it to NamespaceIds is outside the library\'s control (observation O3).')

claim('C03',
      'finite-scenario interpretation of the package syntax trees by the checker own evaluator (E7) of PortsSemanticsCfg.match / PortsSemanticsCfg / PortsCfg over all selections of a three-name universe, with the shape rules as fallback; structural rules over python ast with path facts: guarded-lookup rule on every read of the match result, '
      'ordering and provenance rules on the if/elif chain of match(), dominance of the unknown-name rejection, '
      'argument-provenance rules for the per-side name sets and the per-port lookup, raise classification',
      'Static rule set: a port that no selection covers cannot pass silently or die with KeyError (every read of the '
      'match result outside port_selection is a guarded lookup whose miss raises AdvShellError); explicit names are '
      'tested before wildcards and each branch assigns the semantics of the selection it tested to the tested port; '
      'the rejection of unknown names over both selections dominates the result; the semantics handed to each exposed '
      'port is the lookup for that same port name; only requires ports are filtered and exactly by the injected flag; '
      'provides/requires name sets reach the provides/requires selections; the construction-time rejections exist; '
      'port_selection raises only configuration errors or argument validators; matching dominates file generation. '
      'The accept/reject relation over all pairs of selections and name sets is value-level set algebra and is NOT '
      'decided.',
      'Trusted: python ast, E1 types, E2 path facts. Semantic matching of the rejection conditions is by the '
      'operations they apply (equality of the selections, intersection/overlap, is_wildcard_all/is_not_empty).')

claim('C07',
      'finite-scenario interpretation of the package syntax trees by the checker own evaluator (E7) of FindResult.get_single_instance over every result shape (single-instance gate), with the typestate rule as fallback; call-site enumeration with argument provenance over python ast (alias normalisation, loop-binder tracking), '
      'typestate rule on FindResult, kind-hint agreement, written-name-is-lookup-key-only rule',
      'Static rule set for the generator\'s lookup discipline: every written name (port type, formal type, claim reply '
      'type, encapsulee) is resolved with find_fqn from the referring scope the Dezyne rules prescribe (never suffix '
      'search, never a scan of FileContents); a declaration leaves a FindResult only through get_single_instance '
      '(0 or >1 matches raise); the kind hint equals the kind the result is used as; written names are never spelled '
      'into the output and resolved declarations are rendered root-qualified from their own fqn; find_fqn matches by '
      'whole-name equality; a hand-written memo of resolutions is keyed by the written name AND the referring scope '
      '(C07.memo: every parameter the remembered value depends on is part of the key; names handed to a helper are '
      'judged at its callers). That scope_resolution_order yields the right chain of candidates is value-level (shape '
      'decided by C14).',
      'Trusted: python ast, E1 types, the reference table port->enclosing scope of the encapsulee, formal/reply type->'
      'declaring interface scope (Dezyne scoping rules).')

claim('C05',
      'finite-scenario interpretation of the package syntax trees by the checker own evaluator (E7) of DznJsonAst.process() on a scenario document with the leaf parsers replaced by their contract (traversal: dispatch, namespaces, siblings), shape rules on the constant-folded residual as fallback; cross-table agreement over python ast: <class> dispatch vs assert_class literal vs return type vs container '
      'element type; field-set and JSON-key provenance per constructor against the Dezyne schema table; cardinality '
      'judgement on list-valued fields; decoder totality/injectivity',
      'Static rule set: per dispatch branch the tested <class> literal, the class the called parse function asserts, '
      'its return type and the FileContents container agree, each container has one writer, each branch appends once, '
      'every declaration class (plus file-name, import, namespace) has a branch and nested enums/subints are hoisted; '
      'unknown classes / non-dict elements cannot abort siblings and namespaces recurse over every sub-element under a '
      'child scope; every parse function by contract (asserts the <class> tag of X, returns X) interpreted (E7) on 123 '
      'generated well-formed elements hands back an object whose every field holds what the element says - strings and '
      'numbers unchanged, lists element-wise in order, directions decoded, fqn = parent scope + own name (fallback when '
      'not interpretable: every parse_X passes all fields of X, each fed from the getter for its Dezyne JSON key; list '
      'fields are order- and cardinality-preserving maps); a memo of the parser is keyed by all it depends on (C05.memo); the string->enum decoders are '
      'total, injective and name-preserving. The values of fully-qualified names and whole-document round-trip equality '
      'are value-level and are NOT decided.',
      'Trusted: python ast, the Dezyne JSON schema table (ast field <-> JSON key, class <-> <class> tag) embedded in '
      'rules/c05.py - it is the external format and the public field names, not a copy of the code.')

claim('C01',
      'generator template abstraction: abstract interpretation of the string-building emitters (inlining package '
      'functions, properties and __str__; text-layer combinators as layout), scenario evaluation over port kind x '
      'event direction x role, C++ token view with holes, statement patterns compared against the wiring table',
      'Static rule set on the generator\'s parametric templates, i.e. for all models at once: the link statements '
      'emitted per port kind and event direction equal the wiring table (each link exactly once, none for STS ports, '
      'client ports of a multi-client port get claim / release / pass-through links); in every link all event '
      'positions are the same event-name hole (no literal), `.in.`/`.out.` agree with the loop direction, all port '
      'references are the loop\'s port and the two sides are different objects; a closure link contains exactly one '
      'forwarded call; lambda parameters and forwarded arguments range over the same unfiltered ordered formals with '
      '`&` exactly for non-IN formals and the reply returned at every closure level; the constructor is declared in '
      'the header and defined in the source. Nothing is claimed about the compiled program (no Dezyne runtime, no '
      'execution): the rules fix the wiring shape of the emitted C++ for every model.',
      'Trusted: python ast, the E4 evaluator and its native models of TextBlock/chunk/cond_chunk/flatten (layout '
      'only, justified by C17/C18), the C++ lexer and statement patterns, C03.sides for provides/requires provenance.')

claim('C02',
      'generator template abstraction (E4) with scenario evaluation + C++ token patterns; enum-evaluated filters; '
      'thorough: clang compile-fail witnesses (with passing twins) on the strict-port header reconstructed by constant '
      'folding',
      'Static rule set on the generator templates: mts_ports / sts_ports partition the ports by semantics and no '
      'constructor statement is emitted for an STS port; per semantics x multi-client branch the accessor\'s strict '
      'type (Sts/Mts), its target and the member variable agree and the chain is exhaustive; provides in-event links '
      'are `return dzn::shell(<facilities dispatcher>, <closure with the forwarded call>)`, requires out-event links '
      'post a closure to the dispatcher; deferred closures capture exactly the IN formals by value. Thorough adds '
      'compiler witnesses that Sts/Mts of one or of different interfaces cannot be connected or converted. Whether '
      'dzn::shell / dzn::pump block or post is the Dezyne runtime\'s behaviour and is not decided.',
      'Trusted: python ast, E4 evaluator and C++ token patterns, clang++ 14 and the mock port for the witnesses.')

claim('C04',
      'generator template abstraction (E4) + C++ token patterns for the claim / release / delivery links; AST rules on '
      'check_multiclient_cfg; clang -ast-dump=json rules on the instantiated MultiClientSelector<MockPort>',
      'Static rule set for the per-step transition shapes: claim / release links are keyed by the configured events; '
      'Select(identifier) only under `r == <root-qualified granting reply of the resolved enum>` with r the forwarded '
      'call\'s result, returned unchanged; Deselect(identifier) after the forwarded release; out-events are delivered '
      'under has_value() of the value obtained from CurrentClient() of the same port, on that value\'s port; all client '
      'in-events reach the component through the arbitered port whose in-events are dzn::shell links; every field of the '
      'multi-client settings is validated with MultiClientCfgError and the feature is restricted to MTS; in the support '
      'header Select assigns the selection only for registered clients and an entry found by an ordered search '
      '(lower_bound ...) is used only after its key was compared with the identifier. Known finding K1 (Deselect resets whoever '
      'calls) is reported as KNOWN-FINDING. Behaviour over histories of claims/releases is a trace property and is NOT '
      'decided.',
      'Trusted: python ast, E4/E5, clang++ 14 JSON AST of the explicit instantiation, /verif/cxx/mock.')

claim('C06',
      'constant folding of the six create_header functions with the E4 evaluator and type checking of the '
      'reconstructed headers by the clang++ front end (alone / twice / together / two prefixes / explicit '
      'instantiation); E4 evaluation of the shell header/source frames for guard and linkage; AST set-comparison '
      'rules for include closure and declaration/definition pairing',
      'Static rule set: every quoted include names the model\'s own header, the shell header or a returned support '
      'file; every function declared in the shell header is defined in the source; the member variables and accessors the header '
      'declares per port range over the complete port list (no partial view - last group of an unsorted groupby, slice: C06.members, E4); '
      'every generated header frame emits an '
      'include guard before the first declaration; the shell is never wrapped in an unnamed namespace; namespace, '
      'spelling and file prefix derive from one value; the six support headers (the only C++ whose text does not depend '
      'on the model) are accepted by clang++ -std=c++17 on their own, twice in one TU, all together in both orders and '
      '(thorough) under two prefixes with every template explicitly instantiated against a Dezyne-shaped mock port; on '
      'clang\'s JSON AST every namespace-scope definition in them is a template, inline, constexpr or internal (C06.odr: '
      'the header can be included from two translation units of one program). That '
      'the shell header/source compile for every model is NOT decided (their text depends on model values).',
      'Trusted: python ast, E4 constant folding, clang++ 14, the mock runtime headers under /verif/cxx/mock. No '
      'include-what-you-use lint is applied.')

claim('C09',
      'generator template abstraction (E4) evaluated per FacilitiesOrigin member + C++ token patterns on the '
      'member-init list and FacilitiesCheck body; AST order rules',
      'Static rule set per origin: CREATE - dispatcher, runtime and locator are value members, a Locator() accessor '
      'returns the locator member, the locator is initialised from FacilitiesCheck(<param>).clone() with both owned '
      'facilities set afterwards and the encapsulee is built from the locator member; IMPORT - the dispatcher is a '
      'reference bound to FacilitiesCheck(<param>).get<dzn::pump>(), no runtime/locator/accessor, the encapsulee is built '
      'from the parameter; FacilitiesCheck tests dzn::pump and dzn::runtime with != nullptr (CREATE) / == nullptr '
      '(IMPORT), throws, returns its parameter and is static; declaration order is a topological order of the '
      'member-init dependencies. Object identity and exceptions at run time and the semantics of dzn::locator are not '
      'decided.',
      'Trusted: python ast, E4 evaluator and C++ token patterns.')

claim('C10',
      'generator template abstraction (E4) of FinalConstruct() evaluated over the five port kinds + clang '
      '-ast-dump=json rules on MultiClientSelector<MockPort>::FinalConstruct / Index / operator()',
      'Static rule set: for every kind of exposed port exactly one check statement is emitted on the object the accessor '
      'hands out (check_bindings() for plain ports, FinalConstruct() of the selector for a multi-client port); the parent '
      'meta is assigned from the parameter, the encapsulee\'s own check_bindings() is called, nothing returns or throws '
      'before; in the support header FinalConstruct iterates all clients without early exit calling check_bindings, then '
      'sets the flag, and every insertion into the client map (and write access to the arbitered port) is dominated by '
      '`if (m_finalConstructed) throw`. That check_bindings() of Dezyne-generated ports tests every event is Dezyne\'s '
      'code and not decided.',
      'Trusted: python ast, E4/E5, clang++ 14 JSON AST, /verif/cxx/mock.')

claim('C11',
      'lock-discipline rules on the clang JSON AST of the explicit instantiations MutexWrapped<int> and '
      'MultiClientSelector<MockPort> (who touches which field under which guard), plus a scope rule on the generated '
      'out-event link template',
      'Decides only the lock discipline, a necessary condition of race freedom: the mutex-wrapped value is private and '
      'reachable only through operator(), which locks first and moves the lock into the deleter of the returned pointer '
      '(by-value unique_lock, unlock iff owned: released on reset() and at scope exit); the selection is a private '
      'MutexWrapped value that no method leaks; only Index() writes the client map, under the final-construct guard; '
      'Select/Deselect take the selection lock exactly once (no self-deadlock, single mutex hence no lock-order cycle); '
      'the generated out-event link delivers inside the scope of the lock, no client in-event link holds that lock while it '
      'forwards through the dispatcher, the logger shared by the client threads has no changeable member. Deadlock freedom with re-entrant handlers, the '
      'claim/select window and "keeps receiving until it itself releases" over interleavings are schedule properties '
      'and are NOT decided by static analysis.',
      'Trusted: clang++ 14 JSON AST of the explicit instantiations, the C++ standard\'s semantics of std::mutex / '
      'unique_lock / unique_ptr, /verif/cxx/mock.')

claim('C19',
      'finite-scenario interpretation of the package syntax trees by the checker own evaluator (E7) of the ALL-mode indenter (every output line starts with the glyph or is blank), with the shape rule as fallback; structural rules on the comment machinery over python ast (glyph/mode of the installed indentizer, per-line map '
      'of the ALL branch, line splitting in TextBlock.append), ownership analysis of Comment.__str__, and a taint walk '
      'over the E4 templates of the shell header/source and the support-file frame',
      'Static rule set: cpp_gen.Comment unconditionally installs a `//` bullet indentizer in mode ALL; the ALL branch of '
      'Indentizer.to_list is taken before any other and maps every line of the whole list to bullet prefix + line; the '
      'prefix starts with the glyph; every string item is split with str.splitlines(); Comment.__str__ returns the '
      'indented fresh deep copy and mutates nothing reachable from self; in the generated-file templates cfg.copyright, '
      'cfg.creator_info, the support-file header text and the COPYRIGHT constant occur only inside Comment text, ending '
      'their own line and followed by constant comment text, no condition outside a comment and no file name depends on '
      'them, and every read of the two settings lies in a function covered by the templates. Character-level agreement '
      'between str.splitlines() and the C++ compiler on what a line break is, is assumed (Python splits on a superset).',
      'Trusted: python ast, E1/E2, E3c ownership summaries, the E4 template evaluator. Assumption: the TextBlock.lines '
      'setter is given EOL-free strings (its documented contract).')

claim('C20',
      'sibling agreement on the E4 templates of cpp_gen (as_decl vs as_def of Function / Constructor / Destructor / Param '
      'as text over self.* holes, every combination of the boolean conditions enumerated), token-level balance rules on '
      'the Struct / Class / Namespace templates, guard-presence rules on __post_init__',
      'Static rule set: declaration and definition render the same name hole, one repetition over self.params with the '
      'same filter and source order, `<type> <name>` per parameter (declaration optionally with the default value), the '
      'same cv qualifier and return type; prefix / explicit / override / `= initialisation` / default values never occur '
      'in a definition; definitions are qualified `Scope::` (constructor / destructor always, function iff a scope is '
      'set) and empty exactly when `initialization` is set; braces and parentheses balance in every variant, contents '
      'sit between the braces, struct/class render `<keyword> <name> {` ... `};` with the right keyword, the namespace '
      'closing comment repeats the opening identifiers; the __post_init__ validators the statement relies on exist. '
      '"Any composition is accepted by a C++ compiler" quantifies over user-supplied strings and is NOT decided.',
      'Trusted: python ast, the E4 template evaluator, TextBlock being layout-only (C17/C18).')

_pending = 'check not built yet in this round (design in DESIGN.md section 3); will be claimed when its rules run clean'
for _n in range(1, 21):
    _p = f'C{_n:02d}'
    if _p not in CLAIMED:
        na(_p, _pending)

_E7_NOTE = (' Where a rule is decided by E7 (the checker interprets the syntax trees of the named functions itself - nothing of /repo '
            'is imported or executed - over a small universe of opaque names, enum members and a few constants), the verdict is '
            'exact for that universe and carries over to all inputs by a data-independence argument stated per rule in DESIGN.md '
            'section 2 (E7): the interpreted code only compares, stores and concatenates the values it is given. It is a bounded '
            'decision, not a proof; a construct the evaluator does not model makes the rule fall back to its shape form.')
for _p in ('C03', 'C05', 'C07', 'C13', 'C14', 'C15', 'C17', 'C18', 'C19'):
    CLAIMED[_p]['note'] += _E7_NOTE
