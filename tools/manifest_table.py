# Per-property table for gen_manifest.py.  claim(pid, technique, text, note) / na(pid, reason)

claim('C08',
      'interprocedural order-taint dataflow (sets -> formatting/indexing sinks) + forbidden-source reachability + '
      'call-shape rule on GeneratedContent.hash + module/class mutable-state lint, over python ast',
      'Static rule set deciding necessary conditions of purity for all inputs at once: no set-ordered value (nor a '
      'list/dict built by iterating one) reaches an order-sensitive sink unsanitised in any function reachable from '
      'the generator entry points; no ambient source (id/hash/time/random/uuid/environment, default object repr) is '
      'reachable; the hash is md5 over UTF-8 contents; no module- or class-level mutable state. A pass means none of '
      'the enumerated sources of variation exists in the current source - it is not a proof of byte equality.',
      'Trusted: python ast, the E1 type inference over the repository annotations, determinism of CPython apart '
      'from the enumerated sources. Values typed Any are followed through parameter/return/field taint only.')

_pending = 'check not built yet in this round (design in DESIGN.md section 3); will be claimed when its rules run clean'
for _p in ['C01', 'C02', 'C03', 'C04', 'C05', 'C06', 'C07', 'C09', 'C10', 'C11', 'C12', 'C13', 'C14', 'C15', 'C16',
           'C17', 'C18', 'C19', 'C20']:
    na(_p, _pending)
