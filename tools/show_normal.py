#!/usr/bin/env python3
"""Debug aid: print a function of the program model in its normal form (N1-N10).
   show_normal.py <repo-root> <module suffix> <qualname>"""
import sys, ast
sys.path.insert(0, '/verif')
from dznverif.model import Program
import os
prog = Program(os.path.join(sys.argv[1], 'src'))
fn = prog.func(sys.argv[2], sys.argv[3])
print(ast.unparse(fn.node))
