#!/usr/bin/env python3
"""Regenerate /verif/MANIFEST.json from the per-property table below (kept in one place so that the
claimed set, the not_applicable list and the level notes cannot drift apart)."""
import json
import os

ROOT = os.path.dirname(os.path.dirname(os.path.abspath(__file__)))
PY = '/venv/bin/python'

# property -> dict(technique, text, note, design_ref)   (claimed)
CLAIMED = {}
# property -> reason (not claimed)
NOT_APPLICABLE = {}


def claim(pid, technique, text, note):
    CLAIMED[pid] = dict(technique=technique, text=text, note=note)


def na(pid, reason):
    NOT_APPLICABLE[pid] = reason


exec(open(os.path.join(ROOT, 'tools', 'manifest_table.py')).read())

checks = []
for pid in sorted(CLAIMED):
    c = CLAIMED[pid]
    checks.append({
        'property_id': pid,
        'quick_cmd': f'{PY} -m dznverif check {pid} --tier quick',
        'thorough_cmd': f'{PY} -m dznverif check {pid} --tier thorough',
        'evidence_file': f'/verif/evidence/{pid}.json',
        'replay_cmd_template': f'{PY} -m dznverif check {pid} --replay {{path}}',
        'engine': 'dznverif',
        'level_claimed': {'category': 'other', 'text': c['text'], 'design_ref': f'DESIGN.md section 3, {pid}'},
        'level_note': c['note'],
        'technique': c['technique'],
    })

manifest = {
    'version': 1,
    'setup_cmd': f'{PY} -m compileall -q dznverif',
    'hooks': {
        'guard': 'DZNPY_VERIF',
        'enable': 'none needed: the checks are static analyses that read /repo/src/dznpy from the working tree; '
                  'no hook or instrumentation commit exists in /repo',
        'baseline_off_cmd': 'cd /repo && /venv/bin/python -m pytest -ra -q -p no:cacheprovider --timeout=900 '
                            '--continue-on-collection-errors',
        'source_commits': [],
        'add_only': True,
    },
    'engines': [{
        'name': 'dznverif',
        'path': '/verif/dznverif',
        'serves_properties': sorted(CLAIMED),
        'kind_free_text': 'repository-specific static analysis: python ast program model (resolved imports, class '
                          'table, light type inference, call graph), structured-control-flow path conditions, '
                          'effect analyses (exception escape, termination shape, ownership/mutation, order taint, '
                          'JSON typestate), generator template abstraction (string analysis of the C++ emitters) '
                          'and clang front-end checks of the embedded C++ constants',
    }],
    'checks': checks,
    'notes': 'All checks decide structural necessary conditions of the properties from the current source of '
             '/repo/src/dznpy without importing or running it; see DESIGN.md for the clauses decided and not '
             'decided per property. Exit 0 = holds, exit 1 + VIOLATION line = violation, exit 2 + ANALYSIS-ERROR '
             'line = anchor vanished / idiom not modelled (fail-closed, never a silent pass).',
    'not_applicable': [{'property_id': pid, 'reason': NOT_APPLICABLE[pid]} for pid in sorted(NOT_APPLICABLE)],
}
with open(os.path.join(ROOT, 'MANIFEST.json'), 'w') as fh:
    json.dump(manifest, fh, indent=1)
    fh.write('\n')
print('claimed', sorted(CLAIMED), 'n/a', sorted(NOT_APPLICABLE))
