#!/usr/bin/env python3
"""Replay every triaged stored change (seeded/*) against the checks named in its meta.json (and, for property-preserving
changes, against all twenty checks); print what is not judged as recorded.  `--all`: every stored change against all
twenty checks (what the thorough tiers do together): a property-breaking change must also leave the checks of the
properties it does not touch silent, unless listed as tolerated."""
import sys, json, concurrent.futures as cf
sys.path.insert(0, '/verif')
from dznverif import selftest as st
ALL = [f'C{n:02d}' for n in range(1, 21)]
ms = st.load_seeded()
def job(m):
    if m.get('benign') or '--all' in sys.argv:
        props = ALL
    else:
        props = sorted({w['property'] for w in (m.get('caught_by') or [])} | {m['property']})
    return st.run_seeded('/repo', m, props)
bad = 0
with cf.ThreadPoolExecutor(8) as ex:
    for m, res in zip(ms, ex.map(job, ms)):
        for r in res:
            if r[2] != 'ok':
                bad += 1
                print(r)
print(f'{len(ms)} stored changes replayed, {bad} not judged as recorded')
