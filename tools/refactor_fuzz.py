#!/usr/bin/env python3
"""Metamorphic test of the checkers: behaviour-preserving, ast-computed refactorings of /repo/src/dznpy.

For every function of the package one transformation at a time is applied (the module is re-emitted with ast.unparse),
the result is written to a scratch copy of src/ outside /repo and /verif, and all twenty quick checks are run on it.
Every check must stay silent (exit 0): a VIOLATION is a false alarm, an ANALYSIS-ERROR an idiom the analysis does not
model.  Nothing of /repo is executed.

  refactor_fuzz.py [--jobs N] [--only T1,T2] [--module name] [--limit K] [--props C01,C13]

Transformations:
  unparse      the whole module re-emitted by ast.unparse (comments dropped, quoting / layout normalised)
  rename       alpha-renaming of the local variables of one function
  hoist        `return <expr>`  ->  `tmp = <expr>; return tmp`
  comp2loop    `x = [e for t in it if c]`  ->  explicit loop with append
  invert-if    `if a: X else: Y`  ->  `if not (a): Y else: X`
"""
import ast
import concurrent.futures as cf
import copy
import json
import os
import re
import shutil
import subprocess
import sys
import tempfile

ROOT = os.path.dirname(os.path.dirname(os.path.abspath(__file__)))
PY = '/venv/bin/python'
SRC = '/repo/src'
ALL = [f'C{n:02d}' for n in range(1, 21)]


def functions(tree):
    out = []
    for node in ast.walk(tree):
        if isinstance(node, (ast.FunctionDef, ast.AsyncFunctionDef)):
            out.append(node)
    return out


def own_nodes(fn):
    stack = list(ast.iter_child_nodes(fn))
    while stack:
        n = stack.pop()
        yield n
        if isinstance(n, (ast.FunctionDef, ast.AsyncFunctionDef, ast.ClassDef)):
            continue
        stack.extend(ast.iter_child_nodes(n))


def t_rename(fn):
    if any(isinstance(n, (ast.FunctionDef, ast.AsyncFunctionDef, ast.ClassDef, ast.Global, ast.Nonlocal)) for n in own_nodes(fn)):
        return False
    params = {a.arg for a in fn.args.posonlyargs + fn.args.args + fn.args.kwonlyargs}
    if fn.args.vararg:
        params.add(fn.args.vararg.arg)
    if fn.args.kwarg:
        params.add(fn.args.kwarg.arg)
    stored = {n.id for n in own_nodes(fn) if isinstance(n, ast.Name) and isinstance(n.ctx, ast.Store)} - params
    lambda_params = {a.arg for n in own_nodes(fn) if isinstance(n, ast.Lambda) for a in n.args.args}
    stored -= lambda_params
    handler_names = {n.name for n in own_nodes(fn) if isinstance(n, ast.ExceptHandler) and n.name}
    stored -= handler_names
    allnames = {n.id for n in own_nodes(fn) if isinstance(n, ast.Name)} | params
    mapping = {}
    for s in sorted(stored):
        new = s + '_r'
        while new in allnames:
            new += 'r'
        mapping[s] = new
    if not mapping:
        return False
    for n in own_nodes(fn):
        if isinstance(n, ast.Name) and n.id in mapping:
            n.id = mapping[n.id]
    return True


def t_hoist(fn):
    changed = False

    def rewrite(block):
        nonlocal changed
        i = 0
        while i < len(block):
            st = block[i]
            if isinstance(st, ast.Return) and st.value is not None and not isinstance(st.value, (ast.Name, ast.Constant)):
                tmp = ast.Assign(targets=[ast.Name(id='hoisted_result', ctx=ast.Store())], value=st.value, lineno=st.lineno)
                block[i:i + 1] = [tmp, ast.Return(value=ast.Name(id='hoisted_result', ctx=ast.Load()))]
                changed = True
                i += 2
                continue
            for fld in ('body', 'orelse', 'finalbody'):
                sub = getattr(st, fld, None)
                if isinstance(sub, list) and not isinstance(st, (ast.FunctionDef, ast.AsyncFunctionDef, ast.ClassDef)):
                    rewrite(sub)
            if isinstance(st, ast.Try):
                for h in st.handlers:
                    rewrite(h.body)
            i += 1

    if any(isinstance(n, ast.Name) and n.id == 'hoisted_result' for n in own_nodes(fn)):
        return False
    rewrite(fn.body)
    return changed


def t_comp2loop(fn):
    changed = False
    names_count = {}
    for n in own_nodes(fn):
        if isinstance(n, ast.Name):
            names_count[n.id] = names_count.get(n.id, 0) + 1

    def rewrite(block):
        nonlocal changed
        i = 0
        while i < len(block):
            st = block[i]
            if isinstance(st, ast.Assign) and len(st.targets) == 1 and isinstance(st.targets[0], ast.Name) and \
                    isinstance(st.value, ast.ListComp) and len(st.value.generators) == 1 and not st.value.generators[0].is_async:
                g = st.value.generators[0]
                tnames = {x.id for x in ast.walk(g.target) if isinstance(x, ast.Name)}
                inside = {}
                for x in ast.walk(st.value):
                    if isinstance(x, ast.Name):
                        inside[x.id] = inside.get(x.id, 0) + 1
                # the loop variable must not exist outside the comprehension (it would be clobbered / leak)
                if all(names_count.get(t, 0) == inside.get(t, 0) for t in tnames) and st.targets[0].id not in inside:
                    acc = st.targets[0].id
                    body = ast.Expr(value=ast.Call(func=ast.Attribute(value=ast.Name(id=acc, ctx=ast.Load()), attr='append', ctx=ast.Load()),
                                                   args=[st.value.elt], keywords=[]))
                    inner = body
                    for c in reversed(g.ifs):
                        inner = ast.If(test=c, body=[inner], orelse=[])
                    loop = ast.For(target=g.target, iter=g.iter, body=[inner], orelse=[], lineno=st.lineno)
                    init = ast.Assign(targets=[ast.Name(id=acc, ctx=ast.Store())], value=ast.List(elts=[], ctx=ast.Load()), lineno=st.lineno)
                    block[i:i + 1] = [init, loop]
                    changed = True
                    i += 2
                    continue
            for fld in ('body', 'orelse', 'finalbody'):
                sub = getattr(st, fld, None)
                if isinstance(sub, list) and not isinstance(st, (ast.FunctionDef, ast.AsyncFunctionDef, ast.ClassDef)):
                    rewrite(sub)
            i += 1

    rewrite(fn.body)
    return changed


def t_invert_if(fn):
    changed = False
    for n in own_nodes(fn):
        if isinstance(n, ast.If) and n.orelse and not (len(n.orelse) == 1 and isinstance(n.orelse[0], ast.If)):
            n.test = ast.UnaryOp(op=ast.Not(), operand=n.test)
            n.body, n.orelse = n.orelse, n.body
            changed = True
    return changed


def _pure(e) -> bool:
    return not any(isinstance(x, (ast.Call, ast.Await, ast.Yield, ast.YieldFrom, ast.NamedExpr)) for x in ast.walk(e))


def t_eq_swap(fn):
    changed = False
    for n in own_nodes(fn):
        if isinstance(n, ast.Compare) and len(n.ops) == 1 and isinstance(n.ops[0], (ast.Eq, ast.NotEq)) and \
                _pure(n.left) and _pure(n.comparators[0]):
            n.left, n.comparators[0] = n.comparators[0], n.left
            changed = True
    return changed


def t_fstring_concat(fn):
    """f'a{x}b'  ->  'a' + f'{x}' + 'b'   (same text; each hole keeps its own f-string)"""
    changed = False

    class T(ast.NodeTransformer):
        def visit_JoinedStr(self, node):
            nonlocal changed
            self.generic_visit(node)
            if len(node.values) < 2:
                return node
            parts = []
            for v in node.values:
                parts.append(v if isinstance(v, ast.Constant) else ast.JoinedStr(values=[v]))
            out = parts[0]
            for p_ in parts[1:]:
                out = ast.BinOp(left=out, op=ast.Add(), right=p_)
            changed = True
            return out

        def visit_FormattedValue(self, node):
            return node          # do not rewrite format specs

        def visit_FunctionDef(self, node):
            return node if node is not fn else self.generic_visit(node)

    T().visit(fn)
    return changed


def t_swap_adjacent(fn):
    changed = False

    def names(e):
        return {x.id for x in ast.walk(e) if isinstance(x, ast.Name)}

    def rewrite(block):
        nonlocal changed
        i = 0
        while i < len(block) - 1:
            a, b = block[i], block[i + 1]
            if all(isinstance(s, ast.Assign) and len(s.targets) == 1 and isinstance(s.targets[0], ast.Name) and _pure(s.value)
                   for s in (a, b)):
                ta, tb = a.targets[0].id, b.targets[0].id
                if ta != tb and ta not in names(b.value) and tb not in names(a.value):
                    block[i], block[i + 1] = b, a
                    changed = True
                    i += 2
                    continue
            i += 1
        for st in block:
            for fld in ('body', 'orelse', 'finalbody'):
                sub = getattr(st, fld, None)
                if isinstance(sub, list) and not isinstance(st, (ast.FunctionDef, ast.AsyncFunctionDef, ast.ClassDef)):
                    rewrite(sub)

    rewrite(fn.body)
    return changed


_DATACLASS_FIELDS = None


def dataclass_fields():
    """class name -> ordered field names, for the dataclasses of the package (names assumed unique)."""
    global _DATACLASS_FIELDS
    if _DATACLASS_FIELDS is None:
        sys.path.insert(0, ROOT)
        from dznverif.model import Program
        prog = Program(SRC)
        out = {}
        names = {}
        for c in prog.classes.values():
            names[c.name] = names.get(c.name, 0) + 1
            if c.is_dataclass and prog.lookup_method(c, '__init__') is None:
                out.setdefault(c.name, []).append(list(prog.class_fields(c)))
        # only class names that are unique in the whole package (ast.Comment vs cpp_gen.Comment ...)
        _DATACLASS_FIELDS = {k: v[0] for k, v in out.items() if len(v) == 1 and names[k] == 1}
    return _DATACLASS_FIELDS


def t_kwargs(fn):
    """Foo(a, b)  ->  Foo(x=a, y=b) for dataclass constructors of the package"""
    changed = False
    flds = dataclass_fields()
    for n in own_nodes(fn):
        if isinstance(n, ast.Call) and n.args and not any(isinstance(a, ast.Starred) for a in n.args):
            name = n.func.id if isinstance(n.func, ast.Name) else n.func.attr if isinstance(n.func, ast.Attribute) else None
            if name in flds and len(n.args) <= len(flds[name]) and name[:1].isupper():
                given = {k.arg for k in n.keywords}
                new_kw = [ast.keyword(arg=f, value=a) for f, a in zip(flds[name], n.args)]
                if not (given & {k.arg for k in new_kw}):
                    n.keywords = new_kw + n.keywords
                    n.args = []
                    changed = True
    return changed


TRANSFORMS = {'rename': t_rename, 'hoist': t_hoist, 'comp2loop': t_comp2loop, 'invert-if': t_invert_if,
              'eq-swap': t_eq_swap, 'fstring-concat': t_fstring_concat, 'swap-adjacent': t_swap_adjacent, 'kwargs': t_kwargs}


def module_files():
    out = []
    for dp, _dn, fns in os.walk(os.path.join(SRC, 'dznpy')):
        for f in fns:
            if f.endswith('.py'):
                out.append(os.path.join(dp, f))
    return sorted(out)


def make_variants(only, module_filter):
    variants = []
    for path in module_files():
        rel = os.path.relpath(path, SRC)
        if module_filter and module_filter not in rel:
            continue
        src = open(path, encoding='utf-8').read()
        tree = ast.parse(src)
        if not only or 'unparse' in only:
            variants.append((f'unparse:{rel}', rel, ast.unparse(tree) + '\n'))
        idx = 0
        for fn in functions(tree):
            idx += 1
            for tname, tf in TRANSFORMS.items():
                if only and tname not in only:
                    continue
                t2 = copy.deepcopy(tree)
                fn2 = functions(t2)[idx - 1]
                try:
                    if not tf(fn2):
                        continue
                except Exception as exc:      # a bug of the transformation is not a finding
                    print(f'transform {tname} failed on {rel}:{fn.name}: {exc!r}')
                    continue
                ast.fix_missing_locations(t2)
                new = ast.unparse(t2) + '\n'
                compile(new, rel, 'exec')
                variants.append((f'{tname}:{rel}:{fn.name}@{fn.lineno}', rel, new))
    return variants


def run_variant(v, props):
    vid, rel, text = v
    base = tempfile.mkdtemp(prefix='dznverif-fuzz-')
    try:
        shutil.copytree(SRC, os.path.join(base, 'src'), ignore=shutil.ignore_patterns('__pycache__', '*.pyc'))
        with open(os.path.join(base, 'src', rel), 'w', encoding='utf-8') as fh:
            fh.write(text)
        env = dict(os.environ, DZNVERIF_NO_EVIDENCE='1', DZNVERIF_NO_SELFVALIDATION='1')
        bad = []
        for p in props:
            proc = subprocess.run([PY, '-m', 'dznverif', 'check', p, '--repo', base, '--tier', 'quick'], cwd=ROOT, env=env,
                                  capture_output=True, text=True, timeout=600)
            if proc.returncode != 0:
                lines = [l.strip()[:300] for l in proc.stdout.splitlines() if l.startswith(('  rule', 'ANALYSIS-ERROR'))]
                bad.append((p, proc.returncode, lines[:4]))
        return vid, bad
    finally:
        shutil.rmtree(base, ignore_errors=True)


def main():
    args = sys.argv[1:]
    jobs = int(args[args.index('--jobs') + 1]) if '--jobs' in args else 16
    only = set(args[args.index('--only') + 1].split(',')) if '--only' in args else None
    module_filter = args[args.index('--module') + 1] if '--module' in args else None
    limit = int(args[args.index('--limit') + 1]) if '--limit' in args else None
    props = args[args.index('--props') + 1].split(',') if '--props' in args else ALL
    variants = make_variants(only, module_filter)
    if limit:
        variants = variants[:limit]
    print(f'{len(variants)} variants x {len(props)} checks')
    n_bad = 0
    results = {}
    with cf.ThreadPoolExecutor(max_workers=jobs) as ex:
        for vid, bad in ex.map(lambda v: run_variant(v, props), variants):
            if bad:
                n_bad += 1
                results[vid] = bad
                for p, rc, lines in bad:
                    print(f'NOT-SILENT {vid} {p} exit={rc}')
                    for l in lines:
                        print('      ' + l)
                sys.stdout.flush()
    print(f'{len(variants)} variants, {n_bad} with a non-silent check')
    out = os.path.join(ROOT, 'out', 'refactor_fuzz.json')
    os.makedirs(os.path.dirname(out), exist_ok=True)
    json.dump(results, open(out, 'w'), indent=1)
    return 1 if n_bad else 0


if __name__ == '__main__':
    sys.exit(main())
