#!/bin/sh
# scratch.sh <seeded-id> : scratch copy of /repo/src with the stored change applied; prints its path (remove it yourself)
d=$(mktemp -d /tmp/dznverif-dbg-XXXXXX)
cp -r /repo/src "$d/src"
(cd "$d" && patch -s -p1 < /verif/seeded/$1/patch.diff) || exit 1
echo "$d"
