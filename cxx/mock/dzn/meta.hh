// Mock of the part of the Dezyne runtime API that the dznpy support headers touch (trusted base of the
// clang-based checks).  Shapes follow dezyne 2.17 <dzn/meta.hh>: a port carries a meta aggregate whose
// provide / require parts are 4-field aggregates starting with the name.
#ifndef DZNVERIF_MOCK_DZN_META_HH
#define DZNVERIF_MOCK_DZN_META_HH
#include <functional>
#include <stdexcept>
#include <string>
namespace dzn
{
struct component_meta;
namespace port
{
struct meta
{
  struct
  {
    std::string name;
    const void* port;
    const void* component;
    const dzn::component_meta* meta;
  } provide;
  struct
  {
    std::string name;
    const void* port;
    const void* component;
    const dzn::component_meta* meta;
  } require;
};
} // namespace port
struct component_meta
{
  std::string name;
  const component_meta* parent;
};
typedef component_meta meta;
struct binding_error : public std::runtime_error
{
  binding_error(const port::meta&, const std::string& msg) : std::runtime_error("not connected: " + msg) {}
};
} // namespace dzn
#endif
