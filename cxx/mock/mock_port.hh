// A port type shaped like Dezyne-generated interface code: constructed from dzn::port::meta, in/out event
// structs of std::function members, check_bindings(), and a free connect() function.
#ifndef DZNVERIF_MOCK_PORT_HH
#define DZNVERIF_MOCK_PORT_HH
#include <dzn/meta.hh>
#include <functional>
struct MockPort
{
  dzn::port::meta meta;
  struct
  {
    std::function<int(int)> Claim;
    std::function<void()> Release;
  } in;
  struct
  {
    std::function<void(int)> Notify;
  } out;
  MockPort(const dzn::port::meta& m) : meta(m) {}
  void check_bindings() const
  {
    if (!in.Claim) throw dzn::binding_error(meta, "in.Claim");
    if (!in.Release) throw dzn::binding_error(meta, "in.Release");
    if (!out.Notify) throw dzn::binding_error(meta, "out.Notify");
  }
};
inline void connect(MockPort& provided, MockPort& required)
{
  provided.out = required.out;
  required.in = provided.in;
}
struct OtherPort
{
  dzn::port::meta meta;
  OtherPort(const dzn::port::meta& m) : meta(m) {}
  void check_bindings() const {}
};
inline void connect(OtherPort&, OtherPort&) {}
#endif
