"""E3b - termination shape.

Recursion: every call inside a call-graph cycle must be on a structurally smaller value (an
argument or the receiver is a strict part of a parameter / of self), or be guarded by a test that
the recursive binding falsifies.  The smallest violating shape is an unconditional self-call with
unchanged arguments.
Loops: every `while` must, on every path through its body, leave the loop or shrink a variable its
test depends on; no `for` body may grow the collection it iterates; no infinite iterators.

Edges that exist only because `str()` / an f-string is applied to a value of unknown type (the
over-approximation of E1) are not followed: rendering recursion follows the nesting of the
objects handed to the text layer, which is finite for a finite acyclic input (stated assumption).
"""
from __future__ import annotations

import ast
from typing import Dict, List, Optional, Set, Tuple

from .model import Program, CallGraph, FuncInfo, iter_own_nodes
from .flow import Flow, always_exits, same_expr, names_in
from .mutation import Mutations
from .absval import Abs, YES, NO

INFINITE_ITERATORS = {'itertools.count', 'itertools.cycle', 'itertools.repeat'}


def sccs(nodes: List[str], succ: Dict[str, Set[str]]) -> List[List[str]]:
    index: Dict[str, int] = {}
    low: Dict[str, int] = {}
    on: Set[str] = set()
    stack: List[str] = []
    out: List[List[str]] = []
    counter = [0]

    def strong(v: str):
        work = [(v, iter(sorted(succ.get(v, ()))))]
        index[v] = low[v] = counter[0]
        counter[0] += 1
        stack.append(v)
        on.add(v)
        while work:
            node, it = work[-1]
            advanced = False
            for w in it:
                if w not in index:
                    index[w] = low[w] = counter[0]
                    counter[0] += 1
                    stack.append(w)
                    on.add(w)
                    work.append((w, iter(sorted(succ.get(w, ())))))
                    advanced = True
                    break
                elif w in on:
                    low[node] = min(low[node], index[w])
            if advanced:
                continue
            work.pop()
            if work:
                parent = work[-1][0]
                low[parent] = min(low[parent], low[node])
            if low[node] == index[node]:
                comp = []
                while True:
                    w = stack.pop()
                    on.discard(w)
                    comp.append(w)
                    if w == node:
                        break
                out.append(comp)

    for v in nodes:
        if v not in index:
            strong(v)
    return out


class Termination:
    def __init__(self, prog: Program, cg: CallGraph, flow: Flow, mut: Mutations, abs_: Abs):
        self.prog, self.cg, self.flow, self.mut, self.abs = prog, cg, flow, mut, abs_

    def precise_edges(self, fn: FuncInfo) -> List[Tuple[FuncInfo, ast.AST, str]]:
        out = []
        env = self.cg.env(fn)
        for callee, node, kind in self.cg.edges.get(fn.fq, []):
            if kind.endswith('-any'):
                continue
            if isinstance(node, ast.Call):
                cs = env.resolve_call(node)
                if cs and isinstance(cs[0], tuple) and cs[0][0] == 'byname':
                    continue
            out.append((callee, node, kind))
        return out

    def recursion_instances(self, reach: List[FuncInfo]) -> List[tuple]:
        """[(fn, call node, callee, ok, message)] for every call inside a call-graph cycle."""
        fq = {f.fq: f for f in reach}
        succ: Dict[str, Set[str]] = {}
        for f in reach:
            succ[f.fq] = {c.fq for c, _n, _k in self.precise_edges(f) if c.fq in fq}
        out = []
        for comp in sccs(sorted(fq), succ):
            cyc = set(comp)
            if len(comp) == 1 and comp[0] not in succ.get(comp[0], ()):
                continue
            for name in comp:
                f = fq[name]
                for callee, node, kind in self.precise_edges(f):
                    if callee.fq not in cyc:
                        continue
                    ok, msg = self._judge_recursive_call(f, callee, node, kind)
                    if not ok:
                        why = self._handed_on(f, callee, node, cyc, fq)
                        if why:
                            ok, msg = True, why
                    out.append((f, node, callee, ok, msg))
        return out

    def _handed_on(self, f: FuncInfo, callee: FuncInfo, node: ast.AST, cyc: Set[str], fq: Dict[str, FuncInfo]) -> Optional[str]:
        """A call inside a cycle that hands the caller's own parameter on unchanged (`f(v) -> g(v)`) does not descend itself; it is
        harmless when g, whenever it calls back into the cycle, does so on a strict part of that very parameter (`for x in v: f(x)`):
        every round through the cycle then works on a structurally smaller value."""
        if callee is f or not isinstance(node, ast.Call):
            return None
        fparams = [a.arg for a in f.params()]
        b = self.prog.bind_call(f.module, node, callee)
        handed = {q for q, arg in b.items() if isinstance(arg, ast.Name) and arg.id in fparams and arg.id not in self.cg.env(f)._assign_sites}
        if not handed:
            return None
        back = [(c2, n2, k2) for c2, n2, k2 in self.precise_edges(callee) if c2.fq in cyc]
        if not back:
            return None
        for c2, n2, k2 in back:
            exprs = list(n2.args) + [k.value for k in n2.keywords] if isinstance(n2, ast.Call) else []
            if not any(r[0] == 'param' and r[1] in handed and r[2] for e in exprs for r in self.mut.roots(callee, e)):
                return None
        return (f'`{", ".join(sorted(handed))}` is handed on to {callee.qualname} unchanged, which calls back into the cycle only on strict parts of it: '
                f'every round works on a structurally smaller value')

    def _judge_recursive_call(self, f: FuncInfo, callee: FuncInfo, node: ast.AST, kind: str) -> Tuple[bool, str]:
        # receiver / arguments that are strict parts of the caller's parameters or of self
        exprs: List[ast.AST] = []
        if isinstance(node, ast.Call):
            exprs.extend(node.args)
            exprs.extend(k.value for k in node.keywords)
            if isinstance(node.func, ast.Attribute):
                exprs.append(node.func.value)
        elif isinstance(node, ast.Attribute):        # property read
            exprs.append(node.value)
        elif isinstance(node, ast.FormattedValue):
            exprs.append(node.value)
        elif isinstance(node, ast.BinOp):
            exprs.extend([node.left, node.right])
        smaller = []
        for e in exprs:
            for r in self.mut.roots(f, e):
                if r[0] == 'param' and r[2]:
                    smaller.append(f'`{ast.unparse(e)[:40]}` is a part ({".".join(r[2])}) of parameter {r[1]}')
                elif r[0] == 'self' and r[1]:
                    smaller.append(f'`{ast.unparse(e)[:40]}` is a part ({".".join(r[1])}) of self')
                elif r[0] == 'fresh' and any(h[0] in ('param', 'self') and (h[2] if h[0] == 'param' else h[1])
                                             for _p, h in r[1]):
                    pass
        if smaller:
            return True, 'recursion on a structurally smaller value: ' + smaller[0]
        # guard that the recursive binding falsifies
        facts = self.abs.facts_at(node)
        if isinstance(node, ast.Call) and facts:
            params = [a.arg for a in callee.params()]
            a = callee.node.args
            pos = list(a.posonlyargs) + list(a.args)
            defaults = {p.arg: d for p, d in zip(pos[len(pos) - len(a.defaults):], a.defaults)}
            offset = 1 if (params and params[0] in ('self', 'cls') and callee.cls is not None) else 0
            bound: Dict[str, Optional[ast.AST]] = {}
            for i, arg in enumerate(node.args):
                if i + offset < len(params):
                    bound[params[i + offset]] = arg
            for k in node.keywords:
                if k.arg:
                    bound[k.arg] = k.value
            for cond, pol in facts:
                nm = None
                if isinstance(cond, ast.Name):
                    nm = cond.id
                if nm and callee is f and nm in params:
                    val = bound.get(nm, defaults.get(nm))
                    if val is not None:
                        v = self.abs.at(f, val, None) if nm in bound else self.abs.at(callee, val, None)
                        if (pol and v.truthy == NO) or (not pol and v.truthy == YES):
                            return True, (f'the call is guarded by `{nm}` and the recursive call binds `{nm}` to '
                                          f'`{ast.unparse(val)}`, which falsifies the guard (depth <= 2)')
        if not facts:
            same = isinstance(node, ast.Call) and callee is f and all(
                isinstance(a, ast.Name) and a.id in [p.arg for p in f.params()] for a in node.args)
            return False, ('unconditional recursive call' + (' with unchanged arguments' if same else '')
                           + ': every invocation recurses until the interpreter limit (RecursionError)')
        return False, ('recursive call is neither on a structurally smaller value nor guarded by a test the '
                       'recursive binding falsifies')

    # -- loops ------------------------------------------------------------------------------------------------------
    def loop_instances(self, reach: List[FuncInfo]) -> List[tuple]:
        out = []
        for fn in reach:
            for n in iter_own_nodes(fn.node):
                if isinstance(n, ast.While):
                    ok, msg = self._judge_while(fn, n)
                    out.append((fn, n, 'while', ok, msg))
                elif isinstance(n, (ast.For, ast.AsyncFor)):
                    ok, msg = self._judge_for(fn, n)
                    out.append((fn, n, 'for', ok, msg))
                elif isinstance(n, ast.Call):
                    sym = self.prog.resolve_expr_symbol(fn.module, n.func)
                    if isinstance(sym, tuple) and sym[0] == 'ext' and sym[1] in INFINITE_ITERATORS:
                        if sym[1] == 'itertools.repeat' and (len(n.args) == 2 or any(k.arg == 'times' for k in n.keywords)):
                            continue        # repeat(x, times): finite
                        why = self._bounded_consumption(fn, n, 0)
                        if why:
                            out.append((fn, n, 'iterator', True, f'endless iterator {sym[1]}: {why}'))
                        else:
                            out.append((fn, n, 'iterator', False, f'infinite iterator {sym[1]}'))
        return out

    def _bounded_consumption(self, fn: FuncInfo, e: ast.AST, depth: int) -> Optional[str]:
        """The endless iterator made by expression `e` is only ever consumed in step with a finite sequence: it is an argument
        of map(f, ...) / zip(...) next to a list / tuple / string, it is cut by islice(it, n), a single element is taken with
        next(it), it is part of chain(...) that is consumed that way, or the function returns it and every call site in the
        package consumes the result that way.  None when some use may run it to exhaustion."""
        if depth > 5:
            return None
        prog = self.prog
        p = prog.parent(e)
        if isinstance(p, ast.Return) and p.value is e:
            callers = [(c, nd) for c, nd, _k in self.cg.callers(fn) if isinstance(nd, ast.Call)]
            if not callers:
                return None
            notes = []
            for cfn, cnode in callers:
                w = self._bounded_consumption(cfn, cnode, depth + 1)
                if not w:
                    return None
                notes.append(w)
            return f'returned to {len(callers)} call site(s): ' + notes[0]
        if isinstance(p, ast.Call) and any(a is e for a in p.args):
            fname = p.func.id if isinstance(p.func, ast.Name) else p.func.attr if isinstance(p.func, ast.Attribute) else ''
            if fname in ('map', 'zip'):
                others = [a for a in p.args if a is not e and not (fname == 'map' and a is p.args[0])]
                env = self.cg.env(fn)
                for a in others:
                    t = env.type_of(a)
                    t = t[1] if t[0] == 'opt' else t
                    if t[0] in ('list', 'tuple', 'str', 'dict', 'set') or isinstance(a, (ast.List, ast.Tuple, ast.ListComp)):
                        return f'consumed by {fname}() in step with the finite `{ast.unparse(a)[:40]}`'
                return None
            if fname == 'islice' and p.args and p.args[0] is e and len(p.args) >= 2:
                return 'cut by islice()'
            if fname == 'next' and p.args[0] is e:
                return 'a single element is taken with next()'
            if fname == 'chain':
                return self._bounded_consumption(fn, p, depth + 1)
            return None
        if isinstance(p, ast.Assign) and p.value is e and len(p.targets) == 1 and isinstance(p.targets[0], ast.Name):
            nm = p.targets[0].id
            uses = [x for x in iter_own_nodes(fn.node) if isinstance(x, ast.Name) and x.id == nm and isinstance(x.ctx, ast.Load)]
            if not uses:
                return None
            notes = []
            for u in uses:
                w = self._bounded_consumption(fn, u, depth + 1)
                if not w:
                    return None
                notes.append(w)
            return notes[0]
        return None

    def _shrinks(self, stmt: ast.stmt, test_names: Set[str], test: ast.expr) -> bool:
        # V = V[a:b]
        if isinstance(stmt, ast.Assign) and len(stmt.targets) == 1 and isinstance(stmt.targets[0], ast.Name):
            v = stmt.targets[0].id
            if v in test_names and isinstance(stmt.value, ast.Subscript) and isinstance(stmt.value.slice, ast.Slice) \
                    and isinstance(stmt.value.value, ast.Name) and stmt.value.value.id == v:
                sl = stmt.value.slice
                lo = isinstance(sl.lower, ast.Constant) and isinstance(sl.lower.value, int) and sl.lower.value >= 1
                hi = isinstance(sl.upper, ast.UnaryOp) and isinstance(sl.upper.op, ast.USub) and \
                    isinstance(sl.upper.operand, ast.Constant) and sl.upper.operand.value >= 1
                if (lo or hi) and sl.step is None:
                    return True
        # V.pop() / V.x.pop() / V.popitem() / V.clear()
        if isinstance(stmt, (ast.Expr, ast.Assign)):
            # also as an argument of another call: f(*V.popleft())  (evaluated unconditionally with the statement)
            for call in ast.walk(stmt.value):
                if isinstance(call, ast.Call) and isinstance(call.func, ast.Attribute) and \
                        call.func.attr in ('pop', 'popitem', 'clear', 'popleft'):
                    recv = call.func.value
                    for sub in ast.walk(test):
                        if same_expr(sub, recv):
                            return True
        if isinstance(stmt, ast.Delete):
            for t in stmt.targets:
                if isinstance(t, ast.Subscript):
                    for sub in ast.walk(test):
                        if same_expr(sub, t.value):
                            return True
        if isinstance(stmt, ast.AugAssign) and isinstance(stmt.target, ast.Name) and stmt.target.id in test_names:
            if isinstance(stmt.op, (ast.Sub, ast.Add)) and isinstance(stmt.value, ast.Constant) and \
                    isinstance(stmt.value.value, int) and stmt.value.value > 0:
                return True     # counter moves monotonically (bounded test assumed: compared in the loop test)
        return False

    def _progress(self, stmts: List[ast.stmt], test_names: Set[str], test: ast.expr) -> bool:
        """Every path through stmts leaves the loop or shrinks."""
        for s in stmts:
            if isinstance(s, (ast.Break, ast.Return, ast.Raise)):
                return True
            if self._shrinks(s, test_names, test):
                return True
            if isinstance(s, ast.If) and s.orelse and self._progress(s.body, test_names, test) and \
                    self._progress(s.orelse, test_names, test):
                return True
            if isinstance(s, ast.Continue):
                return False
        return False

    def _judge_while(self, fn: FuncInfo, n: ast.While) -> Tuple[bool, str]:
        tn = names_in(n.test)
        if isinstance(n.test, ast.Constant) and n.test.value:
            if self._progress(n.body, set(), n.test):
                return True, 'while-True loop leaves on every path of its body'
            why = chain_walk_forever(self.prog, self.cg, fn, n)
            if why:
                return True, why[2]
            return False, 'while-True loop without an exit on every path'
        if self._progress(n.body, tn, n.test):
            return True, 'every path through the body shrinks a variable of the loop test or leaves the loop'
        why = self._iterator_stack(fn, n) or self._chain_walk(fn, n)
        if why:
            return True, why
        return False, (f'`while {ast.unparse(n.test)[:50]}`: some path through the body neither shrinks a variable of '
                       f'the test nor leaves the loop (possible hang)')

    def _chain_walk(self, fn: FuncInfo, n: ast.While) -> Optional[str]:
        r = chain_walk_while(self.prog, self.cg, fn, n)
        return r[1] if r else None

    def _iterator_stack(self, fn: FuncInfo, n: ast.While) -> Optional[str]:
        """Depth-first walk with an explicit stack of partly consumed iterators:
               while S:                                   S a local list
                   it[, ...] = S[-1]                      peek
                   for x in it:                           resumes where this level was left
                       ...
                       S.append(<E derived from x>); break        descend: only directly followed by `break`
                   else:
                       S.pop()                            level exhausted
           Every turn of the while loop consumes at least one element of some iterator or pops the stack; an iterator is
           only pushed for something computed from the element just consumed (a part of it: the decoded document is a
           finite tree), so the elements ever produced are finitely many.  Any other change of S, a push that does not
           depend on x, a push not followed by break, or a missing pop in the else clause: no verdict from this variant."""
        if not (isinstance(n.test, ast.Name) and not n.orelse):
            return None
        S = n.test.id
        body = [st for st in n.body if not (isinstance(st, ast.Expr) and isinstance(st.value, ast.Constant))]
        if len(body) != 2 or not isinstance(body[0], ast.Assign) or not isinstance(body[1], ast.For):
            return None
        peek, loop = body
        if not (isinstance(peek.value, ast.Subscript) and isinstance(peek.value.value, ast.Name) and peek.value.value.id == S and
                ast.unparse(peek.value.slice) == '-1' and len(peek.targets) == 1):
            return None
        tgt = peek.targets[0]
        names_ = [tgt.id] if isinstance(tgt, ast.Name) else [e_.id for e_ in tgt.elts if isinstance(e_, ast.Name)] \
            if isinstance(tgt, (ast.Tuple, ast.List)) else []
        it_name = loop.iter.id if isinstance(loop.iter, ast.Name) and loop.iter.id in names_ else None     # (any component of the level)
        if it_name is None or not isinstance(loop.target, ast.Name):
            return None
        x = loop.target.id
        # else clause: pops, and nothing else touches S
        pops = [st for st in loop.orelse if isinstance(st, (ast.Expr, ast.Assign)) and isinstance(st.value, ast.Call) and
                isinstance(st.value.func, ast.Attribute) and st.value.func.attr == 'pop' and not st.value.args and
                isinstance(st.value.func.value, ast.Name) and st.value.func.value.id == S]
        if len(pops) != 1 or any(isinstance(y, ast.Name) and y.id == S for st in loop.orelse if st is not pops[0] for y in ast.walk(st)):
            return None
        # the for body: S only in `S.append(E)` statements directly followed by `break`; E depends on x
        derived = {x}
        changed = True
        while changed:
            changed = False
            for a in ast.walk(loop):
                if isinstance(a, ast.Assign) and any(isinstance(y, ast.Name) and y.id in derived for y in ast.walk(a.value)):
                    for t in a.targets:
                        for y in ast.walk(t):
                            if isinstance(y, ast.Name) and y.id not in derived:
                                derived.add(y.id)
                                changed = True
        n_push = 0

        def scan(block: List[ast.stmt]) -> bool:
            nonlocal n_push
            for i, st in enumerate(block):
                uses = [y for y in ast.walk(st) if isinstance(y, ast.Name) and y.id == S]
                if isinstance(st, ast.Expr) and isinstance(st.value, ast.Call) and isinstance(st.value.func, ast.Attribute) and \
                        st.value.func.attr == 'append' and isinstance(st.value.func.value, ast.Name) and st.value.func.value.id == S \
                        and len(st.value.args) == 1 and len(uses) == 1:
                    if not (i + 1 < len(block) and isinstance(block[i + 1], ast.Break)):
                        return False
                    if not any(isinstance(y, ast.Name) and y.id in derived for y in ast.walk(st.value.args[0])):
                        return False
                    n_push += 1
                    continue
                if isinstance(st, (ast.If, ast.With, ast.Try)):
                    if any(isinstance(y, ast.Name) and y.id == S for y in ast.walk(getattr(st, 'test', ast.Pass()))):
                        return False
                    for fld in ('body', 'orelse', 'finalbody'):
                        if not scan(getattr(st, fld, []) or []):
                            return False
                    for h in getattr(st, 'handlers', []):
                        if not scan(h.body):
                            return False
                    continue
                if isinstance(st, (ast.For, ast.While)) and uses:
                    return False
                if uses:
                    return False
            return True
        if not scan(loop.body) or n_push == 0:
            return None
        if any(isinstance(y, ast.Name) and y.id == it_name and isinstance(y.ctx, ast.Store) for st in loop.body for y in ast.walk(st)):
            return None
        return (f'explicit stack of partly consumed iterators: every turn consumes an element of `{it_name}` or pops `{S}`; an '
                f'iterator is pushed only for something computed from the element just taken (`{x}`), directly followed by break '
                f'(a finite document has finitely many elements)')

    def _judge_for(self, fn: FuncInfo, n: ast.For) -> Tuple[bool, str]:
        it = n.iter
        for s in ast.walk(n):
            if s is n:
                continue
            if isinstance(s, ast.Call) and isinstance(s.func, ast.Attribute) and \
                    s.func.attr in ('append', 'extend', 'insert', 'add', 'update', 'setdefault'):
                if same_expr(s.func.value, it):
                    return False, (f'the loop body grows the collection it iterates: '
                                   f'`{ast.unparse(s)[:60]}` (may never terminate)')
            if isinstance(s, ast.AugAssign) and same_expr(s.target, it):
                return False, f'the loop body grows the collection it iterates: `{ast.unparse(s)[:60]}`'
        return True, 'the body does not grow the iterated collection'



def chain_walk_forever(prog: Program, cg: CallGraph, fn: FuncInfo, n: ast.While):
    """`while True:` ... `if <x has no further link>: return / break` ... `x = x.<link>`: a walk along links of instances of a
    dataclass of the package that are fixed when each object is constructed (nothing in the package re-binds the field): an
    object can only link to objects that existed before it, so the chain is finite, has no cycle and ends in an object whose
    link is None - where the exit is taken.  -> (x, link field, reason) or None."""
    if not (isinstance(n.test, ast.Constant) and n.test.value):
        return None
    steps = [s for s in n.body if isinstance(s, ast.Assign) and len(s.targets) == 1 and isinstance(s.targets[0], ast.Name) and
             isinstance(s.value, ast.Attribute) and isinstance(s.value.value, ast.Name) and s.value.value.id == s.targets[0].id]
    if len(steps) != 1 or n.body[-1] is not steps[0]:
        return None
    x, link = steps[0].targets[0].id, steps[0].value.attr
    if any(isinstance(y, ast.Name) and y.id == x and isinstance(y.ctx, ast.Store) and y is not steps[0].targets[0] for y in ast.walk(n)):
        return None
    if any(isinstance(y, ast.Continue) for y in ast.walk(n)):
        return None
    from .model import strip_opt
    env = cg.env(fn)
    ty = strip_opt(env.type_of(ast.Name(id=x, ctx=ast.Load())))
    cls = prog.classes.get(ty[1]) if ty[0] == 'cls' else None
    if cls is None and fn.cls is not None:
        sites = env._assign_sites.get(x, [])
        if sites and all(s_[0] == 'expr' and ((isinstance(s_[1], ast.Name) and s_[1].id == 'self') or
                                             (isinstance(s_[1], ast.Attribute) and isinstance(s_[1].value, ast.Name) and s_[1].value.id == x))
                         for s_ in sites):
            cls = fn.cls
    if cls is None or not cls.is_dataclass or link not in prog.class_fields(cls):
        return None
    if not cls.frozen:
        for f_ in prog.all_functions():
            if f_.name in ('__init__', '__post_init__') and f_.cls is cls:
                continue
            for y in iter_own_nodes(f_.node):
                if isinstance(y, ast.Attribute) and isinstance(y.ctx, ast.Store) and y.attr == link:
                    return None

    def no_link(c: ast.expr, depth: int = 0) -> bool:
        """c holds exactly when x.<link> is None / falsy"""
        if isinstance(c, ast.UnaryOp) and isinstance(c.op, ast.Not):
            o = c.operand
            return isinstance(o, ast.Attribute) and o.attr == link and isinstance(o.value, ast.Name) and o.value.id in (x, 'self')
        if isinstance(c, ast.Compare) and len(c.ops) == 1 and isinstance(c.ops[0], (ast.Is, ast.Eq)) and \
                isinstance(c.comparators[0], ast.Constant) and c.comparators[0].value is None:
            o = c.left
            return isinstance(o, ast.Attribute) and o.attr == link and isinstance(o.value, ast.Name) and o.value.id in (x, 'self')
        if depth == 0 and isinstance(c, ast.Attribute) and isinstance(c.value, ast.Name) and c.value.id == x:
            m = prog.lookup_method(cls, c.attr)
            if m is not None and m.is_property:
                body = [st for st in m.node.body if not (isinstance(st, ast.Expr) and isinstance(st.value, ast.Constant))]
                return len(body) == 1 and isinstance(body[0], ast.Return) and body[0].value is not None and no_link(body[0].value, 1)
        return False
    exits = [s for s in n.body[:-1] if isinstance(s, ast.If) and not s.orelse and s.body and
             isinstance(s.body[-1], (ast.Return, ast.Break)) and no_link(s.test)]
    if not exits:
        return None
    return (x, link, f'walk along the `{cls.name}.{link}` links, which are fixed at construction: the chain is finite and without a cycle, every turn '
                     f'moves `{x}` one link on and the loop is left at the object that has no `{link}`')


def chain_walk_while(prog: Program, cg: CallGraph, fn: FuncInfo, n: ast.While):
    """`while x is not None:` (or `while x:`) ... `x = x.<link>` on every path through the body, x an instance of a frozen
    dataclass of the package: a walk along a chain of links that were fixed when each object was constructed - an object
    can only link to objects that existed before it, so the chain is finite and ends in None."""
    t = n.test
    if isinstance(t, ast.Compare) and len(t.ops) == 1 and isinstance(t.ops[0], (ast.IsNot, ast.NotEq)) and \
            isinstance(t.left, ast.Name) and isinstance(t.comparators[0], ast.Constant) and t.comparators[0].value is None:
        x = t.left.id
    elif isinstance(t, ast.Name):
        x = t.id
    else:
        return None
    from .model import strip_opt
    ty = strip_opt(cg.env(fn).type_of(ast.Name(id=x, ctx=ast.Load())))
    if ty[0] == 'union':
        members = {strip_opt(m) for m in ty[1] if strip_opt(m)[0] not in ('none', 'any')}
        ty = next(iter(members)) if len(members) == 1 else ty
    cls = prog.classes.get(ty[1]) if ty[0] == 'cls' else None
    if cls is None and fn.cls is not None:
        # `x = self` before the loop and `x = x.<link>` in it: x is an instance of the enclosing class
        sites = cg.env(fn)._assign_sites.get(x, [])
        if sites and all(s_[0] == 'expr' and ((isinstance(s_[1], ast.Name) and s_[1].id == 'self') or
                                             (isinstance(s_[1], ast.Attribute) and isinstance(s_[1].value, ast.Name)
                                              and s_[1].value.id == x)) for s_ in sites):
            cls = fn.cls
    if cls is None or not cls.is_dataclass:
        return None
    link_fields = {s_.value.attr for s_ in ast.walk(n) if isinstance(s_, ast.Assign) and isinstance(s_.value, ast.Attribute)}
    if not cls.frozen:
        # the links must not be re-bound after construction anywhere in the package
        for f_ in prog.all_functions():
            if f_.name in ('__init__', '__post_init__') and f_.cls is cls:
                continue
            for y in iter_own_nodes(f_.node):
                if isinstance(y, ast.Attribute) and isinstance(y.ctx, ast.Store) and y.attr in link_fields:
                    return None

    def steps(stmts) -> bool:
        """every path through stmts re-binds x to a link of itself (or leaves the loop)"""
        for s in stmts:
            if isinstance(s, (ast.Break, ast.Return, ast.Raise)):
                return True
            if isinstance(s, ast.Assign) and len(s.targets) == 1 and isinstance(s.targets[0], ast.Name) and s.targets[0].id == x:
                v = s.value
                return isinstance(v, ast.Attribute) and isinstance(v.value, ast.Name) and v.value.id == x and \
                    v.attr in prog.class_fields(cls)
            if isinstance(s, ast.If) and s.orelse and steps(s.body) and steps(s.orelse):
                return True
            if isinstance(s, ast.Continue):
                return False
        return False
    if not steps(n.body):
        return None
    others = [y for y in ast.walk(n) if isinstance(y, ast.Name) and y.id == x and isinstance(y.ctx, ast.Store)]
    if len(others) != sum(1 for s in ast.walk(n) if isinstance(s, ast.Assign) and len(s.targets) == 1 and
                          isinstance(s.targets[0], ast.Name) and s.targets[0].id == x):
        return None
    return (x, f'walk along the `{cls.name}` links, which are fixed at construction: every turn moves `{x}` one link on, '
               f'the chain is finite and ends in None')

