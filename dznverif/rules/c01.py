"""C01 - the shell forwards every port event to its counterpart exactly once, intact.

Decides, on the generator's parametric templates (for all models at once): C01.cover (wiring table: every
port kind x event direction has exactly the prescribed links, nothing for STS ports), C01.same (every event
position is the same event-name hole, in/out agree with the driving loop, both sides belong to the same port,
boundary and encapsulee side are different objects), C01.once (one forwarded call per closure link, no loops),
C01.args (lambda parameters and forwarded arguments range over the same unfiltered ordered formals; `&` exactly
for non-IN formals; replies returned), C01.place (constructor declared in the header, defined in the source).
"""
from __future__ import annotations

import ast
from typing import Any, Dict, List, Optional, Tuple

from ..model import iter_own_nodes
from ..template import TStr, Hole, AltS, RepS, Lit, Sym, Cond, TEnum, Src
from ..links import (PORT_KINDS, Link, MemberPath, find_member_calls, toks_text, tok_text, lex, parse_closure,
                     match_close, split_statements)
from .wiring import build_wiring, Wiring

# wiring specification: (kind, direction, role) -> multiset of (lhs side, style, counterpart side)
SPEC: Dict[Tuple[str, str], List[Tuple[str, str, str]]] = {
    ('P-MTS-plain', 'IN'): [('boundary', 'closure', 'encapsulee')],
    ('P-MTS-plain', 'OUT'): [('encapsulee', 'ref', 'boundary')],
    ('R-MTS', 'IN'): [('encapsulee', 'ref', 'boundary')],
    ('R-MTS', 'OUT'): [('boundary', 'closure', 'encapsulee')],
    ('P-MTS-multiclient', 'IN'): [('arbitered', 'closure', 'encapsulee')],
    ('P-MTS-multiclient', 'OUT'): [('arbitered', 'closure', 'current-client'), ('encapsulee', 'ref', 'arbitered')],
    ('P-STS', 'IN'): [], ('P-STS', 'OUT'): [], ('R-STS', 'IN'): [], ('R-STS', 'OUT'): [],
}
CLIENT_SPEC = {'claim': [('client', 'closure', 'arbitered-ro')], 'release-void': [('client', 'closure', 'arbitered-ro')],
               'release-valued': [('client', 'closure', 'arbitered-ro')], 'other': [('client', 'ref', 'arbitered')]}


def link_signature(ln: Link) -> Tuple[str, str, str]:
    if ln.style == 'ref':
        return (ln.lhs.side, 'ref', ln.rhs.side if ln.rhs else '?')
    if ln.style == 'closure':
        calls = find_member_calls(ln.closure.body)
        return (ln.lhs.side, 'closure', calls[0][0].side if len(calls) >= 1 else '?')
    return (ln.lhs.side, ln.style, '?')


def all_links(w: Wiring):
    """[(entry, kind, direction, role, link)] for every scenario (port kind x direction x role x facilities origin);
    links that are the same text for both origins are listed once."""
    out, problems = [], []
    seen = {}

    def add(entry, kind, d, role, ls, origin):
        for l in ls:
            key = (entry, kind, d, role, toks_text(l.tokens))
            if key not in seen:
                seen[key] = l
                l.origins = {origin}
                out.append((entry, kind, d, role, l))
            else:
                seen[key].origins.add(origin)

    for origin in ('CREATE', 'IMPORT'):
        for kind in PORT_KINDS:
            for d in ('IN', 'OUT'):
                ls, pr = w.links('create_constructor', kind, d, origin=origin)
                add('create_constructor', kind, d, 'other', ls, origin)
                problems += pr
        for role in ('claim', 'release-void', 'release-valued', 'other'):
            for kind in PORT_KINDS:
                rv = {'release-void': True, 'release-valued': False}.get(role)
                ls, pr = w.links('create_cpp_port_helpers', kind, 'IN', role.split('-')[0], origin=origin, reply_void=rv)
                add('create_cpp_port_helpers', kind, 'IN', role, ls, origin)
                problems += pr
        # client ports get no out-event links (the component's out events are routed by the selector)
        for kind in PORT_KINDS:
            ls, pr = w.links('create_cpp_port_helpers', kind, 'OUT', 'other', origin=origin)
            add('create_cpp_port_helpers', kind, 'OUT', 'other', ls, origin)
            problems += pr
    return out, sorted(set(problems))


def check(ctx):
    run, prog = ctx.run, ctx.prog
    run.explanation = (
        'Decided on the generator\'s parametric templates (E4 abstract evaluation of create_constructor and '
        'create_cpp_port_helpers, scenario evaluation over the five port kinds x event direction x event role): '
        'C01.cover - the emitted link statements equal the wiring table (each cell exactly once, nothing for STS '
        'ports); C01.same - in every link all event positions are the same event-name hole (no literal), the in/out '
        'literals agree with each other and with the loop direction, all port references are the loop\'s port, boundary '
        'and counterpart are different objects; C01.once - one forwarded call per closure link, no loop; C01.args - '
        'lambda parameters and forwarded arguments range over the same unfiltered ordered formals, `&` exactly for '
        'non-IN formals of in-events, the forwarded call is returned at every closure level of an in-event link; '
        'C01.place - the constructor carrying the links is declared in the header and defined in the source. Not '
        'decided: behaviour of the compiled program (needs a C++ compiler, the Dezyne runtime and execution), that '
        'Dezyne-generated port types have the assumed members, argument values.')
    run.assume('TextBlock / Indentizer / chunk / cond_chunk add or remove only whitespace and line structure (C17, C18)')
    run.assume('DznElements.provides_ports / requires_ports hold the provides / requires ports (C03.sides, C13 justification)')
    run.assume('parser invariant: out events have no out formals and a void reply (C15.outevent)')
    run.trusted = ['python ast module', 'dznverif E4 template evaluator, C++ token view and statement patterns']

    w = build_wiring(ctx)
    run.stats['event_loops'] = {k: len(v) for k, v in w.loops.items()}
    run.stats['functions_inlined'] = w.ev.n_inlined
    if w.ev.opaque_log:
        run.stats['opaque_values'] = sorted(set(w.ev.opaque_log))[:10]
    links, problems = all_links(w)
    for p in sorted(set(problems)):
        run.error('C01.cover', 'dznpy.adv_shell.core.processing', 'create_constructor', p, p)
    run.stats['link_templates'] = len(links)
    if len(links) < 8:
        run.error('C01.cover', 'dznpy.adv_shell.core.processing', '-', 'link templates',
                  f'only {len(links)} link templates extracted (10 confirmed)')
    mod = 'dznpy.adv_shell.core.processing'

    # ---- C01.cover ------------------------------------------------------------------------------------------------------
    by_cell: Dict[Tuple[str, str, str, str], List[Link]] = {}
    for entry, kind, d, role, ln in links:
        by_cell.setdefault((entry, kind, d, role), []).append(ln)
    def per_origin(cell):
        """{signature list: origins} - the links of a cell for each facilities origin."""
        res = {}
        cases = [None]
        if any(getattr(l, 'variant', None) for l in by_cell.get(cell, [])):
            cases = ['events with parameters', 'events without parameters']
        for origin in ('CREATE', 'IMPORT'):
            for case in cases:
                got = tuple(sorted(link_signature(l) for l in by_cell.get(cell, [])
                                   if origin in getattr(l, 'origins', {origin}) and getattr(l, 'variant', None) in (None, case)))
                res.setdefault(got, [])
                if origin not in res[got]:
                    res[got].append(origin)
        return res

    for (kind, d), want in SPEC.items():
        for got, origins in per_origin(('create_constructor', kind, d, 'other')).items():
            got = list(got)
            ok = got == sorted(want)
            tag = '' if len(origins) == 2 else f' (facilities origin {origins[0]})'
            run.add('C01.cover', mod, 'create_constructor', f'{kind} {d}-events{tag}: {got}', ok,
                    f'{kind} {d.lower()}-events: links {got or "none"} as specified' if ok else
                    f'{kind} {d.lower()}-events{tag}: emitted links {got or "none"} but the wiring table prescribes '
                    f'{sorted(want) or "none"} - an event is left unrouted, routed twice or routed to the wrong object')
    for role, want in CLIENT_SPEC.items():
        for got, origins in per_origin(('create_cpp_port_helpers', 'P-MTS-multiclient', 'IN', role)).items():
            got = list(got)
            ok = got == sorted(want)
            tag = '' if len(origins) == 2 else f' (facilities origin {origins[0]})'
            run.add('C01.cover', mod, 'initialize_port_impl', f'client port {role} in-event{tag}: {got}', ok,
                    f'client port, {role} in-event: {got} as specified' if ok else
                    f'client port, {role} in-event{tag}: emitted {got or "none"}, specified {sorted(want)}')
    for kind in PORT_KINDS:
        if kind == 'P-MTS-multiclient':
            continue
        extra = [l for (e, k, d, r), ls in by_cell.items() if e == 'create_cpp_port_helpers' and k == kind for l in ls]
        run.add('C01.cover', mod, 'create_cpp_port_helpers', f'{kind}: client-port links {len(extra)}', not extra,
                f'no client port is generated for {kind} ports' if not extra else
                f'{kind} ports get client-port links although they are not multi-client')
    extra = by_cell.get(('create_cpp_port_helpers', 'P-MTS-multiclient', 'OUT', 'other'), [])
    run.add('C01.cover', mod, 'initialize_port_impl', f'client port out-events: {len(extra)} links', not extra,
            'client ports have no out-event links of their own (out events come from the selector)' if not extra else
            'client ports get out-event links')

    # every event / port repetition ranges over the complete collection: no partial view (slice, last group of a
    # groupby ...) - otherwise some (port, event) pairs get no link at all
    seen_src = set()
    for entry, loops in w.loops.items():
        for lp in loops:
            for src in [lp.src] + [fr.src for fr in lp.frames if fr.kind == 'rep']:
                key = (entry, repr(src.base), src.order)
                if key in seen_src:
                    continue
                seen_src.add(key)
                partial = src.order.startswith('partial') or any('[' in p for p in getattr(src.base, 'path', ()))
                run.add('C01.cover', mod, lp.where or entry, f'{entry}: links range over {src!r}'[:200], not partial,
                        'the links are generated for every element of the collection' if not partial else
                        f'the links are generated for a partial view of the collection ({src.order or "slice"}): the remaining '
                        f'events / ports are left unrouted')

    # ---- per link rules ----------------------------------------------------------------------------------------------------
    seen = set()
    for entry, kind, d, role, ln in links:
        key = (entry, kind, d, role, toks_text(ln.tokens))
        if key in seen:
            continue
        seen.add(key)
        fn_name = 'initialize_port_impl' if entry == 'create_cpp_port_helpers' else 'create_constructor'
        label = f'[{kind} {d} {role}] {ln.lhs.text()} = ...'
        _same(ctx, w, fn_name, label, kind, d, role, ln)
        if ln.style == 'closure':
            _once(ctx, fn_name, label, ln)
            _args(ctx, fn_name, label, d, role, ln)
            _intact(ctx, fn_name, label, ln)
    run.floor('C01.cover', 15)
    run.floor('C01.same', 10)
    run.floor('C01.once', 5)
    run.floor('C01.args', 6)
    run.floor('C01.intact', 2)

    # ---- C01.place -------------------------------------------------------------------------------------------------------------
    b = prog.cls('adv_shell', 'Builder')
    from .shared import shell_frame_anchors, frame_entities
    fa = shell_frame_anchors(ctx)
    for meth, attr, what in (('_create_headerfile', 'as_decl', 'declared in the header'),
                             ('_create_sourcefile', 'as_def', 'defined in the source')):
        if fa is not None:
            # read off the evaluated file template (E4): the header renders the constructor's declaration, the source its body
            ok = 'constructor' in frame_entities(fa['header' if attr == 'as_decl' else 'source'], 'initialization' if attr == 'as_decl' else 'contents')
        else:
            m = b.methods.get(meth)
            ok = m is not None and any(isinstance(n, ast.Attribute) and n.attr == attr and
                                       ast.unparse(n.value).endswith('.constructor') for n in iter_own_nodes(m.node))
        run.add('C01.place', 'dznpy.adv_shell', f'Builder.{meth}', f'constructor.{attr}', ok,
                f'the constructor carrying the links is {what}' if ok else f'the constructor is not {what}')
    build = prog.func('adv_shell', 'Builder.build')
    # the constructor of the C++ elements the files are rendered from is the result of create_constructor - wherever on the way
    # from build() the elements are put together
    ok = False
    cpp_cls = prog.cls('adv_shell.common', 'CppElements')
    reach = {f.fq for f in ctx.cg.reachable([build])} | {build.fq}
    for f_ in prog.all_functions():
        if f_.fq not in reach:
            continue
        for n in iter_own_nodes(f_.node):
            if isinstance(n, ast.Call) and isinstance(n.func, (ast.Name, ast.Attribute)) and prog.resolve_expr_symbol(f_.module, n.func) is cpp_cls:
                arg = prog.bind_call(f_.module, n).get('constructor')
                if isinstance(arg, ast.Name):
                    arg = ctx.cg.env(f_).single_def(arg.id)
                ok = ok or (isinstance(arg, ast.Call) and getattr(arg.func, 'id', getattr(arg.func, 'attr', '')) == 'create_constructor')
    run.add('C01.place', 'dznpy.adv_shell', 'Builder.build', 'create_constructor call', ok,
            'build() creates the constructor from create_constructor' if ok else 'build() does not call create_constructor')


def _intact(ctx, fn_name: str, label: str, ln: Link):
    """C01.intact: a link that hands the forwarded call to the dispatcher as an inner closure runs it after the outer lambda
    has returned: the arguments arrive intact only when that inner closure owns copies of the IN formals."""
    from .c02 import _capture
    from ..links import match_close
    body = ln.closure.body
    for i, t in enumerate(body):
        if t != ('p', '[') or i == 0:
            continue
        c = match_close(body, i)
        if c < 0:
            continue
        k = c + 1
        if k < len(body) and body[k][0] == 'alt':
            k += 1
        elif k < len(body) and body[k] == ('p', '('):
            k = match_close(body, k) + 1
        if k < len(body) and body[k] == ('p', '{'):
            e = match_close(body, k)
            inner = parse_closure(body[i:e + 1]) if e > 0 else None
            if inner is not None and len(find_member_calls(inner.body)) == 1 and body[i - 1] in (('p', '('), ('p', ',')):
                _capture(ctx, fn_name, label, inner, rule='C01.intact')
                return


def _event_tokens(ln: Link) -> List[Tuple[str, MemberPath]]:
    out = [('lhs', ln.lhs)]
    if ln.rhs is not None:
        out.append(('rhs', ln.rhs))
    if ln.closure is not None:
        for mp, _args, _i in find_member_calls(ln.closure.body):
            out.append(('call', mp))
    return out


def _same(ctx, w: Wiring, fn_name: str, label: str, kind: str, d: str, role: str, ln: Link):
    run = ctx.run
    mod = 'dznpy.adv_shell.core.processing'
    paths = _event_tokens(ln)
    # (i) event positions: one and the same event-name hole
    problems = []
    keys = set()
    for where, mp in paths:
        t = mp.event
        if t[0] != 'hole':
            problems.append(f'{where} `{mp.text()}`: the event name is the literal `{tok_text(t)}` instead of the event\'s name')
            continue
        s = t[1].sym
        if s.path[-1:] != ('name',) or t[1].transform:
            problems.append(f'{where} `{mp.text()}`: event position holds `{tok_text(t)}`, not an event name')
        keys.add((s.root, s.path))
    if len(keys) > 1:
        problems.append(f'the link names different events: {sorted(".".join((k[0].split("#")[0],) + k[1]) for k in keys)}')
    # role: claim / release links use the fixture's events
    role = role.split('-')[0]
    for k in keys:
        if role in ('claim', 'release') and f'{role}_event' not in k[1]:
            problems.append(f'{role} link is keyed by `{".".join(k[1])}`, not the configured {role} event')
    # (ii) in / out agree
    dirs = {mp.direction for _w, mp in paths}
    if len(dirs) > 1:
        problems.append(f'the link mixes `.in.` and `.out.`: {sorted(mp.text() for _w, mp in paths)}')
    elif dirs and next(iter(dirs)) != d.lower():
        problems.append(f'link for {d.lower()}-events is written on `.{next(iter(dirs))}.`')
    # (iii) same port on every side
    ports = {(mp.port.root, mp.port.path) for _w, mp in paths if mp.port is not None}
    if len(ports) > 1:
        problems.append(f'the link connects different ports: {sorted(".".join((r.split("#")[0],) + p) for r, p in ports)}')
    # (iv) different objects
    sides = [mp.side for _w, mp in paths]
    if '?' in sides:
        problems.append(f'an object of the link is not recognised: {[mp.text() for _w, mp in paths if mp.side == "?"]}')
    if len(paths) >= 2 and paths[0][1].side == paths[1][1].side:
        problems.append(f'both sides of the link are the {paths[0][1].side} object (self-assignment)')
    run.add('C01.same', mod, fn_name, label, not problems,
            'same event hole, same direction, same port on both sides' if not problems else '; '.join(problems))


def _once(ctx, fn_name: str, label: str, ln: Link):
    run = ctx.run
    mod = 'dznpy.adv_shell.core.processing'
    calls = find_member_calls(ln.closure.body)
    loops = [t for t in ln.closure.body if t[0] == 'id' and t[1] in ('for', 'while', 'do')]
    ok = len(calls) == 1 and not loops
    run.add('C01.once', mod, fn_name, label, ok,
            'exactly one forwarded call' if ok else
            f'{len(calls)} forwarded calls' + (' and a loop' if loops else '') + ' in the link: the event is '
            + ('dropped' if not calls else 'delivered more than once'))


def _formals_rep(toks: List[tuple]) -> List[RepS]:
    out = []
    for t in toks:
        if t[0] == 'rep':
            out.append(t[1])
        elif t[0] == 'alt':
            for branch in (t[1].a, t[1].b):
                out.extend(_formals_rep(lex(branch)))
    return out


def _is_formals_src(src: Src) -> bool:
    return isinstance(src.base, Sym) and src.base.path[-3:] == ('signature', 'formals', 'elements')


def _args(ctx, fn_name: str, label: str, d: str, role: str, ln: Link):
    run = ctx.run
    mod = 'dznpy.adv_shell.core.processing'
    cl = ln.closure
    calls = find_member_calls(cl.body)
    if len(calls) != 1:
        return
    mp, args, idx = calls[0]
    problems = []
    preps = [r for r in _formals_rep(cl.params) if _is_formals_src(r.src)]
    areps = [r for r in _formals_rep(args) if _is_formals_src(r.src)]
    if len(preps) != 1:
        problems.append(f'lambda parameter list is not one repetition over the event\'s formals ({len(preps)} found)')
    if len(areps) != 1:
        problems.append(f'forwarded argument list is not one repetition over the event\'s formals ({len(areps)} found)')
    if len(preps) == 1 and len(areps) == 1:
        p, a = preps[0], areps[0]
        if (p.src.base.root, p.src.base.path) != (a.src.base.root, a.src.base.path):
            problems.append('parameters and arguments range over the formals of different events')
        for which, r in (('parameter', p), ('argument', a)):
            if r.src.filters:
                problems.append(f'{which} list is filtered ({r.src.filters!r}): some formals are dropped')
            if r.sep.const() is None or r.sep.const().strip() != ',':
                problems.append(f'{which} list is joined with {r.sep!r}')
            if r.src.order:
                problems.append(f'{which} list is taken in {r.src.order} order: parameters and arguments no longer correspond by position')
        # argument element: exactly the formal's name
        ae = a.elem.parts
        if not (len(ae) == 1 and isinstance(ae[0], Hole) and ae[0].sym.root == a.src.var.root and ae[0].sym.path == ('name',)):
            problems.append(f'forwarded argument is `{a.elem!r}`, not the formal\'s name')
        # parameter element: <type>[&] <name>
        names = [x for x in p.elem.parts if isinstance(x, Hole) and x.sym.root == p.src.var.root and x.sym.path == ('name',)]
        if len(names) != 1:
            problems.append(f'lambda parameter `{p.elem!r}` does not declare the formal\'s name')
        amp = [x for x in p.elem.parts if isinstance(x, AltS)]
        lit_amp = any(isinstance(x, Lit) and '&' in x.text for x in p.elem.parts)
        if d == 'IN':
            ok_amp = False
            if len(amp) == 1 and not lit_amp:
                c = amp[0].cond
                a_txt, b_txt = amp[0].a.const(), amp[0].b.const()
                verdicts = {}
                for member in ('IN', 'OUT', 'INOUT'):
                    verdicts[member] = _eval_formal_dir(c, member)
                if a_txt == '&' and b_txt == '':
                    ok_amp = verdicts == {'IN': False, 'OUT': True, 'INOUT': True}
                elif a_txt == '' and b_txt == '&':
                    ok_amp = verdicts == {'IN': True, 'OUT': False, 'INOUT': False}
            if not ok_amp:
                problems.append('`&` is not applied exactly to the formals whose direction is not IN: out/inout '
                                'arguments are not carried back (or in arguments are taken by reference)')
        else:
            if amp or lit_amp:
                problems.append('out-event parameters are taken by reference although the call is deferred')
    # reply carried back: the forwarded call is returned at every closure level (in-events)
    if d == 'IN' and role != 'release-void':
        r = _returns_call(cl.body, idx)
        if not r:
            problems.append('the forwarded call is not returned: a reply value is dropped'
                            + (' (release event with a reply type: the std::function assignment is ill-formed)'
                               if role == 'release-valued' else ''))
    run.add('C01.args', mod, fn_name, label, not problems,
            'parameters and arguments: same ordered formals, by-reference exactly for non-IN, reply returned'
            if not problems else '; '.join(problems))


def _eval_formal_dir(c: Cond, member: str) -> Optional[bool]:
    if c.op == 'not':
        r = _eval_formal_dir(c.args[0], member)
        return None if r is None else not r
    if c.op in ('eq', 'ne'):
        a, b = c.args
        if isinstance(b, Sym):
            a, b = b, a
        if isinstance(a, Sym) and a.path[-1:] == ('direction',) and isinstance(b, TEnum) and b.cls.name == 'FormalDirection':
            r = (b.member == member)
            return r if c.op == 'eq' else not r
    if c.op == 'or':
        rs = [_eval_formal_dir(x, member) for x in c.args]
        return True if any(r is True for r in rs) else (False if all(r is False for r in rs) else None)
    if c.op == 'and':
        rs = [_eval_formal_dir(x, member) for x in c.args]
        return False if any(r is False for r in rs) else (True if all(r is True for r in rs) else None)
    if c.op == 'in':
        return None
    return None


def _returns_call(body: List[tuple], call_idx: int) -> bool:
    """The member call at token index call_idx is the operand of `return` in its closure, that closure is itself
    (an argument of) the operand of `return` at the enclosing level, ... up to the outermost body; or its value is
    bound to a variable that is returned unchanged."""
    # find innermost enclosing braces of call_idx
    def enclosing_block(i: int) -> Tuple[int, int]:
        depth = 0
        j = i - 1
        while j >= 0:
            if body[j] == ('p', '}'):
                depth += 1
            elif body[j] == ('p', '{'):
                if depth == 0:
                    return j, match_close(body, j)
                depth -= 1
            j -= 1
        return -1, len(body)

    i = call_idx
    # start of the object expression of the call: walk back to the statement start
    while True:
        lo, hi = enclosing_block(i)
        seg_start = lo + 1
        # statement containing position i inside [seg_start, hi)
        k = i
        depth = 0
        while k > seg_start:
            t = body[k - 1]
            if t[0] == 'p' and t[1] in ')]}':
                depth += 1
            elif t[0] == 'p' and t[1] in '([{':
                if depth == 0:
                    break
                depth -= 1
            elif t == ('p', ';') and depth == 0:
                break
            k -= 1
        stmt_first = body[k] if k < len(body) else None
        if stmt_first == ('id', 'return'):
            pass
        elif stmt_first in (('id', 'const'), ('id', 'auto')):
            # const auto r = <call>;  ...  return r;
            j = k
            while j < len(body) and body[j] != ('p', '='):
                j += 1
            var = body[j - 1] if j > 0 else None
            rets = [x for x in range(seg_start, hi if hi > 0 else len(body)) if body[x] == ('id', 'return')]
            ok = any(body[x + 1] == var and body[x + 2] == ('p', ';') for x in rets if x + 2 < len(body)) or \
                any(body[x + 1] == var for x in rets if x + 1 < len(body) and x + 2 >= (hi if hi > 0 else len(body)))
            if not ok:
                return False
        elif k > seg_start and body[k - 1][0] == 'p' and body[k - 1][1] in '([':
            # inside an argument list: continue outward from the opening bracket
            i = k - 1
            continue
        else:
            return False
        if lo < 0:
            return True
        i = lo
