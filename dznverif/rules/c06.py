"""C06 - generated files form valid, self-contained C++ for every model and configuration.

Decides: C06.closure (every quoted include names a returned file or the model's own header), C06.pair (every
declared member is defined), C06.guard (every generated header carries an include guard), C06.linkage (the shell is
never wrapped in an unnamed namespace), C06.ns (namespace, C++ spelling and file prefix derive from one value),
C06.constants (the six support headers, reconstructed by constant folding, type-check with clang: alone, twice in
one TU, all together, under two prefixes; thorough: explicit instantiation against a mock port, ODR lint).
That the *shell* header/source compile for every model is not decided (the text depends on run-time model values).
"""
from __future__ import annotations

import ast
import re
from typing import Any, Dict, List, Optional, Set, Tuple

from ..model import FuncInfo, ClassInfo, iter_own_nodes
from ..report import AnalysisError
from ..template import Evaluator, TObj, TStr, Sym, lit, Lit, Hole, FqnS, TRUE, FALSE
from ..cxxlex import lex, toks_text, tok_text
from ..embedded_cxx import extract_headers, Scratch, clang_check, first_error, render
from .shared import SUPPORT_MODULES, alpha_text, expand_aliases


def check(ctx):
    run, prog = ctx.run, ctx.prog
    run.explanation = (
        'Decided: C06.closure - the project includes of the shell header/source are the model\'s own header, the shell '
        'header and file names of returned support files; inside the support headers every quoted include names one '
        'of the six returned files (for two different prefixes); C06.pair - the set of function objects rendered as '
        'declarations in the header equals the set rendered as definitions in the source, aggregated pairs iterate the '
        'same lists; C06.guard - the frames of the shell header and of every support header emit an include guard '
        'before the first declaration; C06.linkage - for an encapsulee in the global namespace the shell is not wrapped '
        'in an unnamed namespace (frames evaluated with an empty and a non-empty scope); C06.ns - distillate_ns derives '
        'namespace, spelling and file prefix from the same value and every create_header passes its prefix unchanged; '
        'C06.rooted - every C++ name the shell generator spells from a namespace that is model or configuration data (the '
        'support-files namespace, interface / component names) is root-qualified (::A::B), so that it cannot be re-resolved '
        'relative to the namespace the shell itself lives in; '
        'C06.constants - the six support headers reconstructed by constant folding are accepted by clang++ -std=c++17 '
        '-fsyntax-only on their own, twice in one TU, all together and (thorough) under two prefixes, with explicit '
        'instantiation of every template against a mock port. Not decided: that the shell header/source compile for '
        'every model and configuration (their text depends on run-time model values; compiling samples is execution '
        'of the generator), names derived from user strings.')
    run.assume('the mock of the Dezyne runtime API under /verif/cxx/mock has the shapes of dezyne\'s <dzn/meta.hh> port meta')
    run.assume('std::map / std::is_same_v used without <map> / <type_traits> are satisfied transitively by this toolchain: '
               'no include-what-you-use lint is applied (that would demand more than the property states)')
    run.trusted = ['python ast module', 'dznverif E4 constant folding of create_header', 'clang++ 14 front end',
                   '/verif/cxx/mock']

    _closure(ctx)
    _pair(ctx)
    _ns(ctx)
    _rooted(ctx)
    frames = _frames(ctx)
    _guard_and_linkage(ctx, frames)
    _constants(ctx, thorough=ctx.thorough)


# ---------------------------------------------------------------------------------------------------------------------
def _closure(ctx):
    run, prog = ctx.run, ctx.prog
    b = prog.cls('adv_shell', 'Builder')
    sf = prog.cls('adv_shell.common', 'SupportFiles')
    sf_fields = set(prog.class_fields(sf).keys())
    hdr, src = b.methods.get('_create_headerfile'), b.methods.get('_create_sourcefile')
    if hdr is None or src is None:
        run.error('C06.closure', b.module.name, 'Builder', '_create_*', 'Builder._create_headerfile/_create_sourcefile vanished')
        return

    # The quoted includes and the file names, read off the E4 templates of the two generated files (so it does not matter
    # how the include list is assembled, whether the recipe is a member or a parameter, or where the extensions are spelled)
    from .c20 import variants
    ev = Evaluator(prog, ctx.cg)
    cpp_cls = prog.cls('adv_shell.common', 'CppElements')
    fields: Dict[str, Any] = {}
    for k, (ann, _d, o) in prog.class_fields(cpp_cls).items():
        fields[k] = Sym('cpp', (k,), prog.ann_to_type(o.module, ann, o))
    fields['namespace'] = ev.construct(prog.cls('cpp_gen', 'Namespace'), [('nsids', ('My', 'Ns'))], {}, 1)
    fields['struct'] = ev.construct(prog.cls('cpp_gen', 'Struct'), [lit('Shell')], {}, 1)
    rec = TObj(prog.cls('adv_shell.common', 'Recipe'),
               {'configuration': Sym('cfg', (), ('cls', 'dznpy.adv_shell.common.Configuration')),
                'dzn_elements': Sym('dzn'), 'cpp_elements': TObj(cpp_cls, fields)})
    selfv = TObj(b, {'_recipe': rec})

    def classify_parts(parts) -> str:
        holes = [p_ for p_ in parts if isinstance(p_, Hole)]
        lits = ''.join(p_.text for p_ in parts if isinstance(p_, Lit))
        if len(holes) == 1 and len(holes) + sum(isinstance(p_, Lit) for p_ in parts) == len(parts):
            path = holes[0].sym.path
            if path[-1:] == ('orig_file_basename',) and lits == '.hh':
                return 'model header'
            if path[-1:] == ('target_file_basename',) and lits == '.hh':
                return 'shell header'
            if len(path) >= 3 and path[-3] == 'support_files' and path[-1] == 'filename' and lits == '' and path[-2] in sf_fields:
                return f'support file {path[-2]}'
        return '?' + ''.join(getattr(p_, 'text', '{..}') for p_ in parts)[:50]

    n = 0
    names = []
    for m, allowed in ((hdr, ('model header', 'support file')), (src, ('shell header',))):
        r = ev.call_function(m, [], _recipe_kwargs(prog, m, rec), 0, self_val=selfv)
        contents = r.fields.get('contents') if isinstance(r, TObj) else None
        fname = r.fields.get('filename') if isinstance(r, TObj) else None
        if not isinstance(contents, TStr) or not isinstance(fname, TStr):
            run.error('C06.closure', m.module.name, m.qualname, 'generated file', 'the method does not evaluate to file name and contents')
            continue
        names.append(fname)
        seen_inc = set()

        def includes_of(t: TStr, out: list):
            """part lists between `#include "` and the closing quote, anywhere in the template (alternatives / repetitions
            are searched one by one; an include does not span them)"""
            cur = None
            for p_ in t.parts:
                if isinstance(p_, Lit):
                    text = p_.text
                    while text:
                        if cur is None:
                            k = text.find('#include "')
                            if k < 0:
                                break
                            text = text[k + len('#include "'):]
                            cur = []
                        else:
                            k = text.find('"')
                            if k < 0:
                                cur.append(Lit(text))
                                break
                            if text[:k]:
                                cur.append(Lit(text[:k]))
                            out.append(cur)
                            cur = None
                            text = text[k + 1:]
                elif cur is not None:
                    cur.append(p_)
                elif hasattr(p_, 'a') and hasattr(p_, 'b') and isinstance(getattr(p_, 'a'), TStr):
                    includes_of(p_.a, out)
                    includes_of(p_.b, out)
                elif hasattr(p_, 'elem') and isinstance(getattr(p_, 'elem'), TStr):
                    includes_of(p_.elem, out)
                elif hasattr(p_, 'body') and isinstance(getattr(p_, 'body'), TStr):
                    includes_of(p_.body, out)
        found: list = []
        includes_of(contents, found)
        for parts in found:
            c = classify_parts(parts)
            if c in seen_inc:
                continue
            seen_inc.add(c)
            n += 1
            ok = c.startswith(allowed)
            run.add('C06.closure', m.module.name, m.qualname, f'#include "{c.lstrip("?")}"', ok,
                    f'quoted include of the {c}' if ok else
                    f'quoted include `{c.lstrip("?")}` is neither the model\'s own header nor a returned file')
    # shell header file name == what the source includes

    def name_kind(t: TStr) -> str:
        ps = t.parts
        if len(ps) == 2 and isinstance(ps[0], Hole) and ps[0].sym.path[-1:] == ('target_file_basename',) and isinstance(ps[1], Lit):
            return ps[1].text
        return '?'
    kinds = [name_kind(t) for t in names]
    ok = kinds == ['.hh', '.cc']
    run.add('C06.closure', hdr.module.name, 'Builder', f'file names <target>{kinds}', ok,
            'header and source are named <target>.hh / <target>.cc' if ok else f'unexpected file names {[repr(t)[:40] for t in names]}')
    if n < 4:
        run.error('C06.closure', hdr.module.name, 'Builder', 'includes', f'only {n} quoted includes recognised (5 confirmed)')
    # inside the support headers (two prefixes): every quoted include is one of the six returned file names
    for prefix in (None, ('My', 'Prefix')):
        try:
            hs = extract_headers(ctx, prefix)
        except AnalysisError as exc:
            run.error('C06.closure', 'dznpy.support_files', 'create_header', str(exc), str(exc))
            return
        fnames = {v['filename'] for v in hs.values()}
        ok_names = len(fnames) == 6
        run.add('C06.closure', 'dznpy.support_files', 'create_header', f'file names {sorted(fnames)}', ok_names,
                'six distinct support file names' if ok_names else 'support file names collide')
        for m, v in hs.items():
            for inc in re.findall(r'#include\s+"([^"]+)"', v['contents']):
                ok = inc in fnames
                run.add('C06.closure', f'dznpy.support_files.{m}', 'create_header', f'{v["filename"]} includes "{inc}"', ok,
                        'includes a returned support file' if ok else
                        f'{v["filename"]} includes "{inc}" which is not among the returned files {sorted(fnames)}')
    run.floor('C06.closure', 12)


def _pair(ctx):
    run, prog = ctx.run, ctx.prog
    b = prog.cls('adv_shell', 'Builder')

    def rendered(m: FuncInfo, suffixes: Tuple[str, ...]) -> Set[str]:
        out = set()
        for n in iter_own_nodes(m.node):
            if isinstance(n, ast.Attribute) and isinstance(n.ctx, ast.Load):
                for suf in suffixes:
                    if n.attr == suf or n.attr.endswith('_' + suf.split('_')[-1]) and n.attr.split('_')[-1] == suf.split('_')[-1]:
                        base = ast.unparse(expand_aliases(m, n.value))
                        attr = n.attr
                        key = base + ('.' + attr.rsplit('_', 1)[0] if attr not in ('as_decl', 'as_def') else '')
                        out.add(key)
        return out
    hdr, src = b.methods['_create_headerfile'], b.methods['_create_sourcefile']
    from .shared import shell_frame_anchors, frame_entities
    fa = shell_frame_anchors(ctx)
    if fa is not None:
        # read off the evaluated file templates (E4): whose declaration the header renders / whose body the source renders
        decls = frame_entities(fa['header'], 'initialization')
        defs = frame_entities(fa['source'], 'contents')
    else:
        decls = rendered(hdr, ('as_decl', 'accessors_decl', 'public_decl', 'private_decl'))
        defs = rendered(src, ('as_def', 'accessors_def', 'public_def', 'private_def'))
    ok = decls == defs and len(decls) >= 6
    run.add('C06.pair', hdr.module.name, 'Builder', f'declared {sorted(decls)}', ok,
            'every function declared in the header is defined in the source' if ok else
            f'declared but not defined: {sorted(decls - defs)}; defined but not declared: {sorted(defs - decls)}')
    # aggregated pairs iterate the same lists
    pairs = [('adv_shell.common', 'CppPorts', 'accessors_decl', 'accessors_def', 'accessor_as_decl', 'accessor_as_def'),
             ('adv_shell.common', 'Facilities', 'accessors_decl', 'accessors_def', 'as_decl', 'as_def')]
    for mod, cls, d, f, ad, af in pairs:
        c = prog.cls(mod, cls)
        md, mf = c.methods.get(d), c.methods.get(f)
        if md is None or mf is None:
            run.error('C06.pair', c.module.name, cls, f'{d}/{f}', 'aggregated accessor properties vanished')
            continue

        def source_of(m: FuncInfo, attr: str) -> Optional[str]:
            for n in iter_own_nodes(m.node):
                if isinstance(n, ast.ListComp) and isinstance(n.elt, ast.Attribute) and n.elt.attr == attr:
                    it = n.generators[0].iter
                    defs_ = {x.targets[0].id: x.value for x in iter_own_nodes(m.node)
                             if isinstance(x, ast.Assign) and isinstance(x.targets[0], ast.Name)}
                    if isinstance(it, ast.Name) and it.id in defs_:
                        it = defs_[it.id]
                    probe = ast.ListComp(elt=ast.Name(id='_', ctx=ast.Load()), generators=[ast.comprehension(
                        target=n.generators[0].target, iter=it, ifs=n.generators[0].ifs, is_async=0)])
                    return alpha_text(probe)
            return None
        sd, sfn = source_of(md, ad), source_of(mf, af)
        ok = sd is not None and sd == sfn
        run.add('C06.pair', c.module.name, cls, f'{d} over `{sd}` / {f} over `{sfn}`', ok,
                'declarations and definitions range over the same functions' if ok else
                f'{cls}.{d} iterates `{sd}` but {cls}.{f} iterates `{sfn}`: a member is declared without definition or vice versa')
    hm = prog.cls('adv_shell.common', 'CppHelperMethods')
    for vis in ('public', 'private'):
        d, f = hm.methods.get(f'{vis}_decl'), hm.methods.get(f'{vis}_def')
        okd = d is not None and f'self._decl(self.{vis})' in ast.unparse(d.node)
        okf = f is not None and f'self._def(self.{vis})' in ast.unparse(f.node)
        run.add('C06.pair', hm.module.name, 'CppHelperMethods', f'{vis}_decl / {vis}_def', okd and okf,
                f'{vis} helper declarations and definitions range over the same list' if okd and okf else
                f'{vis}_decl / {vis}_def do not render the same helper list')
    # helper _decl/_def render as_decl / as_def of every function
    for nm, attr in (('_decl', 'as_decl'), ('_def', 'as_def')):
        m = hm.methods.get(nm)
        ok = m is not None and any(isinstance(n, ast.ListComp) and isinstance(n.elt, ast.Attribute) and n.elt.attr == attr
                                   and not n.generators[0].ifs for n in iter_own_nodes(m.node))
        run.add('C06.pair', hm.module.name, f'CppHelperMethods.{nm}', attr, ok,
                f'{nm} renders {attr} of every helper' if ok else f'{nm} does not render {attr} of every helper')
    run.floor('C06.pair', 6)
    _complete_views(ctx)


def _ns(ctx):
    """C06.ns - decided on the instantiated headers when the generators evaluate (E4, create_header of every support module
    under no prefix, a one-identifier and a two-identifier prefix - the code only concatenates and joins the identifiers): the
    namespace handed back, the C++ namespace the contents are wrapped in and the prefix of the file name are one and the same
    `<prefix>.Dzn`.  The shape rule (distillate_ns returns / prefix handed on) decides when the generators do not evaluate."""
    run, prog = ctx.run, ctx.prog
    import re as _re
    try:
        n = 0
        for prefix in (None, ('Acme',), ('My', 'Project')):
            hs = extract_headers(ctx, prefix)
            want = tuple(prefix or ()) + ('Dzn',)
            for m in SUPPORT_MODULES:
                h = hs[m]
                fn = prog.func(f'support_files.{m}', 'create_header')
                problems = []
                if h['namespace'] != '::'.join(want):
                    problems.append(f"the namespace handed back is `{h['namespace']}`")
                if not (h['filename'].startswith('_'.join(want) + '_') and h['filename'].endswith('.hh') and
                        '_' not in h['filename'][len('_'.join(want)) + 1:]):
                    problems.append(f"the file is named `{h['filename']}`")
                opened = _re.findall(r'^namespace[ \t]*([A-Za-z_0-9:]*)[ \t]*\{', h['contents'], flags=_re.M)
                closed = _re.findall(r'^\}[ \t]*// namespace[ \t]*([A-Za-z_0-9:]*)[ \t]*$', h['contents'], flags=_re.M)
                if opened != ['::'.join(want)]:
                    problems.append(f'the contents are wrapped in namespace {opened or "(none)"}')
                if closed != opened:
                    problems.append(f'the closing comment names {closed or "(none)"}')
                n += 1
                run.add('C06.ns', fn.module.name, fn.qualname, f'{m}: prefix {".".join(prefix) if prefix else "(none)"}', not problems,
                        f'file name, namespace handed back and namespace of the contents are all `{".".join(want)}`' if not problems else
                        f'under the prefix `{".".join(prefix) if prefix else "(none)"}` the support file {m} should live in `{".".join(want)}` '
                        f'throughout, but ' + '; '.join(problems))
        run.stats['ns_rule_decided_by'] = f'instantiation of the {len(SUPPORT_MODULES)} header generators under 3 prefixes (E4)'
        run.floor('C06.ns', 8)
        return
    except AnalysisError as exc:
        run.remark(f'C06.ns: the header generators do not evaluate ({exc}); the shape rule decides')
    dn = prog.func('support_files', 'distillate_ns')
    rets = [n for n in iter_own_nodes(dn.node) if isinstance(n, ast.Return) and isinstance(n.value, ast.Tuple)]
    for r in rets:
        a, b, c = (r.value.elts + [None, None, None])[:3]
        an = ast.unparse(a)
        ok = b is not None and c is not None and f'fqn_t({an})' in ast.unparse(b) and f'{an}.items' in ast.unparse(c) \
            and "'_'.join" in ast.unparse(c).replace('"', "'")
        run.add('C06.ns', dn.module.name, dn.qualname, r, ok,
                'namespace, C++ spelling and file prefix derive from the same NamespaceIds' if ok else
                'namespace / spelling / file prefix are derived from different values', node=r)
    if len(rets) < 2:
        run.error('C06.ns', dn.module.name, dn.qualname, 'returns', 'distillate_ns shape changed')
    for m in SUPPORT_MODULES:
        fn = prog.func(f'support_files.{m}', 'create_header')
        p = fn.params()[0].arg
        txt = ast.unparse(fn.node)
        cfgs = [prog.bind_call(fn.module, c).get('ns_prefix') for c in iter_own_nodes(fn.node)
                if isinstance(c, ast.Call) and getattr(c.func, 'id', getattr(c.func, 'attr', '')) == 'SupportFileCfg']
        ok = f'distillate_ns({p})' in txt and bool(cfgs) and all(isinstance(a, ast.Name) and a.id == p for a in cfgs)
        run.add('C06.ns', fn.module.name, fn.qualname, f'{m}: prefix handed on', ok,
                'the prefix reaches distillate_ns and the file configuration unchanged' if ok else
                'the namespace prefix is not handed unchanged to distillate_ns and SupportFileCfg')
    run.floor('C06.ns', 8)


def _rooted(ctx):
    """A name spelled `Dzn::Sts<...>` inside `namespace Acme::Models { ... }` is looked up in Acme::Models::Dzn first.  The
    shell lives in the model's namespace, the support files in a namespace the user chooses: every reference the generator
    makes from data (not from the fixed dzn:: / std:: spellings) has to start at the root."""
    run, prog = ctx.run, ctx.prog
    fqn_cls = prog.cls('cpp_gen', 'Fqn')
    fqn_fn = prog.func('cpp_gen', 'fqn_t')
    n_sites = 0
    for fn in prog.all_functions():
        if not fn.module.name.startswith('dznpy.adv_shell'):
            continue
        for c in iter_own_nodes(fn.node):
            if not isinstance(c, ast.Call):
                continue
            sym = prog.resolve_expr_symbol(fn.module, c.func)
            if sym is not fqn_cls and sym is not fqn_fn:
                continue
            b = prog.bind_call(fn.module, c)
            ns = b.get('ns_ids')
            root = b.get('prefix_root_ns')
            if ns is None:
                continue
            ns_r = expand_aliases(fn, ns)
            fixed = all(isinstance(x, ast.Constant) or (isinstance(x, ast.Name) and x.id in ('ns_ids_t', 'NamespaceIds'))
                        or isinstance(x, (ast.Call, ast.List, ast.Tuple, ast.Load, ast.expr_context)) for x in ast.walk(ns_r)) and \
                any(isinstance(x, ast.Constant) for x in ast.walk(ns_r))
            if fixed:
                continue            # 'dzn.pump', 'std.string': the fixed spellings of the runtime / the standard library
            # the scope the shell is *defined* in is not a reference
            par = prog.parent(c)
            if isinstance(par, ast.Call) and getattr(par.func, 'id', getattr(par.func, 'attr', '')) == 'DznElements':
                continue
            n_sites += 1
            ok = isinstance(root, ast.Constant) and root.value is True
            run.add('C06.rooted', fn.module.name, fn.qualname, c, ok,
                    f'`{ast.unparse(ns)[:50]}` is spelled from the root (::...)' if ok else
                    f'`{ast.unparse(c)[:80]}` spells a namespace that is model / configuration data without the root prefix: inside '
                    f'the shell\'s own namespace C++ looks the first identifier up relative to that namespace first (a component in '
                    f'Acme::Models with support files in Models::Dzn does not compile, or binds to another declaration)', node=c)
    run.floor('C06.rooted', 12)


def _recipe_kwargs(prog, m: FuncInfo, rec: TObj) -> Dict[str, Any]:
    """A generator method may read the recipe from `self` or take it (or parts of it) as parameters: bind the parameters
    by their annotated type."""
    out: Dict[str, Any] = {}
    for a in m.params():
        if a.arg in ('self', 'cls') or a.annotation is None:
            continue
        t = prog.ann_to_type(m.module, a.annotation, m.cls)
        name = t[1].split('.')[-1] if t[0] == 'cls' else ''
        if name == 'Recipe':
            out[a.arg] = rec
        elif name == 'CppElements':
            out[a.arg] = rec.fields['cpp_elements']
        elif name == 'Configuration':
            out[a.arg] = rec.fields['configuration']
        elif name == 'DznElements':
            out[a.arg] = rec.fields['dzn_elements']
    return out


def _complete_views(ctx):
    """C06.members: what the header declares per port / facility ranges over the COMPLETE collection.  The aggregated
    properties of CppPorts (member variables, accessor declarations and definitions) are evaluated symbolically (E4) over an
    arbitrary port list; a repetition over a partial view - the last group of an unsorted itertools.groupby, a slice - leaves
    a member of some port undeclared while the source file still initialises and uses it."""
    from ..template import TAlt, TBlock, TList, RepL, AltL, AltS, RepS, TOpaque
    run, prog = ctx.run, ctx.prog
    cp = prog.cls('adv_shell.common', 'CppPorts')
    if cp is None:
        return
    ev = Evaluator(prog, ctx.cg)

    def sources(v, out, depth=0):
        if depth > 60:
            return
        if isinstance(v, TAlt):
            sources(v.a, out, depth + 1)
            sources(v.b, out, depth + 1)
        elif isinstance(v, (TBlock, TList)):
            for x in v.items:
                sources(x, out, depth + 1)
        elif isinstance(v, (RepL,)):
            out.append(v.src)
            for x in v.items:
                sources(x, out, depth + 1)
        elif isinstance(v, AltL):
            for x in v.a + v.b:
                sources(x, out, depth + 1)
        elif isinstance(v, TStr):
            for p_ in v.parts:
                if isinstance(p_, AltS):
                    sources(p_.a, out, depth + 1)
                    sources(p_.b, out, depth + 1)
                elif isinstance(p_, RepS):
                    out.append(p_.src)
                    sources(p_.elem, out, depth + 1)
        elif isinstance(v, TObj):
            for x in v.fields.values():
                sources(x, out, depth + 1)
    for name in ('rerouting_class_members', 'accessors_decl', 'accessors_def'):
        m = cp.methods.get(name)
        if m is None:
            continue
        selfv = TObj(cp, {'ports': Sym('ports', (), ('list', ('cls', 'dznpy.adv_shell.common.CppPortItf')))})
        try:
            val = ev.call_function(m, [], {}, 0, self_val=selfv)
        except AnalysisError:
            continue
        if isinstance(val, TOpaque):
            continue            # not evaluated: nothing is claimed
        srcs: list = []
        sources(val, srcs)
        port_srcs = [s_ for s_ in srcs if isinstance(getattr(s_, 'base', None), Sym) and s_.base.root == 'ports']
        partial = sorted({s_.order for s_ in port_srcs if s_.order.startswith('partial')} |
                         {'slice' for s_ in port_srcs if any('[' in p_ for p_ in s_.base.path)})
        run.add('C06.members', cp.module.name, f'CppPorts.{name}', f'{len(port_srcs)} repetitions over the ports', not partial,
                f'{name} renders its entry for every port of the list (no partial view)' if not partial else
                f'{name} ranges over a partial view of the ports ({"; ".join(partial)}): for some port order a member is left out of the '
                f'header although the source file initialises and uses it - the generated shell does not compile')


def _frames(ctx) -> Dict[Tuple[str, bool], TStr]:
    """Shell header / source frames evaluated with an empty and a non-empty encapsulee scope."""
    prog = ctx.prog
    ev = Evaluator(prog, ctx.cg)
    b = prog.cls('adv_shell', 'Builder')
    out: Dict[Tuple[str, bool], TStr] = {}
    for ids in ((), ('My', 'Ns')):
        ns = ev.construct(prog.cls('cpp_gen', 'Namespace'), [('nsids', ids)], {}, 1)
        st = ev.construct(prog.cls('cpp_gen', 'Struct'), [lit('Shell')], {}, 1)
        cpp_cls = prog.cls('adv_shell.common', 'CppElements')
        fields: Dict[str, Any] = {}
        for k, (ann, _d, o) in prog.class_fields(cpp_cls).items():
            fields[k] = Sym('cpp', (k,), prog.ann_to_type(o.module, ann, o))
        fields['namespace'], fields['struct'] = ns, st
        rec = TObj(prog.cls('adv_shell.common', 'Recipe'),
                   {'configuration': Sym('cfg', (), ('cls', 'dznpy.adv_shell.common.Configuration')),
                    'dzn_elements': Sym('dzn'), 'cpp_elements': TObj(cpp_cls, fields)})
        selfv = TObj(b, {'_recipe': rec})
        for m in ('_create_headerfile', '_create_sourcefile'):
            r = ev.call_function(b.methods[m], [], _recipe_kwargs(prog, b.methods[m], rec), 0, self_val=selfv)
            c = r.fields.get('contents') if isinstance(r, TObj) else None
            if not isinstance(c, TStr):
                raise AnalysisError(f'Builder.{m} does not evaluate to file contents')
            out[(m, bool(ids))] = c
    return out


def _guard_shape(text_tokens: List[str]) -> Optional[str]:
    """Recognise an include guard at the start of a token list (comments are already dropped)."""
    t = text_tokens
    for i in range(len(t) - 2):
        if t[i] == '#' and t[i + 1] == 'pragma' and t[i + 2] == 'once':
            return f'#pragma once at token {i}'
        if t[i] == '#' and t[i + 1] == 'ifndef' and i + 5 < len(t) and t[i + 3] == '#' and t[i + 4] == 'define' and t[i + 5] == t[i + 2]:
            return f'#ifndef/#define {t[i + 2]} at token {i}'
    return None


def _guard_and_linkage(ctx, frames):
    run = ctx.run
    for (m, named), c in frames.items():
        toks = lex(c)
        txt = [tok_text(t) for t in toks]
        if m == '_create_headerfile':
            first_decl = next((i for i, t in enumerate(txt) if t in ('namespace', 'struct', 'class')), len(txt))
            g = _guard_shape(txt[:first_decl])
            if named:
                run.add('C06.guard', 'dznpy.adv_shell', f'Builder.{m}', 'shell header frame', g is not None,
                        f'shell header has an include guard ({g})' if g else
                        'the shell header has no include guard: including it twice (or from two headers of one '
                        'translation unit) redefines the shell struct')
        # linkage: no `namespace {` (unnamed) around the struct / the member definitions
        unnamed = [i for i in range(len(txt) - 1) if txt[i] == 'namespace' and txt[i + 1] == '{']
        label = f'{"named" if named else "global"}-scope encapsulee, {m}'
        run.add('C06.linkage', 'dznpy.adv_shell', f'Builder.{m}', label, not unnamed,
                'the shell is not wrapped in an unnamed namespace' if not unnamed else
                'for an encapsulee in the global namespace the shell is wrapped in `namespace {` - an unnamed namespace: the '
                'struct and its member definitions get internal linkage and cannot be used from another translation unit')
        if named:
            ok = any(txt[i] == 'namespace' and toks[i + 1][0] in ('fqn', 'id') for i in range(len(txt) - 1))     # (a name, not `{`)
            run.add('C06.linkage', 'dznpy.adv_shell', f'Builder.{m}', label + ' (wrapper)', ok,
                    'the shell lives in the encapsulee\'s namespace' if ok else
                    'the shell is not wrapped in the encapsulee\'s namespace')
    run.floor('C06.linkage', 6)


def _constants(ctx, thorough: bool):
    run = ctx.run
    try:
        hs = extract_headers(ctx)
        hs2 = extract_headers(ctx, ('Other', 'Lib'))      # a second namespace prefix: both sets must coexist in one program
    except AnalysisError as exc:
        run.error('C06.constants', 'dznpy.support_files', 'create_header', str(exc), str(exc))
        return
    mod = 'dznpy.support_files'
    with Scratch() as sc:
        for v in hs.values():
            sc.write(v['filename'], v['contents'])
        if hs2:
            for v in hs2.values():
                sc.write(v['filename'], v['contents'])
        for m, v in hs.items():
            fn = v['filename']
            # include guard of the support header frame (text shape) - decisive check is "twice in one TU" below
            toks = [tok_text(t) for t in lex(TStr([Lit(v['contents'])]))]
            first_decl = next((i for i, t in enumerate(toks) if t in ('namespace', 'struct', 'template', 'using')), len(toks))
            g = _guard_shape(toks[:first_decl])
            run.add('C06.guard', f'{mod}.{m}', 'create_header', f'{fn} frame', g is not None,
                    f'{fn} has an include guard ({g})' if g else
                    f'{fn} has no include guard: it cannot be included more than once in a translation unit')
            rc, err = clang_check(sc, f'alone_{m}.cc', f'#include "{fn}"\n')
            run.add('C06.constants', f'{mod}.{m}', 'create_header', f'{fn} on its own', rc == 0,
                    'type-checks on its own with its declared includes' if rc == 0 else
                    f'{fn} does not compile on its own: {first_error(err)}')
            rc, err = clang_check(sc, f'twice_{m}.cc', f'#include "{fn}"\n#include "{fn}"\n')
            run.add('C06.constants', f'{mod}.{m}', 'create_header', f'{fn} twice in one TU', rc == 0,
                    'can be included twice' if rc == 0 else f'{fn} included twice: {first_error(err)}')
        allinc = ''.join(f'#include "{v["filename"]}"\n' for v in hs.values())
        rc, err = clang_check(sc, 'together.cc', allinc)
        run.add('C06.constants', mod, 'create_header', 'all six together', rc == 0,
                'the six support headers coexist in one translation unit' if rc == 0 else
                f'the six headers together: {first_error(err)}')
        rc, err = clang_check(sc, 'together_rev.cc', ''.join(f'#include "{v["filename"]}"\n' for v in reversed(list(hs.values()))))
        run.add('C06.constants', mod, 'create_header', 'all six together (reverse order)', rc == 0,
                'inclusion order does not matter' if rc == 0 else f'reverse inclusion order: {first_error(err)}')
        _odr_rule(ctx, sc, hs, allinc)
        ns1, ns2 = hs['strict_port']['namespace'], hs2['strict_port']['namespace']
        use_both = f'\n{ns1}::ILog log_a;\n{ns2}::ILog log_b;\n{ns1}::MutexWrapped<int> mw_a;\n{ns2}::MutexWrapped<int> mw_b;\n'
        rc, err = clang_check(sc, 'two_prefixes.cc', allinc + ''.join(f'#include "{v["filename"]}"\n' for v in hs2.values()) + use_both)
        run.add('C06.constants', mod, 'create_header', 'two namespace prefixes in one TU', rc == 0,
                'support headers generated with different prefixes coexist (both namespaces are declared and usable)' if rc == 0 else
                f'two prefixes in one TU: {first_error(err)}')
        if thorough:
            ns = hs['strict_port']['namespace']
            cap_is_template = bool(re.search(r'template\s*<[^>]*>\s*(?:\[\[nodiscard\]\]\s*)?[\w:<>&\* ]+\s+CapitalizeFirstChar\s*\(',
                                             hs['misc_utils']['contents']))
            cap_inst = (f'template std::string {ns}::CapitalizeFirstChar<std::string>(const std::string&);\n'
                        f'template std::wstring {ns}::CapitalizeFirstChar<std::wstring>(const std::wstring&);\n') if cap_is_template else \
                f'std::string use_cap() {{ return {ns}::CapitalizeFirstChar(std::string("x")); }}\n'
            inst = allinc + '#include <mock_port.hh>\n' + f'''
template struct {ns}::MultiClientSelector<MockPort>;
template struct {ns}::MutexWrapped<int>;
template struct {ns}::Sts<MockPort>;
template struct {ns}::Mts<MockPort>;
template MockPort {ns}::CreatePort<MockPort>(const std::string&, const std::string&);
template MockPort {ns}::CreateProvidedPort<MockPort>(const std::string&);
template MockPort {ns}::CreateRequiredPort<MockPort>(const std::string&);
template void {ns}::ConnectPorts<MockPort>({ns}::Sts<MockPort>, {ns}::Sts<MockPort>);
template void {ns}::ConnectPorts<MockPort>({ns}::Mts<MockPort>, {ns}::Mts<MockPort>);
{cap_inst}void use() {{
  {ns}::ILog log;
  {ns}::ILogWithContext ctx("c", log);
  ctx.check_bindings();
}}
'''
            rc, err = clang_check(sc, 'instantiate.cc', inst)
            run.add('C06.constants', mod, 'create_header', 'explicit instantiation against the mock port', rc == 0,
                    'every template of the support headers instantiates against a Dezyne-shaped port' if rc == 0 else
                    f'explicit instantiation: {first_error(err)}')
    run.floor('C06.constants', 14)
    run.floor('C06.guard', 7)


def _odr_rule(ctx, sc, hs, allinc: str):
    """C06.odr - every function / variable DEFINITION at namespace scope of a support header is a template, inline,
    constexpr or has internal linkage; otherwise two translation units of one program that include the header (the shell's
    own source and the user's file) define it twice.  Decided on clang's JSON AST of a TU that includes all six headers."""
    from ..embedded_cxx import clang_ast, walk_json
    run = ctx.run
    names = {v['namespace'].split('::')[0] for v in hs.values() if v['namespace']}
    if len(names) != 1:
        run.error('C06.odr', 'dznpy.support_files', 'create_header', 'namespaces', f'support headers do not share one top-level namespace: {names}')
        return
    top = names.pop()
    try:
        objs = clang_ast(sc, 'odr.cc', allinc, top)
    except AnalysisError as exc:
        run.error('C06.odr', 'dznpy.support_files', 'create_header', 'clang AST', str(exc))
        return
    seen = set()
    n_defs = 0
    offenders = []
    members: List[str] = []

    def visit_ns(ns_node, path):
        nonlocal n_defs
        for d in ns_node.get('inner', []) or []:
            k = d.get('kind')
            if k == 'NamespaceDecl':
                visit_ns(d, path + [d.get('name', '(anonymous)')])
                continue
            if d.get('id') in seen:
                continue
            seen.add(d.get('id'))
            members.append(k)
            internal = '(anonymous)' in path or d.get('storageClass') == 'static'
            if k in ('FunctionDecl', 'CXXMethodDecl', 'CXXConstructorDecl', 'CXXDestructorDecl'):
                has_body = any(c.get('kind') == 'CompoundStmt' for c in d.get('inner', []) or [])
                if not has_body:
                    continue
                n_defs += 1
                if not (d.get('inline') or d.get('constexpr') or internal):
                    offenders.append(f"function {'::'.join(path + [d.get('name', '?')])}")
            elif k == 'VarDecl':
                if 'init' not in d and not any(c for c in d.get('inner', []) or []):
                    continue
                n_defs += 1
                qt = d.get('type', {}).get('qualType', '')
                if not (d.get('inline') or d.get('constexpr') or internal or qt.startswith('const ')):
                    offenders.append(f"variable {'::'.join(path + [d.get('name', '?')])}")

    for o in objs:
        if o.get('kind') == 'NamespaceDecl' and o.get('name') == top:
            visit_ns(o, [top])
    run.add('C06.odr', 'dznpy.support_files', 'create_header', f'namespace-scope definitions in the six support headers: {offenders or "none offending"}',
            not offenders,
            'every namespace-scope definition in the support headers is a template, inline, constexpr or internal' if not offenders else
            f'{", ".join(offenders)}: defined in a header without `inline`; two translation units that include it (the shell source and '
            f'any user file including the shell header) violate the one-definition rule and fail to link')
    run.stats['odr_namespace_scope_definitions_seen'] = n_defs
    run.stats['odr_namespace_members_seen'] = len(members)
    if len(members) < 12:
        run.error('C06.odr', 'dznpy.support_files', 'create_header', 'namespace members',
                  f'only {len(members)} declarations found in namespace {top} (the six headers declare 15+ templates / classes)')
