"""C11 - generated multi-client support is correct under all thread interleavings.

Only the lock *discipline* is decided (necessary for race freedom), on the C++ AST of the instantiated support
templates (clang) and on the generator template: C11.guarded, C11.immutable, C11.nonreentrant,
C11.deliver-under-lock.  Absence of deadlock with re-entrant handlers, the claim/select window and "keeps receiving
until it itself releases" quantify over schedules and are NOT decided by this technique family.
"""
from __future__ import annotations

from ..embedded_cxx import selector_rules
from ..links import split_statements, find_member_calls, tok_text, toks_text, selection_alias
from .wiring import build_wiring
from .c01 import all_links


def check(ctx):
    run = ctx.run
    run.explanation = (
        'Decided (lock discipline only, a necessary condition of race freedom): C11.guarded - on the clang AST of '
        'MutexWrapped<int>: the protected value and mutex are private, operator() constructs a unique_lock on the mutex '
        'before returning a unique_ptr to the value whose deleter receives the lock by std::move, the deleter holds the '
        'unique_lock by value and unlocks iff it owns it, no other member touches the value; on MultiClientSelector'
        '<MockPort>: the selection is a private MutexWrapped value and no method returns a reference to it; '
        'C11.immutable - only Index() writes m_clients (under the final-construct guard, C10.selector), '
        'Select/Deselect/CurrentClient/GetClientIdentifiers/FinalConstruct only read it; C11.nonreentrant - Select and '
        'Deselect acquire the selection lock exactly once (single non-recursive mutex, hence no lock-order cycle inside '
        'the support code); C11.deliver-under-lock - in the generated out-event link the client call happens in the '
        'scope of the lock-and-data variable with no reset() before it. NOT decided - and this is most of the property: '
        'absence of deadlock when a client\'s out-event handler re-enters the port while the lock is held, the window '
        'between a granted claim and Select, "a granted client keeps receiving until it itself releases" over '
        'interleavings, data races inside the Dezyne runtime; these quantify over schedules and need a scheduler-'
        'controlling or model-checking technique.')
    run.assume('the mock port type has the shape of a Dezyne-generated port; std::mutex / std::unique_lock / std::unique_ptr '
               'behave as specified by the C++ standard')
    run.trusted = ['clang++ 14 -ast-dump=json of the explicit instantiations', '/verif/cxx/mock', 'dznverif E4/E5']
    selector_rules(ctx, 'C11')
    # the final-construct guard on registration is part of the immutability argument
    selector_rules_c10_part(ctx)
    # ---- C11.shared-log: the logger the selector shares between all client threads carries no changeable state --------------
    _shared_log_rule(ctx)
    # ---- C11.deliver-under-lock (generator template) --------------------------------------------------------------------
    w = build_wiring(ctx)
    links, _p = all_links(w)
    n = 0
    for entry, kind, d, role, ln in links:
        if kind == 'P-MTS-multiclient' and d == 'OUT' and ln.style == 'closure' and entry == 'create_constructor':
            n += 1
            stmts = split_statements(ln.closure.body)
            acq = next((i for i, st in enumerate(stmts) if any(tok_text(t) == 'CurrentClient' for t in st)), None)
            call = next((i for i, st in enumerate(stmts) if find_member_calls(st)), None)
            reset_between = acq is not None and call is not None and any(
                any(tok_text(t) in ('reset', 'release') for t in st) for st in stmts[acq + 1:call])
            same_block = acq is not None and call is not None and acq < call
            al = selection_alias(stmts)
            held = al is not None and al[1] == 'holder'
            ok = same_block and not reset_between and held
            why = ('the selection lock is released (or not yet taken) when the out-event is delivered: the selection can '
                   'change concurrently')
            if same_block and not reset_between and not held:
                why = ('the lock-and-data object returned by CurrentClient() is not kept in a variable of the lambda (it is '
                       'dereferenced as a temporary): the lock is released at the end of that declaration, the selection is read '
                       'and the out-event delivered without it') if al is not None else \
                    'the lambda does not keep the result of CurrentClient() in a local for the duration of the delivery'
            run.add('C11.deliver-under-lock', 'dznpy.adv_shell.core.processing', 'reroute_multiclient_out_events',
                    toks_text(ln.closure.body)[:100], ok,
                    'the out-event is delivered while the selection lock is held' if ok else why)
    if n == 0:
        run.error('C11.deliver-under-lock', 'dznpy.adv_shell.core.processing', '-', 'out-event link', 'multi-client out-event link not found')
    # ---- C11.no-lock-across-dispatch: a client thread never holds the selection lock while it waits for the dispatcher -------------
    # The in-event links of a client port run on the client's thread and forward through the arbitered port, i.e. they block until
    # the dispatcher thread has run the event.  The dispatcher thread takes the same lock to deliver out-events (rule above).  A
    # link that first binds the result of CurrentClient() to a local (the lock is held as long as the local lives) and forwards
    # afterwards makes the two threads wait for each other.
    n2 = 0
    for entry, kind, d, role, ln in links:
        if kind == 'P-MTS-multiclient' and d == 'IN' and ln.style == 'closure' and entry == 'create_cpp_port_helpers':
            n2 += 1
            stmts = split_statements(ln.closure.body)
            acq = next((i for i, st in enumerate(stmts) if any(tok_text(t) == 'CurrentClient' for t in st)
                        and any(tok_text(t) == '=' for t in st)), None)
            fwd = [i for i, st in enumerate(stmts) if any(tok_text(t) == 'Arbitered' for t in st)]
            released = acq is not None and any(any(tok_text(t) in ('reset', 'release', 'unlock') for t in st) for st in stmts[acq + 1:(fwd[-1] if fwd else acq + 1)])
            bad = acq is not None and any(i > acq for i in fwd) and not released
            run.add('C11.no-lock-across-dispatch', 'dznpy.adv_shell.core.processing', 'initialize_port_impl',
                    f'[{role}] ' + toks_text(ln.closure.body)[:90], not bad,
                    'the forwarded call (a round trip to the dispatcher thread) is made without the selection lock' if not bad else
                    'the link binds the result of CurrentClient() to a local and forwards the event through the dispatcher afterwards: the client '
                    'thread waits for the dispatcher while it holds the selection lock, and the dispatcher thread needs that lock to deliver an '
                    'out-event - the two threads can wait for each other for ever')
    if n2 == 0:
        run.error('C11.no-lock-across-dispatch', 'dznpy.adv_shell.core.processing', '-', 'client in-event links', 'no client in-event link found')
    # two-step remark (reported, not judged)
    run.remark('claim/release links perform the forwarded call and the (de)selection as two separate steps on the client '
               'thread (visible in the template): the window between them is a schedule-level question, not decided here')


def selector_rules_c10_part(ctx):
    """Registration guard (shared with C10.selector) reported under C11.immutable."""
    from ..embedded_cxx import selector_asts, method_decls, body_of, _calls_member, refers_to_member, _dominating_guard
    run = ctx.run
    try:
        sel, _mw, _hs = selector_asts(ctx)
    except Exception as exc:  # AnalysisError reported by selector_rules already
        return
    methods = method_decls(sel, 'MultiClientSelector')
    idx = methods.get('Index')
    if idx is None:
        return
    b = body_of(idx)
    for call in _calls_member(b, 'insert_or_assign') + _calls_member(b, 'emplace') + _calls_member(b, 'insert'):
        if refers_to_member(call, 'm_clients'):
            ok = _dominating_guard(b, call, 'm_finalConstructed')
            run.add('C11.immutable', 'dznpy.support_files.multi_client_selector', 'MultiClientSelector::Index',
                    'registration guard', ok,
                    'the only writer of m_clients refuses to run once final-constructed: the map is immutable while the '
                    'operational methods read it' if ok else
                    'Index() can modify m_clients after FinalConstruct() while other threads read it')



def _shared_log_rule(ctx):
    """The selector keeps one logger (a member of type ILogWithContext) that Select / Deselect / Index use from every client
    thread *before* they take the selection lock.  That is free of data races only if a call on it changes nothing in it: on
    clang's AST of the support headers every data member of ILogWithContext is const-qualified and none is `mutable` (a
    non-const member - a line buffer, a counter - written from the logging lambdas would be written concurrently)."""
    from ..embedded_cxx import extract_headers, Scratch, clang_ast
    from ..report import AnalysisError
    run = ctx.run
    mod = 'dznpy.support_files.ilog'
    try:
        hs = extract_headers(ctx)
        tu = ''.join(f'#include "{v["filename"]}"\n' for v in hs.values()) + '#include <mock_port.hh>\n'
        with Scratch() as sc:
            for v in hs.values():
                sc.write(v['filename'], v['contents'])
            objs = clang_ast(sc, 'log.cc', tu, 'ILogWithContext')
    except AnalysisError as exc:
        run.error('C11.shared-log', mod, 'body_hh', str(exc), str(exc))
        return

    def records(o, out):
        if isinstance(o, dict):
            if o.get('kind') == 'CXXRecordDecl' and o.get('name') == 'ILogWithContext' and o.get('completeDefinition'):
                out.append(o)
            for v in o.get('inner', []) or []:
                records(v, out)
        return out
    recs = [r for o in objs for r in records(o, [])]
    if not recs:
        run.error('C11.shared-log', mod, 'ILogWithContext', 'struct', 'struct ILogWithContext not found in the instantiated support headers')
        return
    fields = [f for f in recs[0].get('inner', []) if f.get('kind') == 'FieldDecl']
    if not fields:
        run.error('C11.shared-log', mod, 'ILogWithContext', 'fields', 'ILogWithContext has no data members: not the shape this rule knows')
        return
    for f in fields:
        qt = f.get('type', {}).get('qualType', '')
        ok = qt.startswith('const ') and not f.get('mutable')
        run.add('C11.shared-log', mod, 'ILogWithContext', f"member {f.get('name')}: {qt}", ok,
                f"`{f.get('name')}` is const: logging through the shared logger changes nothing in it" if ok else
                f"`{f.get('name')}` ({qt}{', mutable' if f.get('mutable') else ''}) can be written by a call on the logger: the selector's "
                f"one logger is used by all client threads outside the selection lock - concurrent Select / Deselect write it at the "
                f"same time (data race)")
