"""C13 - a build either returns a complete result or fails with a diagnosed error.

Decides: C13.escape (exception classes escaping Builder.build are library error types: every implicit
raiser and every explicit raise of a built-in type in the reachable set is discharged), C13.handlers
(no swallowing handler), C13.complete (single return of header + source + all six support files),
C13.terminates (recursion on smaller values, shrinking while loops), C13.rejects (each class of
invalid input has a dominating raise of a library error).
"""
from __future__ import annotations

import ast
from typing import Dict, List, Optional, Tuple

from ..model import FuncInfo, ClassInfo, iter_own_nodes, strip_opt
from ..absval import Abs, YES, NO
from ..exceptions import ExcAnalysis, Ob
from ..mutation import Mutations, is_fresh
from ..termination import Termination
from ..flow import always_raises, same_expr
from .shared import install_find_hooks, find_containers, valid_types_table, single_instance_gate

A1 = ('Dezyne identifiers (port, event, formal names) in the parsed model are non-empty strings: guaranteed by the '
      'Dezyne grammar, not enforced by the parser')


def make_analysis(ctx, entries: List[FuncInfo]):
    prog, cg = ctx.prog, ctx.cg
    abs_ = Abs(prog, cg, ctx.flow)
    install_find_hooks(ctx, abs_)
    ex = ExcAnalysis(prog, cg, ctx.flow, abs_)
    mut = Mutations(prog, cg)
    mut.solve()
    just = Justifications(ctx, ex, abs_, mut)
    ex.reasoned = just.lookup
    reach = cg.reachable(entries)
    ex.entry_fqs = {e.fq for e in entries}
    iters = ex.solve(reach)
    return ex, abs_, mut, reach, iters, just


class Justifications:
    """Reasoned table: each entry names a justification that is re-checked on every run."""

    def __init__(self, ctx, ex: ExcAnalysis, abs_: Abs, mut: Mutations):
        self.ctx, self.ex, self.abs, self.mut = ctx, ex, abs_, mut
        self.used: List[str] = []
        self.assumptions: List[str] = []
        self._cache: Dict[str, Optional[str]] = {}

    def lookup(self, ob: Ob) -> Optional[str]:
        fn = ob.fn
        prog = self.ctx.prog
        # --- A1: identifiers are non-empty -------------------------------------------------------------------
        if ob.kind == 'subscript' and isinstance(ob.node, ast.Subscript):
            e = self.ex.normalise(fn, ob.node.value)
            if isinstance(e, ast.Attribute) and e.attr == 'name':
                t = strip_opt(self.abs.type_at(fn, e.value, ob.node))
                # through properties: CppPortItf.name -> dzn_port_itf.port.name
                if t[0] == 'cls' and t[1] in prog.classes:
                    c = prog.classes[t[1]]
                    if c.module.name == 'dznpy.ast' and 'name' in c.fields:
                        return self._assume(A1)
                    m = prog.lookup_method(c, 'name')
                    if m is not None and m.is_property and self._returns_ast_name(m):
                        return self._assume(A1)
        if ob.kind == 'precondition' and 'PortSelect.' in ob.text and 'is empty/false' in ob.text:
            # a validator of PortSelect refusing an empty port name, called with the loop variable over the expected names
            if fn.cls is not None and fn.cls.name == 'PortsSemanticsCfg' and \
                    self._port_loop_over_expected(fn, self._call_with_port(ob.node)):
                return self._assume(A1) + ' (loop variable over the expected port names)'
        # --- inside get_single_instance: every result shape was interpreted (E7) -----------------------------------------------
        if fn.qualname == 'FindResult.get_single_instance' and ob.kind in ('unpack', 'index', 'subscript') :
            if '_gsi_foreign_exceptions' not in self.ctx.__dict__:
                single_instance_gate(self.ctx)
            foreign = self.ctx.__dict__.get('_gsi_foreign_exceptions')
            if foreign is not None and not foreign:
                return ('get_single_instance was interpreted on every result shape (0 / 1 / 2 / 3 items of each kind, with and '
                        'without a hint): nothing but FindError is ever raised')
        # --- FindResult element types --------------------------------------------------------------------------
        if ob.kind == 'raise' and fn.qualname == 'FindResult.__post_init__' and ob.exc == 'TypeError':
            return self._cached('findresult', self._findresult_types)
        # --- CppPorts single direction -----------------------------------------------------------------------------
        if ob.kind == 'raise' and fn.qualname == 'CppPorts.__post_init__' and ob.exc == 'ValueError':
            return self._cached('cppports', self._cppports_direction)
        # --- member_var of MTS ports ------------------------------------------------------------------------------
        if ob.kind == 'optional-deref' and isinstance(ob.node, ast.Attribute) and \
                isinstance(ob.node.value, ast.Attribute) and ob.node.value.attr == 'member_var':
            return self._member_var(fn, ob.node)
        # ... handed to a function that requires it (a call-site precondition `<p>.member_var is None` of the callee)
        if ob.kind == 'precondition' and isinstance(ob.node, ast.Call) and '.member_var` is None' in ob.text:
            for a_ in list(ob.node.args) + [k_.value for k_ in ob.node.keywords]:
                if isinstance(a_, ast.Attribute) and a_.attr == 'member_var' and isinstance(a_.value, ast.Name) and \
                        f'`{ast.unparse(a_)}` is None' in ob.text and self._is_mts_element(fn, a_.value, ob.node):
                    return self._cached('mts_member_var', self._mts_implies_member_var)
        # --- lines setter fed by trim_list ---------------------------------------------------------------------------
        if ob.kind == 'precondition' and 'TextBlock.lines.setter' in ob.text and fn.qualname == 'TextBlock.trim':
            return self._cached('trim', self._trim_sublist)
        return None

    def _assume(self, text: str) -> str:
        if text not in self.assumptions:
            self.assumptions.append(text)
        return 'assumption A1: ' + text

    def _cached(self, key: str, f):
        if key not in self._cache:
            self._cache[key] = f()
        return self._cache[key]

    def _returns_ast_name(self, m: FuncInfo) -> bool:
        for n in iter_own_nodes(m.node):
            if isinstance(n, ast.Return) and isinstance(n.value, ast.Attribute) and n.value.attr == 'name':
                t = strip_opt(self.ctx.cg.env(m).type_of(n.value.value))
                if t[0] == 'cls' and t[1].startswith('dznpy.ast.'):
                    return True
        return False

    @staticmethod
    def _call_with_port(node: ast.AST) -> ast.AST:
        return node

    def _port_loop_over_expected(self, fn: FuncInfo, call: ast.AST) -> bool:
        if not isinstance(call, ast.Call) or not call.args or not isinstance(call.args[0], ast.Name):
            return False
        # the enclosing loop / comprehension (any nesting level) that binds the argument
        name = call.args[0].id
        p = self.ctx.prog.parent(call)
        it = None
        while p is not None and p is not fn.node and it is None:
            if isinstance(p, ast.For) and isinstance(p.target, ast.Name) and p.target.id == name:
                it = p.iter
            elif isinstance(p, (ast.ListComp, ast.SetComp, ast.GeneratorExp, ast.DictComp)):
                for g in p.generators:
                    if isinstance(g.target, ast.Name) and g.target.id == name:
                        it = g.iter
            p = self.ctx.prog.parent(p)
        if it is None:
            return False
        return isinstance(it, ast.Name) and it.id in [a.arg for a in fn.params()]

    def _findresult_types(self) -> Optional[str]:
        try:
            valid = {c.fq for c in valid_types_table(self.ctx)}
            names = []
            for fname in ('find_fqn', 'find_any'):
                conts, _loop = find_containers(self.ctx, fname)
                for field, elem in conts:
                    if elem is None or elem.fq not in valid:
                        return None
                    names.append(field)
                fn = self.ctx.prog.func('ast_view', fname)
                # the result list is only appended with loop elements of those containers
                for n in iter_own_nodes(fn.node):
                    if isinstance(n, ast.Call) and isinstance(n.func, ast.Attribute) and n.func.attr == 'append' \
                            and isinstance(n.func.value, ast.Name) and n.func.value.id == 'result':
                        if not (n.args and isinstance(n.args[0], ast.Name) and n.args[0].id == 'element'):
                            return None
            return (f'items of every FindResult built in ast_view come from FileContents containers '
                    f'{sorted(set(names))} whose element classes are all in valid_types (tables compared on this run)')
        except Exception:
            return None

    def _cppports_direction(self) -> Optional[str]:
        prog, flow = self.ctx.prog, self.ctx.flow
        cde = prog.func('adv_shell.core.processing', 'create_dzn_elements')
        pd = prog.cls('ast', 'PortDirection')
        if len(pd.enum_members) != 2:
            return None
        from .shared import dzn_elements_by_interpretation
        sem_de = dzn_elements_by_interpretation(self.ctx)
        by_interpretation = sem_de is not None and not sem_de['C03.injected']
        if sem_de is not None and not by_interpretation:
            return None
        if not by_interpretation:
            r_ = self._lists_by_direction(cde, pd)
            if r_ is None:
                return None
        # every CppPorts of the package is a comprehension over DznElements.provides_ports or .requires_ports - written in
        # place, or in a helper that is handed one of the two lists at each of its call sites
        cp = prog.cls('adv_shell.common', 'CppPorts')
        sites = self.ex._ctor_sites(cp)
        if not sites:
            return None

        def side_list(f_: FuncInfo, e_: ast.expr, depth: int = 0) -> bool:
            if isinstance(e_, ast.Attribute) and e_.attr in ('provides_ports', 'requires_ports'):
                return True
            if depth < 3 and isinstance(e_, ast.Name) and e_.id in [a_.arg for a_ in f_.params()] and \
                    e_.id not in self.ctx.cg.env(f_)._assign_sites:
                callers = [(c_, n_) for c_, n_, _k in self.ctx.cg.callers(f_) if isinstance(n_, ast.Call)]
                if not callers:
                    return False
                for c_, n_ in callers:
                    b_ = prog.bind_call(c_.module, n_, f_)
                    if e_.id not in b_ or not side_list(c_, b_[e_.id], depth + 1):
                        return False
                return True
            return False
        for sfn, call in sites:
            arg = call.args[0] if call.args else next((k.value for k in call.keywords if k.arg == 'ports'), None)
            if not (isinstance(arg, ast.ListComp) and len(arg.generators) == 1 and side_list(sfn, arg.generators[0].iter)):
                return None
        return ('every CppPorts is a comprehension over DznElements.provides_ports / requires_ports, and ' +
                ('create_dzn_elements puts exactly the provides ports into the first and requires ports into the second (interpreted on '
                 'three port orders, E7)' if by_interpretation else
                 'create_dzn_elements fills them in the two arms of `port.direction == PROVIDES` of a two-member enum') +
                ' (verified on this run)')

    def _lists_by_direction(self, cde: FuncInfo, pd: ClassInfo) -> Optional[bool]:
        """Shape form: the two port lists of create_dzn_elements are filled in the two arms of the direction test."""
        prog = self.ctx.prog
        seen = {'provides_ports': 0, 'requires_ports': 0}
        # which local list becomes which field of the returned DznElements (the local names do not matter)
        de = prog.cls('adv_shell.common', 'DznElements')
        role_of: Dict[str, str] = {}
        for n in iter_own_nodes(cde.node):
            if isinstance(n, ast.Call) and prog.resolve_expr_symbol(cde.module, n.func) is de:
                flds = list(prog.class_fields(de))
                for i, a in enumerate(n.args):
                    if isinstance(a, ast.Name) and i < len(flds):
                        role_of[a.id] = flds[i]
                for k in n.keywords:
                    if k.arg and isinstance(k.value, ast.Name):
                        role_of[k.value.id] = k.arg
        # Per direction of the port (a two-member enum): which list does an append reach?  Evaluated over the dominating
        # conditions and a conditional receiver (`(a if is_provides else b).append(x)`), whatever the branching looks like.
        from .shared import eval_guard, reach_under

        def local_def(nm: ast.Name):
            defs = [a for a in iter_own_nodes(cde.node) if isinstance(a, ast.Assign) and len(a.targets) == 1
                    and isinstance(a.targets[0], ast.Name) and a.targets[0].id == nm.id]
            return defs[0].value if len(defs) == 1 else None

        subjects = set()
        for direction, want_role in (('PROVIDES', 'provides_ports'), ('REQUIRES', 'requires_ports')):
            def leaf(e, direction=direction):
                if isinstance(e, ast.Compare) and len(e.ops) == 1 and isinstance(e.ops[0], (ast.Eq, ast.NotEq, ast.Is, ast.IsNot)) \
                        and isinstance(e.left, ast.Attribute) and e.left.attr == 'direction':
                    sym = prog.resolve_expr_symbol(cde.module, e.comparators[0]) \
                        if isinstance(e.comparators[0], (ast.Name, ast.Attribute)) else None
                    if isinstance(sym, tuple) and sym[0] == 'enum_member' and sym[1] is pd:
                        subjects.add(ast.unparse(e.left.value))
                        r = sym[2] == direction
                        return r if isinstance(e.ops[0], (ast.Eq, ast.Is)) else not r
                return None
            for n in iter_own_nodes(cde.node):
                if not (isinstance(n, ast.Call) and isinstance(n.func, ast.Attribute) and n.func.attr in ('append', 'extend', 'insert')):
                    continue
                recv = n.func.value
                cands = [recv.body, recv.orelse] if isinstance(recv, ast.IfExp) else [recv]
                if not all(isinstance(c_, ast.Name) and role_of.get(c_.id) in seen for c_ in cands):
                    if any(isinstance(c_, ast.Name) and role_of.get(c_.id) in seen for c_ in cands):
                        return None
                    continue
                r = reach_under(self.ctx, n, leaf, local_def, relevant=lambda e: '.direction' in ast.unparse(e))
                if r is False:
                    continue
                # r is None: the append may or may not happen for such a port (e.g. the injected filter): if it does, the
                # receiver must still be the right list
                if isinstance(recv, ast.IfExp):
                    t = eval_guard(recv.test, leaf, local_def)
                    if t is None:
                        return None
                    recv = recv.body if t else recv.orelse
                if role_of[recv.id] != want_role:
                    return None
                # the appended DznPortItf is built from the port whose direction was tested
                arg = n.args[0] if n.args else None
                if isinstance(arg, ast.Name):
                    arg = local_def(arg)
                if not (isinstance(arg, ast.Call) and arg.args and len(subjects) == 1 and ast.unparse(arg.args[0]) in subjects):
                    return None
                seen[want_role] += 1
        if not all(seen.values()):
            return None
        return True

    def _member_var(self, fn: FuncInfo, n: ast.Attribute) -> Optional[str]:
        """`p.member_var.x` where p ranges over `<CppPorts>.mts_ports` (in this function, or in every caller that hands p in)."""
        base = n.value.value
        if not isinstance(base, ast.Name):
            return None
        if not self._is_mts_element(fn, base, n):
            return None
        why = self._cached('mts_member_var', self._mts_implies_member_var)
        return why

    def _is_mts_element(self, fn: FuncInfo, base: ast.Name, n: ast.AST, depth: int = 0) -> bool:
        prog = self.ctx.prog
        if depth > 3:
            return False
        # p is a loop / comprehension variable over a name or expression that is `.mts_ports`
        it = None
        for x in iter_own_nodes(fn.node):
            if isinstance(x, (ast.For, ast.comprehension)) and isinstance(x.target, ast.Name) and x.target.id == base.id:
                # the loop must enclose the access
                it = x.iter
                encl = x if isinstance(x, ast.For) else prog.parent(x)
                if any(y is n for y in ast.walk(encl)):
                    break
                it = None
        if it is not None:
            return self._is_mts_ports(fn, it)
        if base.id in [a_.arg for a_ in fn.params()] and base.id not in self.ctx.cg.env(fn)._assign_sites:
            callers = [(c_, nd_) for c_, nd_, _k in self.ctx.cg.callers(fn) if isinstance(nd_, ast.Call)]
            if not callers:
                return False
            for c_, nd_ in callers:
                a_ = prog.bind_call(c_.module, nd_, fn).get(base.id)
                if not isinstance(a_, ast.Name) or not self._is_mts_element(c_, a_, nd_, depth + 1):
                    return False
            return True
        return False

    def _is_mts_ports(self, fn: FuncInfo, e: ast.expr, depth=0) -> bool:
        if depth > 4:
            return False
        if isinstance(e, ast.Attribute) and e.attr == 'mts_ports':
            return True
        if isinstance(e, ast.BinOp) and isinstance(e.op, ast.Add):
            return self._is_mts_ports(fn, e.left, depth + 1) and self._is_mts_ports(fn, e.right, depth + 1)
        prog = self.ctx.prog
        if isinstance(e, ast.Attribute):
            # a field / property of a record of the package that only ever holds such a selection
            t = strip_opt(self.ex.abs.type_at(fn, e.value, e))
            cls = prog.classes.get(t[1]) if t[0] == 'cls' else None
            if cls is None:
                return False
            m = prog.lookup_method(cls, e.attr)
            if m is not None and m.is_property:
                rets = [r for r in iter_own_nodes(m.node) if isinstance(r, ast.Return)]
                return bool(rets) and all(r.value is not None and self._is_mts_ports(m, r.value, depth + 1) for r in rets)
            if cls.is_dataclass and cls.frozen and e.attr in prog.class_fields(cls) and prog.lookup_method(cls, '__init__') is None \
                    and prog.lookup_method(cls, '__post_init__') is None:
                sites = [(f_, c_) for f_, c_ in self.ex._ctor_sites(cls)]
                for m_ in cls.methods.values():
                    if getattr(m_, 'is_classmethod', False):
                        sites += [(m_, c_) for c_ in iter_own_nodes(m_.node)
                                  if isinstance(c_, ast.Call) and isinstance(c_.func, ast.Name) and c_.func.id == 'cls']
                if not sites:
                    return False
                fields = list(prog.class_fields(cls))
                for f_, c_ in sites:
                    b_ = {fields[i]: a_ for i, a_ in enumerate(c_.args) if i < len(fields) and not isinstance(a_, ast.Starred)}
                    b_.update({k_.arg: k_.value for k_ in c_.keywords if k_.arg})
                    if any(isinstance(a_, ast.Starred) for a_ in c_.args) or any(k_.arg is None for k_ in c_.keywords):
                        return False
                    if e.attr not in b_ or not self._is_mts_ports(f_, b_[e.attr], depth + 1):
                        return False
                return True
            return False
        if isinstance(e, ast.Name):
            sites = self.ctx.cg.env(fn)._assign_sites.get(e.id, [])
            if not sites and e.id in [a_.arg for a_ in fn.params()]:
                # a parameter: every call site in the package hands in such a selection
                callers = [(c_, nd_) for c_, nd_, _k in self.ctx.cg.callers(fn) if isinstance(nd_, ast.Call)]
                if not callers:
                    return False
                for c_, nd_ in callers:
                    a_ = prog.bind_call(c_.module, nd_, fn).get(e.id)
                    if a_ is None or not self._is_mts_ports(c_, a_, depth + 1):
                        return False
                return True
            if not sites:
                return False
            for s in sites:
                if s[0] == 'expr':
                    if not self._is_mts_ports(fn, s[1], depth + 1):
                        return False
                elif s[0] == 'item' and s[1][0] == 'expr' and isinstance(s[1][1], ast.Tuple):
                    if not self._is_mts_ports(fn, s[1][1].elts[s[2]], depth + 1):
                        return False
                else:
                    return False
            return True
        if isinstance(e, ast.ListComp) and len(e.generators) == 1 and isinstance(e.elt, ast.Name) and \
                isinstance(e.generators[0].target, ast.Name) and e.elt.id == e.generators[0].target.id:
            return self._is_mts_ports(fn, e.generators[0].iter, depth + 1)   # a filtered sub-list
        return False

    def _mts_implies_member_var(self) -> Optional[str]:
        return self._mts_implies_member_var_by_shape() or self._mts_implies_member_var_by_evaluation()

    def _mts_implies_member_var_by_evaluation(self) -> Optional[str]:
        """The same fact read off the template evaluator (E4), for code that derives the decision through intermediate
        values (a flavour enum computed from the semantics, a `match`): (b) the filter of `mts_ports`, evaluated for each
        port kind, rejects the single-threaded kinds; (c) the one function that builds CppPortItf, evaluated for each
        multi-threaded kind, yields an object whose member variable is an object - and nothing else in the package
        constructs CppPortItf."""
        from ..template import Evaluator, TObj, TList, RepL, TAlt, Sym, t_cls
        from ..links import Scenario, PORT_KINDS
        prog = self.ctx.prog
        cp = prog.cls('adv_shell.common', 'CppPorts')
        cpi = prog.cls('adv_shell.common', 'CppPortItf')
        if prog.lookup_method(cp, 'mts_ports') is None:
            return None
        sites = self.ex._ctor_sites(cpi)
        top = set()
        for sfn, _c in sites:
            f_ = sfn
            while f_.parent is not None:
                f_ = f_.parent
            top.add(f_)
        dpi = prog.cls('adv_shell.common', 'DznPortItf')
        if len(top) == 1:
            entries = list(top)
        else:
            # several functions construct ports (a factory class with one method per kind): the public functions that turn a
            # DznPortItf into a CppPortItf are the entries; every constructing function must be reachable from one of them
            def makes_port(f_):
                rt = prog.ann_to_type(f_.module, f_.node.returns, f_.cls) if f_.node.returns is not None else ('any',)
                takes = any(prog.ann_to_type(f_.module, a_.annotation, f_.cls) == t_cls(dpi.fq) for a_ in f_.params() if a_.annotation)
                return rt == t_cls(cpi.fq) and takes and not f_.name.startswith('_')
            entries = [f_ for f_ in prog.all_functions() if makes_port(f_)]
            if not entries:
                return None
            reach = {f_.fq for f_ in self.ctx.cg.reachable(entries)} | {f_.fq for f_ in entries}
            if any(f_.fq not in reach for f_ in top):
                return None
        builder = entries[0]
        try:
            ev = Evaluator(prog, self.ctx.cg)
            ports = ev.getattr(ev.param_sym('cpp_ports', t_cls(cp.fq)), 'mts_ports', builder, 1)
            vals = [ev.eval_entry(e_) for e_ in entries]
        except Exception:       # pylint: disable=broad-except
            return None
        if not (isinstance(ports, TList) and len(ports.items) == 1 and isinstance(ports.items[0], RepL)):
            return None
        src = ports.items[0].src
        if not (isinstance(src.base, Sym) and src.base.path[-1:] == ('ports',)):
            return None
        n_mts = 0
        for kind, k in PORT_KINDS.items():
            sc = Scenario(kind=kind)
            verdicts = [sc.decide(f) for f in src.filters]
            if k['semantics'] != 'MTS':
                if not any(v is False for v in verdicts):
                    return None          # a single-threaded port may be selected
                continue
            n_mts += 1
            for val in vals:
                obj = sc.select(val)
                if not isinstance(obj, TObj) or obj.cls is not cpi or not isinstance(obj.fields.get('member_var'), TObj):
                    return None
        if not n_mts:
            return None
        return (f'CppPorts.mts_ports rejects every single-threaded port kind, and {", ".join(e_.qualname for e_ in entries)} - through '
                f'which every CppPortItf is constructed - evaluated for each of the {n_mts} multi-threaded port kinds yields a port with '
                f'a member variable object (template evaluation, verified on this run)')

    def _mts_implies_member_var_by_shape(self) -> Optional[str]:
        prog = self.ctx.prog
        cp = prog.cls('adv_shell.common', 'CppPorts')
        mts = cp.methods.get('mts_ports')
        rs = prog.cls('adv_shell.types', 'RuntimeSemantics')
        # (b) mts_ports filters semantics == MTS
        ok_filter = False
        if mts is not None:
            for n in iter_own_nodes(mts.node):
                if isinstance(n, ast.Return) and isinstance(n.value, ast.ListComp) and len(n.value.generators) == 1:
                    g = n.value.generators[0]
                    for c in g.ifs:
                        if isinstance(c, ast.Compare) and isinstance(c.ops[0], ast.Eq) and \
                                ast.unparse(c.left).endswith('.semantics'):
                            sym = prog.resolve_expr_symbol(mts.module, c.comparators[0])
                            if isinstance(sym, tuple) and sym[0] == 'enum_member' and sym[2] == 'MTS':
                                ok_filter = True
        if not ok_filter:
            return None
        # (c) every construction of CppPortItf with a possibly-None member_var happens in a function that is only
        # called when semantics == STS
        cpi = prog.cls('adv_shell.common', 'CppPortItf')
        fields = list(prog.class_fields(cpi).keys())
        sites = self.ex._ctor_sites(cpi)
        if not sites:
            return None
        for sfn, call in sites:
            args = {}
            for i, a in enumerate(call.args):
                args[fields[i]] = a
            for k in call.keywords:
                args[k.arg] = k.value
            mv = args.get('member_var')
            if mv is not None and self.abs.at(sfn, mv, call).none == NO:
                continue
            # member_var absent/None: all call sites of sfn must be under semantics == STS (or != MTS)
            callers = [(c, nd) for c, nd, _k in self.ctx.cg.callers(sfn) if isinstance(nd, ast.Call)]
            if not callers:
                return None
            for cfn, cnode in callers:
                good = False
                for cond, pol in self.abs.facts_at(cnode):
                    if isinstance(cond, ast.Compare) and isinstance(cond.ops[0], ast.Eq) and \
                            ast.unparse(cond.left).endswith('.semantics'):
                        sym = prog.resolve_expr_symbol(cfn.module, cond.comparators[0])
                        if isinstance(sym, tuple) and sym[0] == 'enum_member':
                            if (sym[2] == 'STS' and pol) or (sym[2] == 'MTS' and not pol and len(rs.enum_members) == 2):
                                good = True
                if not good:
                    return None
        return ('CppPorts.mts_ports selects semantics == MTS, and every CppPortItf built without a member variable is '
                'built by a function that is only called under semantics == STS (sibling agreement verified on this '
                'run)')

    def _trim_sublist(self) -> Optional[str]:
        prog = self.ctx.prog
        tl = prog.func('misc_utils', 'trim_list')
        rets = self.mut.returns.get(tl.fq, set())
        for r in rets:
            if r[0] == 'param' and r[1] == 'list_to_trim' and not r[2]:
                continue
            if is_fresh(r) and all(h[0] == 'param' and h[1] == 'list_to_trim' for _p, h in r[1]):
                continue
            return None
        # the argument is self.lines (List[str])
        trim = prog.cls('text_gen', 'TextBlock').methods.get('trim')
        for n in iter_own_nodes(trim.node):
            if isinstance(n, ast.Call) and isinstance(n.func, ast.Name) and n.func.id == 'trim_list':
                t = strip_opt(self.ctx.cg.env(trim).type_of(n.args[0]))
                if t == ('list', ('str',)):
                    return ('trim_list returns its argument or slices of it (ownership summary), and the argument is '
                            'self.lines: List[str]')
        return None


def check(ctx):
    run, prog, cg = ctx.run, ctx.prog, ctx.cg
    run.explanation = (
        'Decided: C13.escape - exception-escape analysis from Builder.build over the call graph: every implicit raiser '
        '(subscripts, Optional dereferences, attributes missing on a (union) type, pop/next/index, unpacking, arity, '
        'undefined / possibly unbound names, division, str/None addition) and every explicit raise of a built-in '
        'exception type is an obligation discharged by a dominating guard, a class invariant, a constructor-site '
        'correlation, call-site evaluation of validator preconditions or a reasoned table entry re-verified on this '
        'run; C13.handlers - no swallowing handler; C13.complete - one unconditional return of header, source and all '
        'six support files; C13.terminates - recursion on structurally smaller values, shrinking while loops; '
        'C13.rejects - each listed class of invalid input has a dominating raise of a library error. Not decided: '
        '"valid inputs always succeed" (needs the space of valid inputs), RecursionError from the depth of finite '
        'inputs, memory exhaustion.')
    run.assume('cfg is a Configuration whose fields have their annotated types and cfg.ast_fc satisfies the parser\'s '
               'output invariants (C15): "all models and configurations" is read as all well-typed ones')
    run.assume('stdlib / builtin calls other than the modelled ones (subscript, pop, next, index, int, division, '
               'unpacking, getattr, min/max) do not raise for well-typed arguments')
    run.trusted = ['python ast module', 'dznverif E1 program model / type inference', 'dznverif E2 path conditions',
                   'dznverif E3a exception escape analysis', 'dznverif E3b termination shape']

    entry = prog.func('adv_shell', 'Builder.build')
    ex, abs_, mut, reach, iters, just = make_analysis(ctx, [entry])
    run.stats['reachable_functions'] = len(reach)
    run.stats['escape_fixpoint_iterations'] = iters
    lib = sorted(c.fq for c in prog.classes.values() if c.is_exception)
    run.stats['library_error_types'] = [x.split('.')[-1] for x in lib]
    if len(lib) < 6:
        run.error('C13.escape', '-', '-', 'library error types', f'only {len(lib)} exception classes defined in the package')

    esc = ex.escapes[entry.fq]
    escaping_ids = {oid for (_exc, oid) in esc}
    n_ob = 0
    for fq, obs in ex.obligations.items():
        for o in obs:
            n_ob += 1
            fn = o.fn
            if o.explicit and ex.is_library_error(o.exc):
                run.holds('C13.escape', fn.module.name, fn.qualname, o.node,
                          f'raises library error {o.exc.split(".")[-1]}', node=o.node, nontrivial=False)
                continue
            if o.discharged:
                run.holds('C13.escape', fn.module.name, fn.qualname, o.node,
                          f'{o.kind} ({o.exc}): {o.discharged}', node=o.node)
                continue
            if o.ident in escaping_ids:
                chain = next(ch for (e, oid), (ob, ch) in esc.items() if oid == o.ident)
                if o.guard_opaque and fn.name == '__post_init__' and fn.cls is not None:
                    why = _refuted_by_templates(ctx, ex, fn.cls)
                    if why:
                        run.holds('C13.escape', fn.module.name, fn.qualname, o.node, f'{o.kind} ({o.exc}): {why}', node=o.node)
                        continue
                if o.guard_opaque:
                    # an explicit raise of a foreign error type under a condition that is outside the atom language (a
                    # relation between several values, e.g. `len(self.a) != len(self.b)`): the analysis can neither refute
                    # nor witness it.  Undecided - not a verdict.
                    conds = ' and '.join(('' if p_ else 'not ') + ast.unparse(c)[:60] for c, p_ in o.facts[-2:])
                    run.error('C13.escape', fn.module.name, fn.qualname, o.node,
                              f'undecided: `{o.text}` is guarded by `{conds}`, which this analysis cannot evaluate: whether '
                              f'{o.exc} can escape Builder.build is not decided', node=o.node)
                    continue
                run.violation('C13.escape', fn.module.name, fn.qualname, o.node,
                              f'{o.exc} may escape Builder.build - not one of the library\'s error types: {o.text} | '
                              f'path: ' + ' => '.join(chain[:6]), node=o.node, kind=o.kind)
            else:
                # conditional summary still pending at callers, or caught on the way
                pending = any(cr.origin is o for crs in ex.cond.values() for cr in crs)
                run.holds('C13.escape', fn.module.name, fn.qualname, o.node,
                          f'{o.kind} ({o.exc}): ' + ('argument validator: its conditions are refuted at every call '
                                                     'site on the paths from build' if pending else
                                                     'caught / converted before it reaches build'), node=o.node)
    for cr in ex.cond[entry.fq]:
        o = cr.origin
        run.violation('C13.escape', entry.module.name, entry.qualname, o.node,
                      f'{cr.exc} may escape Builder.build when ' + ', '.join(ex._atom_text(a, {}) for a in cr.atoms)
                      + ' | path: ' + ' => '.join(cr.chain[:6]), node=o.node)
    run.stats['obligations_total'] = n_ob
    run.stats['unresolved_calls'] = [f'{f.fq}: {ast.unparse(n)[:60]}' for f, n, _x in ex.unresolved_calls]
    run.stats['validator_args_of_unknown_static_type_assumed_well_typed'] = [
        f'{f.fq}:{getattr(n, "lineno", 0)} {t}' for f, n, t in ex.assumed_well_typed]
    for f, n, nm in ex.unresolved_calls:
        run.error('C13.escape', f.module.name, f.qualname, n,
                  f'call of `{nm}` could not be resolved: its exceptions are unknown', node=n)
    for a in just.assumptions:
        run.assume(a)
    escaped_all = sorted({e.split('.')[-1] for (e, _i) in esc})
    run.stats['exception_classes_escaping_build'] = escaped_all
    run.floor('C13.escape', 80)

    # ---- C13.handlers ---------------------------------------------------------------------------------------------
    n_h = 0
    for fn in reach:
        for n in iter_own_nodes(fn.node):
            if isinstance(n, ast.ExceptHandler):
                n_h += 1
                broad = n.type is None or (isinstance(n.type, ast.Name) and n.type.id in ('Exception', 'BaseException'))
                reraises = always_raises(n.body)
                ok = reraises and not broad
                run.add('C13.handlers', fn.module.name, fn.qualname, n, ok,
                        'handler converts the exception and re-raises' if ok else
                        ('bare/broad except' if broad else 'handler swallows the exception (no raise on every path): '
                         'the build continues with an undiagnosed failure'), node=n)
    if n_h == 0:
        run.holds('C13.handlers', '-', '-', 'no handlers', 'no exception handler in the reachable set',
                  nontrivial=False)

    # ---- C13.complete ---------------------------------------------------------------------------------------------------
    _complete(ctx, entry)

    # ---- C13.terminates --------------------------------------------------------------------------------------------------
    term = Termination(prog, cg, ctx.flow, mut, abs_)
    for fn, node, callee, ok, msg in term.recursion_instances(reach):
        run.add('C13.terminates', fn.module.name, fn.qualname, node, ok,
                f'recursive call of {callee.qualname}: {msg}', node=node)
    for fn, node, kind, ok, msg in term.loop_instances(reach):
        run.add('C13.terminates', fn.module.name, fn.qualname, node if kind != 'for' else node.iter, ok, msg,
                node=node, nontrivial=(kind != 'for'))
    run.assume('objects handed to the text layer form a finite acyclic structure: rendering recursion through '
               'str() of untyped values follows object nesting and is not followed by the termination rule')
    run.floor('C13.terminates', 20)

    # ---- C13.rejects --------------------------------------------------------------------------------------------------------
    _rejects(ctx, ex, abs_)


def _refuted_by_templates(ctx, ex: ExcAnalysis, cls: ClassInfo) -> Optional[str]:
    """Relational consistency checks in `__post_init__` (`len(self.a) != len(self.b)`, `[x for x in self.a if x not in self.b]`):
    every function that constructs the class is evaluated with the template evaluator (E4), which knows the *shape* of list
    values (which repetition over which source, filtered or not); when at every construction the raising conditions
    evaluate to false, the raise cannot fire."""
    cache = getattr(ctx, '_post_init_probe', None)
    if cache is None:
        cache = ctx._post_init_probe = {}
    if cls.fq in cache:
        return cache[cls.fq]
    from ..template import Evaluator, FALSE
    sites = ex._ctor_sites(cls)
    why = None
    if sites:
        conds = []
        ok = True
        for f in {f_.fq: f_ for f_, _c in sites}.values():
            ev = Evaluator(ctx.prog, ctx.cg)
            ev.probe_post_init = {cls.fq: []}
            try:
                ev.eval_entry(f)
            except Exception:       # noqa: BLE001 - the evaluator is best effort here
                ok = False
                break
            got = ev.probe_post_init[cls.fq]
            if not getattr(ev, 'probe_hits', 0):
                ok = False          # the evaluation never reached a construction: nothing was probed
                break
            conds.extend(got)
        if ok and all(c == FALSE for c in conds):
            why = (f'the consistency checks of {cls.name}.__post_init__ evaluate to false at all {len(sites)} construction sites '
                   f'(template evaluator: the fields are repetitions over the same source)')
    cache[cls.fq] = why
    return why


class _Resolved:
    def __init__(self, value, index):
        self.value, self.index = value, index


def _complete(ctx, build: FuncInfo):
    run, prog = ctx.run, ctx.prog
    rets = [n for n in iter_own_nodes(build.node) if isinstance(n, ast.Return)]
    if len(rets) != 1 or prog.parent(rets[0]) is not build.node or rets[0] is not build.node.body[-1]:
        for r in rets or [build.node]:
            run.violation('C13.complete', build.module.name, build.qualname, r,
                          'build() must have a single unconditional return as its last statement; an early or '
                          'conditional return can hand out a partial file set', node=r)
        return
    val = rets[0].value
    sym = prog.resolve_expr_symbol(build.module, val.func) if isinstance(val, ast.Call) else None
    if not (isinstance(sym, ClassInfo) and sym.name == 'CodeGenResult'):
        run.violation('C13.complete', build.module.name, build.qualname, rets[0], 'return value is not a CodeGenResult',
                      node=rets[0])
        return
    files = val.args[0] if val.args else next((k.value for k in val.keywords if k.arg == 'files'), None)
    env = ctx.cg.env(build)
    body = build.node.body

    def resolve(e, before=None, depth=0):
        """Reaching definition of a name among the unconditional top-level statements of build()."""
        before = len(body) - 1 if before is None else before
        if isinstance(e, ast.Name) and depth < 8:
            for k in range(before - 1, -1, -1):
                s = body[k]
                if isinstance(s, ast.Assign) and len(s.targets) == 1 and isinstance(s.targets[0], ast.Name) \
                        and s.targets[0].id == e.id:
                    return _Resolved(s.value, k)
                if any(isinstance(x, ast.Name) and x.id == e.id and isinstance(x.ctx, ast.Store) for x in ast.walk(s)):
                    return e       # assigned in a nested / conditional position: not resolvable
        return e

    parts: List[ast.expr] = []

    def flat(e, before=None):
        r = resolve(e, before)
        if isinstance(r, _Resolved):
            e, before = r.value, r.index
        if isinstance(e, ast.BinOp) and isinstance(e.op, ast.Add):
            flat(e.left, before)
            flat(e.right, before)
        elif isinstance(e, (ast.List, ast.Tuple)):
            for x in e.elts:
                if isinstance(x, ast.Starred):
                    flat(x.value, before)           # [a, *rest] is [a] + rest
                    continue
                rx = resolve(x, before)
                parts.append(rx.value if isinstance(rx, _Resolved) else rx)
        else:
            parts.append(('list', e))
    if files is None:
        run.violation('C13.complete', build.module.name, build.qualname, rets[0], 'CodeGenResult without files', node=rets[0])
        return
    flat(files)
    b = prog.cls('adv_shell', 'Builder')
    producers = {m.name for m in b.methods.values()
                 if m.name != 'build' and prog.ann_to_type(m.module, m.node.returns, b) == ('cls', 'dznpy.text_gen.GeneratedContent')}
    got = []
    as_list = 0
    for p in parts:
        if isinstance(p, tuple):
            e = p[1]
            recv_t = strip_opt(env.type_of(e.func.value)) if isinstance(e, ast.Call) and isinstance(e.func, ast.Attribute) else ('any',)
            if recv_t == ('any',) and isinstance(e, ast.Call) and isinstance(e.func, ast.Attribute) and \
                    isinstance(e.func.value, ast.Attribute):
                # <x>.<field>: the annotated type of the field, whatever the type of x is known to be
                cands = {prog.ann_to_type(c_.module, c_.fields[e.func.value.attr][0], c_)
                         for c_ in prog.classes.values() if e.func.value.attr in c_.fields}
                if len(cands) == 1:
                    recv_t = strip_opt(next(iter(cands)))
            if isinstance(e, ast.Call) and isinstance(e.func, ast.Attribute) and e.func.attr == 'as_list' and \
                    recv_t == ('cls', 'dznpy.adv_shell.common.SupportFiles'):
                as_list += 1
            else:
                run.violation('C13.complete', build.module.name, build.qualname, rets[0],
                              f'unrecognised part of the result list: `{ast.unparse(e)[:60]}`', node=rets[0])
                return
        elif isinstance(p, ast.Call) and isinstance(p.func, ast.Attribute) and isinstance(p.func.value, ast.Name) \
                and p.func.value.id == 'self':
            got.append(p.func.attr)
        else:
            run.violation('C13.complete', build.module.name, build.qualname, rets[0],
                          f'unrecognised element of the result list: `{ast.unparse(p)[:60]}`', node=rets[0])
            return
    # the two listed producers are different methods that return a GeneratedContent (other helpers may return one too)
    ok = len(got) == 2 and len(set(got)) == 2 and set(got) <= producers and as_list == 1
    producers = set(got) & producers if ok else producers
    run.add('C13.complete', build.module.name, build.qualname, rets[0], ok,
            f'result = {sorted(got)} + SupportFiles.as_list()' if ok else
            f'result list is incomplete or duplicated: producers {sorted(producers)}, listed {sorted(got)}, '
            f'as_list() x{as_list}', node=rets[0])
    # each producer returns one GeneratedContent unconditionally
    for name in sorted(producers):
        m = b.methods[name]
        rs = [n for n in iter_own_nodes(m.node) if isinstance(n, ast.Return)]
        def yields_content(call, depth=0) -> bool:
            if not isinstance(call, ast.Call) or depth > 3:
                return False
            nm = getattr(call.func, 'id', getattr(call.func, 'attr', ''))
            if nm == 'GeneratedContent':
                return True
            h = b.methods.get(nm)
            if h is not None and prog.ann_to_type(h.module, h.node.returns, b) == ('cls', 'dznpy.text_gen.GeneratedContent'):
                hrs = [n for n in iter_own_nodes(h.node) if isinstance(n, ast.Return)]
                return len(hrs) == 1 and hrs[0] is h.node.body[-1] and yields_content(hrs[0].value, depth + 1)
            return False
        ok = len(rs) == 1 and rs[0] is m.node.body[-1] and yields_content(rs[0].value)
        run.add('C13.complete', m.module.name, m.qualname, rs[0] if rs else m.qualname, ok,
                'single unconditional return of a GeneratedContent' if ok else
                'may return without producing its file', node=rs[0] if rs else m.node)
    # as_list returns every field; the six create_header calls are unconditional top-level statements of build
    sf = prog.cls('adv_shell.common', 'SupportFiles')
    fields = list(prog.class_fields(sf).keys())
    listed = []
    al = sf.methods.get('as_list')
    if al is not None:
        for n in iter_own_nodes(al.node):
            if isinstance(n, ast.Return) and isinstance(n.value, ast.List):
                listed = [e.attr for e in n.value.elts if isinstance(e, ast.Attribute)]
    ok = sorted(listed) == sorted(fields) and len(fields) == 6
    run.add('C13.complete', sf.module.name, 'SupportFiles.as_list', 'as_list field set', ok,
            'as_list returns all six support files' if ok else f'as_list returns {listed} of fields {fields}')
    n_ch = 0
    for n in iter_own_nodes(build.node):
        if isinstance(n, ast.Call):
            for c in env.resolve_call(n):
                if isinstance(c, FuncInfo) and c.name == 'create_header':
                    n_ch += 1
                    conds = not ctx.flow.unconditional(n)
                    run.add('C13.complete', build.module.name, build.qualname, n, not conds,
                            'support file generated unconditionally' if not conds else
                            'support file generated only under a condition', node=n)
    run.floor('C13.complete', 10)


def _rejects(ctx, ex: ExcAnalysis, abs_: Abs):
    run, prog, flow = ctx.run, ctx.prog, ctx.flow
    build = prog.func('adv_shell', 'Builder.build')
    cde = prog.func('adv_shell.core.processing', 'create_dzn_elements')
    cmc = prog.func('adv_shell.core.processing', 'check_multiclient_cfg')
    gsi = prog.func('ast_view', 'FindResult.get_single_instance')

    def guards(fn: FuncInfo):
        """Top-level (dominating) `if <test>: raise <library error>` statements of fn with their position."""
        out = []
        for k, s in enumerate(fn.node.body):
            if isinstance(s, ast.If) and always_raises(s.body):
                r = next((x for x in ast.walk(s) if isinstance(x, ast.Raise)), None)
                exc = ex.exc_name(fn, r.exc) if r is not None else ''
                out.append((k, s, exc))
        return out

    def has_guard(fn, pred, what, lib_only=True):
        for k, s, exc in guards(fn):
            if pred(s.test) and (ex.is_library_error(exc) or not lib_only):
                run.holds('C13.rejects', fn.module.name, fn.qualname, s,
                          f'{what}: rejected with {exc.split(".")[-1]} by a dominating guard', node=s)
                return True
        run.violation('C13.rejects', fn.module.name, fn.qualname, f'{fn.qualname}: {what}',
                      f'{what}: no dominating guard raising a library error found', node=fn.node)
        return False

    txt = lambda t: ast.unparse(t)
    # unknown encapsulee: either an explicit emptiness guard in build or the lookup goes through get_single_instance
    # (in build itself, or at the top of a lookup helper that build calls unconditionally)
    lookup_fn = build
    if not any('.items' in txt(s_.test) and isinstance(s_.test, ast.UnaryOp) for _k, s_, _e in guards(build)):
        for c_ in iter_own_nodes(build.node):
            if isinstance(c_, ast.Call) and flow.unconditional(c_):
                for g_ in ctx.cg.env(build).resolve_call(c_):
                    if isinstance(g_, FuncInfo) and g_.module.name.startswith('dznpy.adv_shell') and lookup_fn is build and \
                            any('.items' in txt(s_.test) and isinstance(s_.test, ast.UnaryOp) for _k, s_, _e in guards(g_)):
                        lookup_fn = g_
    has_guard(lookup_fn, lambda t: '.items' in txt(t) and isinstance(t, ast.UnaryOp), 'unknown encapsulee')
    has_guard(cde, lambda t: txt(t).count('isinstance(encapsulee') >= 2 or
              ('isinstance(encapsulee' in txt(t) and 'System' in txt(t) and 'Component' in txt(t)),
              'encapsulee that is neither system nor component')
    for what, ok, msg, node in single_instance_gate(ctx):
        run.add('C13.rejects', gsi.module.name, gsi.qualname, what, ok, msg, node=node)
    # the kind guards (`isinstance(x, ast.Component)`, get_single_instance(ast.Enum)) only discriminate while the declaration
    # classes are unrelated: a declaration class deriving from another one passes the guard written for its base
    amod = prog.module('ast')
    fc = amod.classes.get('FileContents')
    kinds = []
    if fc is not None:
        for _f, (ann, _d, _o) in prog.class_fields(fc).items():
            t = prog.ann_to_type(amod, ann, fc)
            if t[0] == 'list' and strip_opt(t[1])[0] == 'cls' and strip_opt(t[1])[1] in prog.classes:
                kinds.append(prog.classes[strip_opt(t[1])[1]])
    if len(kinds) < 7:
        run.error('C13.rejects', amod.name, 'FileContents', 'declaration kinds', f'only {len(kinds)} declaration classes found (8 confirmed)')
    for k in kinds:
        supers = [a for a in prog.ancestors(k) if not isinstance(a, str) and a is not k and a in kinds]
        run.add('C13.rejects', amod.name, k.name, f'kind {k.name} disjoint', not supers,
                f'ast.{k.name} derives from no other declaration class' if not supers else
                f'ast.{k.name} derives from ast.{supers[0].name}: a {k.name} passes every guard that admits a {supers[0].name} '
                f'(isinstance / get_single_instance), so an input that must be refused - e.g. a {k.name.lower()} encapsulee - is '
                f'accepted', node=k.node)
    # multiclient settings: decided on scenario models when create_dzn_elements can be interpreted (E7)
    from .shared import dzn_elements_by_interpretation
    sem_de = dzn_elements_by_interpretation(ctx)
    if sem_de is not None:
        probs_ = sem_de['C13.rejects'] + sem_de['C04.validate'] + sem_de['C07.kind']
        for label_, keys_ in (('multi-client configuration naming a requires port', ('names the requires port',)),
                              ('multi-client configuration naming no port', ('names a port that does not exist',)),
                              ('unknown claim / release event', ('claim event the interface', 'release event the interface')),
                              ('granting value / reply type', ('granting value', 'replies void', 'replies an extern')),
                              ('fixture only where configured', ('gets a multi-client fixture', 'gets no fixture')),
                              ('port type that is unknown / ambiguous / no interface (provides, requires, injected requires port)',
                               ('port whose type',))):
            mine_ = [p_ for p_ in probs_ if any(k_ in p_ for k_ in keys_)]
            run.add('C13.rejects', cde.module.name, cde.qualname, label_, not mine_,
                    f'{label_}: refused with the documented library error (create_dzn_elements interpreted on the scenario models)'
                    if not mine_ else '; '.join(mine_[:2]))
    if sem_de is None:
        # multiclient settings
        n_mc = 0
        for s in ast.walk(cmc.node):
            if isinstance(s, ast.Raise):
                exc = ex.exc_name(cmc, s.exc)
                n_mc += 1
                run.add('C13.rejects', cmc.module.name, cmc.qualname, s, ex.is_library_error(exc),
                        f'invalid multi-client setting rejected with {exc.split(".")[-1]}', node=s)
        from .shared import rejecting_calls
        for c_, h_, r_ in rejecting_calls(ctx, cmc):
            exc = ex.exc_name(h_, r_.exc)
            n_mc += 1
            run.add('C13.rejects', cmc.module.name, cmc.qualname, c_, ex.is_library_error(exc),
                    f'invalid multi-client setting rejected with {exc.split(".")[-1]} (in {h_.qualname})', node=c_)
        if n_mc < 4:
            run.violation('C13.rejects', cmc.module.name, cmc.qualname, 'check_multiclient_cfg rejections',
                          f'only {n_mc} rejections in check_multiclient_cfg (claim event, reply type, reply value, release event)')
        # multiclient configuration that matches no PROVIDES port: the rejection must be decided over the provides ports only
        def expand(e: ast.AST, depth: int = 0) -> str:
            """Source text of e with single-definition locals of create_dzn_elements expanded."""
            out = ast.unparse(e)
            if depth > 3:
                return out
            for nm in {x.id for x in ast.walk(e) if isinstance(x, ast.Name)}:
                defs = [a for a in iter_own_nodes(cde.node) if isinstance(a, ast.Assign) and len(a.targets) == 1
                        and isinstance(a.targets[0], ast.Name) and a.targets[0].id == nm]
                if len(defs) == 1:
                    out += ' <- ' + expand(defs[0].value, depth + 1)
            return out

        post = []
        for s in ast.walk(cde.node):
            if isinstance(s, ast.If) and always_raises(s.body) and not s.orelse:
                conds = [s.test] + [c for c, pol in flow.path_conditions(s) if pol]
                if not any('multiclient' in txt(c) for c in conds):
                    continue
                r = next(x for x in ast.walk(s) if isinstance(x, ast.Raise))
                post.append((s, conds, ex.exc_name(cde, r.exc)))
        if not post:
            run.add('C13.rejects', cde.module.name, cde.qualname, 'multiclient post-check', False,
                    'no check that the multi-client configuration matched a port')
        for s, conds, exc in post:
            full = ' && '.join(expand(c) for c in conds)
            over_provides = 'provides' in full
            over_requires = 'requires' in full
            ok = ex.is_library_error(exc) and over_provides and not over_requires
            run.add('C13.rejects', cde.module.name, cde.qualname, s, ok,
                    'a multi-client configuration that matches no provides port is rejected' if ok else
                    ('the multi-client port check is decided over data that includes the requires ports '
                     f'(`{full[:160]}`): a configuration naming a requires port passes although no port becomes multi-client'
                     if over_requires else
                     f'the multi-client port check (`{full[:120]}`) is not decided over the provides ports'), node=s)
    # unknown / unassigned selection: C03 rules decide the details; here: the match call dominates port construction
    match_calls = [n for n in iter_own_nodes(cde.node) if isinstance(n, ast.Call) and isinstance(n.func, ast.Attribute)
                   and n.func.attr == 'match']
    run.add('C13.rejects', cde.module.name, cde.qualname, match_calls[0] if match_calls else 'match call',
            len(match_calls) == 1 and flow.unconditional(match_calls[0]),
            'the port selection is matched unconditionally before any port is processed (details: C03)'
            if match_calls else 'create_dzn_elements no longer matches the port selection')
    # the match (in create_dzn_elements) dominates every file construction in build
    body = build.node.body
    idx_cde = next((k for k, s in enumerate(body) if any(
        isinstance(x, ast.Call) and getattr(x.func, 'id', '') == 'create_dzn_elements' for x in ast.walk(s))), None)
    idx_first_file = next((k for k, s in enumerate(body) if any(
        isinstance(x, ast.Call) and isinstance(x.func, ast.Attribute) and x.func.attr in ('_create_headerfile', '_create_sourcefile')
        for x in ast.walk(s))), None)
    ok = idx_cde is not None and idx_first_file is not None and idx_cde < idx_first_file
    run.add('C13.rejects', build.module.name, build.qualname, 'validation precedes generation', ok,
            'create_dzn_elements (all input validation) dominates the generation of header and source' if ok else
            'files may be generated before the inputs were validated')
    run.floor('C13.rejects', 10)
