"""C18 - indentation shifts text without changing it.

Decides: C18.agree (to_str is defined through to_list of the same argument: join with EOL plus one EOL),
C18.terminates (no unconditional self-recursion in the text layer), C18.map (every result of to_list is an
order- and length-preserving map of the flattened input), C18.blank (whitespace prefix only on non-blank
lines, bullet lines are stripped), C18.prefix (prefix is SPACE*n or TAB, re-derived from the bullet width in
bullet mode), C18.header (indent never touches the header).
"""
from __future__ import annotations

import ast
from typing import Dict, List, Optional, Tuple

from ..model import FuncInfo, ClassInfo, iter_own_nodes, strip_opt
from ..absval import Abs
from ..mutation import Mutations
from ..termination import Termination
from ..strshape import Shapes, t_text
from ..flow import same_expr, atomic_facts
from .shared import to_list_views


def const_str(ctx, fn: FuncInfo, e: ast.AST, depth: int = 0) -> Optional[str]:
    """The string value of a literal / module-level constant expression, else None."""
    if isinstance(e, ast.Constant) and isinstance(e.value, str):
        return e.value
    if isinstance(e, (ast.Name, ast.Attribute)) and depth < 5:
        env = ctx.cg.env(fn)
        if isinstance(e, ast.Name) and (e.id in env.vars or e.id in env._assign_sites):
            sites = env._assign_sites.get(e.id, [])
            if len(sites) == 1 and sites[0][0] == 'expr' and e.id not in env.vars:
                return const_str(ctx, fn, sites[0][1], depth + 1)
            return None
        sym = ctx.prog.resolve_expr_symbol(fn.module, e)
        if isinstance(sym, tuple) and sym[0] == 'const' and isinstance(sym[1], ast.Constant) and \
                isinstance(sym[1].value, str):
            return sym[1].value
    return None


def resolve_local(ctx, fn: FuncInfo, e: ast.AST, depth: int = 0) -> ast.AST:
    """Copy propagation through single-definition locals."""
    if isinstance(e, ast.Name) and depth < 6:
        env = ctx.cg.env(fn)
        sites = env._assign_sites.get(e.id, [])
        if len(sites) == 1 and sites[0][0] == 'expr' and e.id not in [a.arg for a in fn.params()]:
            return resolve_local(ctx, fn, sites[0][1], depth + 1)
    return e


def join_shape(ctx, fn: FuncInfo, e: ast.AST):
    """Recognise `SEP.join(X) [+ SUFFIX]` and `''.join(l + SUFFIX for l in X)`.
    Returns (X, sep, suffix) with sep / suffix the constant strings (None when not constant) or None."""
    e = resolve_local(ctx, fn, e)
    suffix_expr = None
    tail: List[ast.AST] = []
    while isinstance(e, ast.BinOp) and isinstance(e.op, ast.Add):
        tail.insert(0, e.right)
        e = resolve_local(ctx, fn, e.left)
    if tail:
        parts = [const_str(ctx, fn, t) for t in tail]
        suffix_expr = ast.Constant(value=''.join(parts)) if all(p is not None for p in parts) else tail[0]
        if not all(p is not None for p in parts):
            return None
    if isinstance(e, ast.Call) and isinstance(e.func, ast.Attribute) and e.func.attr == 'join' and len(e.args) == 1:
        sep = const_str(ctx, fn, e.func.value)
        arg = e.args[0]
        if isinstance(arg, (ast.GeneratorExp, ast.ListComp)) and len(arg.generators) == 1 and \
                not arg.generators[0].ifs and isinstance(arg.elt, ast.BinOp) and isinstance(arg.elt.op, ast.Add) and \
                isinstance(arg.elt.left, ast.Name) and isinstance(arg.generators[0].target, ast.Name) and \
                arg.elt.left.id == arg.generators[0].target.id and suffix_expr is None:
            # per-line suffix: equivalent to joining with sep+suffix and a final suffix when sep == ''
            per = const_str(ctx, fn, arg.elt.right)
            if sep == '' and per is not None:
                return arg.generators[0].iter, per, per
            return None
        suffix = const_str(ctx, fn, suffix_expr) if suffix_expr is not None else ''
        return arg, sep, suffix
    return None


def is_join_plus_eol(ctx, fn: FuncInfo, e: ast.AST) -> Optional[ast.AST]:
    sh = join_shape(ctx, fn, e)
    if sh is not None and sh[1] == '\n' and sh[2] == '\n':
        return sh[0]
    return None


def check(ctx):
    run, prog, cg = ctx.run, ctx.prog, ctx.cg
    run.explanation = (
        'Decided: C18.agree - Indentizer.to_str is EOL.join(self.to_list(<its argument>)) + EOL (sibling rule); '
        'C18.terminates - termination shape of the text layer (no unconditional self-recursion); C18.map - every '
        'return of to_list is an order- and length-preserving map of the flattened input (cardinality judgement on '
        'the expression); C18.blank - the whitespace prefix is applied only to non-blank lines (else the empty '
        'string) and bullet-prefixed lines are stripped; C18.prefix - the prefix is SPACE*n or TAB and is re-derived '
        'from the bullet width in bullet mode; C18.header - indent() never writes the header. Not decided: that '
        'the text of each line is unchanged for all strings (the bullet modes strip() the whole line, which also '
        'removes leading whitespace of the text itself - observation O4, a value-level effect).')
    run.assume('a bullet glyph contains no line break (user configuration)')
    run.trusted = ['python ast module', 'dznverif E1/E2/E3b/E3c']

    ind = prog.cls('text_gen', 'Indentizer')
    tb = prog.cls('text_gen', 'TextBlock')
    to_list = ind.methods.get('to_list')
    to_str = ind.methods.get('to_str')
    if to_list is None or to_str is None:
        run.error('C18.agree', ind.module.name, 'Indentizer', 'to_list/to_str', 'Indentizer.to_list or to_str vanished')
        return

    _presence_tests(ctx, [ind, prog.cls('text_gen', 'BulletList')])

    # ---- C18.agree -------------------------------------------------------------------------------------------------
    rets = [n for n in iter_own_nodes(to_str.node) if isinstance(n, ast.Return) and n.value is not None]
    param = to_str.params()[1].arg if len(to_str.params()) > 1 else None
    for r in rets:
        self_calls = [c for c in ast.walk(r.value) if isinstance(c, ast.Call) and isinstance(c.func, ast.Attribute)
                      and isinstance(c.func.value, ast.Name) and c.func.value.id == 'self']
        if any(c.func.attr == 'to_str' for c in self_calls):
            run.violation('C18.agree', to_str.module.name, to_str.qualname, r,
                          'to_str calls itself instead of to_list: every call recurses until RecursionError and the '
                          'string form never agrees with the list form', node=r)
            continue
        sh = join_shape(ctx, to_str, r.value)
        via_block = [c for c in ast.walk(r.value) if isinstance(c, ast.Call) and
                     prog.resolve_expr_symbol(to_str.module, c.func) is tb]
        if sh is None and via_block:
            run.violation('C18.agree', to_str.module.name, to_str.qualname, r,
                          'the string form is produced by a TextBlock built from the list form: TextBlock splits every item again '
                          'on all line boundaries (\\r, \\f, U+2028 ...), so a line containing one is broken in two and the '
                          'string form no longer agrees with the list form', node=r)
            continue
        if sh is None:
            run.error('C18.agree', to_str.module.name, to_str.qualname, r,
                      'string form is not recognised as <sep>.join(<lines>) + <suffix>', node=r)
            continue
        if sh[1] != '\n' or sh[2] != '\n':
            run.violation('C18.agree', to_str.module.name, to_str.qualname, r,
                          f'the string form joins the lines with {sh[1]!r} and ends with {sh[2]!r}; the list form '
                          f'corresponds to one EOL after every line', node=r)
            continue
        x = sh[0]
        x = resolve_local(ctx, to_str, x)
        ok = isinstance(x, ast.Call) and isinstance(x.func, ast.Attribute) and x.func.attr == 'to_list' and \
            isinstance(x.func.value, ast.Name) and x.func.value.id == 'self' and len(x.args) == 1 and \
            isinstance(x.args[0], ast.Name) and x.args[0].id == param and not x.keywords
        if not ok and to_list is not None:
            # the same lines without going through to_list: to_list is `return list(<X>)` / `return <X>` of the very expression
            # that is joined here (both read the same line source)
            tl_body = [st for st in to_list.node.body if not (isinstance(st, ast.Expr) and isinstance(st.value, ast.Constant))]
            tl_params = [a.arg for a in to_list.params()]
            if len(tl_body) == 1 and isinstance(tl_body[0], ast.Return) and tl_body[0].value is not None and \
                    len(tl_params) == 2 and not any(isinstance(y, (ast.Yield, ast.YieldFrom)) for y in ast.walk(to_list.node)):
                tv = tl_body[0].value
                inner = tv.args[0] if isinstance(tv, ast.Call) and isinstance(tv.func, ast.Name) and tv.func.id in ('list', 'tuple') \
                    and len(tv.args) == 1 and not tv.keywords else tv

                class Ren(ast.NodeTransformer):
                    def visit_Name(s_, node):
                        return ast.copy_location(ast.Name(id=param, ctx=node.ctx), node) if node.id == tl_params[1] else node
                import copy as _copy
                same = ast.unparse(Ren().visit(_copy.deepcopy(inner))) == ast.unparse(x) or \
                    ast.unparse(Ren().visit(_copy.deepcopy(tv))) == ast.unparse(x)
                if same:
                    run.holds('C18.agree', to_str.module.name, to_str.qualname, r,
                              'to_str joins the very line source that to_list returns as a list', node=r)
                    continue
        run.add('C18.agree', to_str.module.name, to_str.qualname, r, ok,
                'to_str = EOL.join(self.to_list(contents)) + EOL' if ok else
                f'the joined lines are `{ast.unparse(x)[:60]}`, not self.to_list({param})', node=r)
    if not rets:
        run.violation('C18.agree', to_str.module.name, to_str.qualname, to_str.qualname, 'to_str returns nothing')

    # ---- C18.terminates -------------------------------------------------------------------------------------------------
    abs_ = Abs(prog, cg, ctx.flow)
    mut = Mutations(prog, cg)
    mut.solve()
    tmod = prog.module('text_gen')
    entries = [f for f in prog.all_functions() if f.module is tmod]
    reach = cg.reachable(entries)
    term = Termination(prog, cg, ctx.flow, mut, abs_)
    for fn, node, callee, ok, msg in term.recursion_instances(reach):
        run.add('C18.terminates', fn.module.name, fn.qualname, node, ok, f'recursive call of {callee.qualname}: {msg}',
                node=node)
    for fn, node, kind, ok, msg in term.loop_instances(reach):
        run.add('C18.terminates', fn.module.name, fn.qualname, node if kind != 'for' else node.iter, ok, msg,
                node=node, nontrivial=(kind != 'for'))
    run.floor('C18.terminates', 5)

    # ---- C18.map / blank / prefix: by interpretation when possible --------------------------------------------------------------------
    sem = _indenter_by_interpretation(ctx, ind)
    if sem is not None:
        n_runs, bad = sem
        texts = {'C18.map': ('the number and order of the lines is preserved and each keeps its text', 'lines: '),
                 'C18.blank': ('blank lines stay empty (the bare glyph in bullet positions): no trailing whitespace', 'blank lines: '),
                 'C18.prefix': ('every other line gets exactly the configured whitespace, or the glyph prefix with continuation lines '
                                'aligned to the text after the glyph', 'prefix: ')}
        for rule_, (good, lead) in texts.items():
            b_ = bad.get(rule_, [])
            run.add(rule_, to_list.module.name, to_list.qualname, f'{n_runs} indenter configurations x line sequences', not b_,
                    good + f' (to_list interpreted on {n_runs} configuration / line-sequence pairs)' if not b_ else
                    lead + '; '.join(b_[:3]))
        if bad.get('C18.agree'):
            run.violation('C18.agree', to_str.module.name, to_str.qualname, 'to_str vs to_list',
                          'string form and list form disagree: ' + '; '.join(bad['C18.agree'][:2]))
        run.stats['indenter_runs_interpreted'] = n_runs
    views = to_list_views(ctx) if sem is None else {}
    # ---- C18.map ------------------------------------------------------------------------------------------------------------
    run.stats['to_list_views'] = sorted(views)
    for label in ('NONE', 'ALL', 'FIRST_ONLY'):
        if label in views:
            _map_rule(ctx, views[label])

    # ---- C18.blank -----------------------------------------------------------------------------------------------------------
    n_prefix = 0
    for label in ('NONE', 'ALL', 'FIRST_ONLY'):
        if label in views:
            n_prefix += _blank_rule(ctx, views[label])
    if n_prefix < 3 and sem is None:
        run.error('C18.blank', to_list.module.name, to_list.qualname, 'prefix expressions',
                  f'only {n_prefix} prefixing expressions recognised in the three views of to_list (4 on the reference tree)')

    # ---- C18.prefix ----------------------------------------------------------------------------------------------------------
    if sem is None:
        _prefix_rule(ctx, ind)

    # ---- C18.header ----------------------------------------------------------------------------------------------------------
    for m in list(tb.methods.values()) + list(tb.setters.values()):
        for n in iter_own_nodes(m.node):
            if isinstance(n, ast.Attribute) and isinstance(n.value, ast.Name) and n.value.id == 'self' and \
                    n.attr == '_header' and isinstance(n.ctx, (ast.Store, ast.Del)):
                ok = m.name == '__init__'
                run.add('C18.header', m.module.name, m.qualname, ctx.flow.enclosing_stmt(n), ok,
                        'header is set at construction only' if ok else 'the header is written outside __init__',
                        node=n)
    indent = tb.methods.get('indent')
    sem_hdr = _header_by_interpretation(ctx, tb, indent) if indent is not None else None
    if indent is None:
        run.error('C18.header', tb.module.name, 'TextBlock', 'indent', 'TextBlock.indent vanished')
    elif sem_hdr is not None:
        n_h, bad_h = sem_hdr
        for k_ in range(3):         # (as many instances as the shape form: write set, lines fed, result)
            run.add('C18.header', indent.module.name, indent.qualname, ('header kept', 'content lines shifted by the indenter', 'block handed back')[k_],
                    not bad_h, f'indent() interpreted on {n_h} blocks with and without a header: the header lines stay as they are, the content lines '
                    f'are exactly Indentizer.to_list of the content lines, the block itself is handed back' if not bad_h else '; '.join(bad_h[:2]))
    else:
        paths = set(mut.mut_self.get(indent.fq, {}))
        bad = [p for p in paths if p and p[0] not in ('lines', '_lines', '_indentizer')]
        run.add('C18.header', indent.module.name, indent.qualname, 'indent() write set', not bad,
                f'indent() writes only {sorted(set(p[0] for p in paths))}' if not bad else
                f'indent() also writes {bad}: a header must never be indented')
        # the lines handed to the indentizer are the content lines only
        calls = [c for c in iter_own_nodes(indent.node) if isinstance(c, ast.Call) and isinstance(c.func, ast.Attribute)
                 and c.func.attr == 'to_list']
        for c in calls:
            ok = len(c.args) == 1 and ast.unparse(c.args[0]) in ('self.lines', 'self._lines')
            run.add('C18.header', indent.module.name, indent.qualname, c, ok,
                    'only the content lines are indented' if ok else
                    f'indent() feeds `{ast.unparse(c.args[0]) if c.args else ""}` to the indentizer', node=c)
    run.floor('C18.header', 3)


def _header_by_interpretation(ctx, tb: ClassInfo, indent: FuncInfo):
    """TextBlock(content, header).indent() interpreted (E7): afterwards the rendered text starts with the header lines exactly as
    given, followed by what the block's indenter makes of the content lines (Indentizer.to_list, decided by C18.map); a second
    indent() shifts the content once more and still not the header.  (blocks tried, disagreements) or None when not
    interpretable."""
    from ..scenario import Interp, Obj, Raised, Undecided
    prog = ctx.prog
    ind = prog.cls('text_gen', 'Indentizer')
    to_list = prog.lookup_method(ind, 'to_list') if ind is not None else None
    to_str = prog.lookup_method(tb, '__str__')
    if to_list is None or to_str is None:
        return None
    bad: List[str] = []
    n = 0
    try:
        for header in (None, ['H1', '  H2', ''], 'one'):
            for content in (['a', '', '  b'], [], ['x']):
                it = Interp(prog)
                n += 1
                try:
                    b = it.construct(tb, [list(content)], {} if header is None else {'header': header})
                    want = list(content)
                    for round_ in (1, 2):
                        res = it.call_function(indent, [], {}, self_val=b)
                        want = list(it.call_function(to_list, [list(want)], {}, self_val=it.construct(ind, [], {})))
                        got_lines = list(it.getattr(b, 'lines', indent, 0))
                        text = it.call_function(to_str, [], {}, self_val=b)
                        hl = ([] if header is None else [header] if isinstance(header, str) else list(header))
                        exp_text = ''.join(x + '\n' for x in hl + want)
                        if res is not b:
                            bad.append('indent() does not hand back the block itself')
                        if got_lines != want:
                            bad.append(f'a block of {content!r} (header {header!r}) indented {round_}x holds {got_lines!r}, expected {want!r}')
                        elif text != exp_text:
                            bad.append(f'a block of {content!r} with the header {header!r} indented {round_}x renders as {text!r}, expected {exp_text!r} '
                                       f'(the header is never indented)')
                except Raised as exc:
                    bad.append(f'indent() of a block of {content!r} (header {header!r}) raises {exc.name.split(".")[-1]}')
    except Undecided:
        return None
    return n, bad


def _long_sequences(ind: ClassInfo) -> List[List[str]]:
    """Line sequences longer than every integer the indenter compares anything with (a behaviour that sets in beyond some
    number of lines must show up): lengths K + 1 and K + 2 for the largest such constant K (at least 3)."""
    k = 3
    for m in list(ind.methods.values()):
        for n in ast.walk(m.node):
            if isinstance(n, ast.Compare):
                for c in [n.left] + list(n.comparators):
                    if isinstance(c, ast.Constant) and isinstance(c.value, int) and not isinstance(c.value, bool) and 0 <= c.value <= 64:
                        k = max(k, c.value)
    base = ['x', '', ' y ', 'x']
    return [[base[i % 4] for i in range(n)] for n in (k + 1, k + 2)]


def _indenter_by_interpretation(ctx, ind: ClassInfo):
    """Indentizer.to_list / to_str interpreted (dznverif.scenario, E7) for: spaces 0 / 1 / 4 or tab  x  no bullets / all lines /
    first line only with a glyph shorter ('-') and longer ('>>>>>') than the indent width  x  every sequence of up to two
    lines (and some of three) over {'' , '  ', 'x', ' y '}.  Expected, from the statement of C18: as many lines, in order;
    a blank line stays '' (the bare glyph where a bullet goes); any other line is <whitespace><line>, a bulleted line
    (<glyph prefix><line>).strip(); whitespace is n spaces or a tab, in bullet mode as wide as the glyph prefix (glyph + ' '
    padded to n); to_str is the lines joined with and ended by EOL.  The indenter looks at a line only through strip() and
    concatenation, so blank / whitespace-only / padded / plain lines are all the cases there are.
    (number of runs, {rule: [disagreements]}) or None when the code cannot be interpreted."""
    from ..scenario import Interp, EnumV, Obj, Raised, Undecided
    import itertools
    prog = ctx.prog
    indentor = prog.cls('text_gen', 'Indentor')
    blm = prog.cls('text_gen', 'BulletListMode')
    bl = prog.cls('text_gen', 'BulletList')
    to_list, to_str = prog.lookup_method(ind, 'to_list'), prog.lookup_method(ind, 'to_str')
    if None in (indentor, blm, bl, to_list, to_str):
        return None
    alphabet = ['', '  ', 'x', ' y ']
    seqs = [list(s_) for n in (0, 1, 2) for s_ in itertools.product(alphabet, repeat=n)] + \
        [['x', '', 'x'], ['', 'x', '  '], [' y ', 'x', 'x'], ['', '', '']]
    seqs += _long_sequences(ind)
    bad: Dict[str, List[str]] = {}
    n_runs = 0
    try:
        for ind_kind, n in (('SPACES', 0), ('SPACES', 1), ('SPACES', 4), ('TAB', 4)):
            for mode, glyph in ((None, None), ('ALL', '-'), ('ALL', '>>>>>'), ('FIRST_ONLY', '-'), ('FIRST_ONLY', '>>>>>')):
                it = Interp(prog)
                it.MAX_STEPS = 3000000
                blo = it.construct(bl, [], {'mode': EnumV(blm, mode), 'glyph': glyph}) if mode else None
                try:
                    izr = it.construct(ind, [], {'indentor': EnumV(indentor, ind_kind), 'spaces_count': n, 'bullet_list': blo})
                except Raised as exc:
                    bad.setdefault('C18.prefix', []).append(f'{ind_kind}/{n}/{mode}/{glyph}: the configuration is refused ({exc.name})')
                    continue
                if ind_kind == 'TAB':
                    ws, bullet = '\t', (glyph + '\t') if mode else None
                else:
                    bullet = format(glyph + ' ', f'<{n}') if mode else None
                    ws = ' ' * (len(bullet) if mode else n)
                for lines in seqs:
                    n_runs += 1
                    cfg = f'{ind_kind.lower()} {n}, bullets {mode} {glyph!r}, lines {lines!r}'
                    try:
                        got = it.call_function(to_list, [list(lines)], {}, self_val=izr)
                        got_s = it.call_function(to_str, [list(lines)], {}, self_val=izr)
                    except Raised as exc:
                        bad.setdefault('C18.map', []).append(f'{cfg}: raises {exc.name.split(".")[-1]}')
                        continue
                    if isinstance(got, tuple):
                        got = list(got)
                    if not isinstance(got, list) or not isinstance(got_s, str):
                        raise Undecided('to_list / to_str do not yield a list / a string')
                    want = []
                    for i, ln in enumerate(lines):
                        if mode == 'ALL' or (mode == 'FIRST_ONLY' and i == 0):
                            want.append((bullet + ln).strip())
                        else:
                            want.append(ws + ln if ln.strip() else '')
                    if len(got) != len(want):
                        bad.setdefault('C18.map', []).append(f'{cfg}: {len(got)} lines come out')
                    elif got != want and mode != 'FIRST_ONLY' and sorted(got) == sorted(want):
                        bad.setdefault('C18.map', []).append(f'{cfg}: the lines come out in another order: {got!r}')
                    else:
                        for i, (g_, w_) in enumerate(zip(got, want)):
                            if g_ != w_:
                                rule_ = 'C18.blank' if not lines[i].strip() else 'C18.prefix'
                                bad.setdefault(rule_, []).append(f'{cfg}: line {i} is {g_!r}, expected {w_!r}')
                                break
                    # every line followed by one EOL (for no lines at all: nothing, or the lone EOL of the reference tree)
                    if got_s != '\n'.join(got) + '\n' and got_s != ''.join(x + '\n' for x in got):
                        bad.setdefault('C18.agree', []).append(f'{cfg}: to_str gives {got_s!r} for the list {got!r}')
    except Undecided:
        return None
    return n_runs, bad


def _map_rule(ctx, to_list: FuncInfo):
    run = ctx.run
    # the flattened input
    env = ctx.cg.env(to_list)
    flat_names = []
    for n in iter_own_nodes(to_list.node):
        if isinstance(n, ast.Assign) and isinstance(n.value, ast.Call) and \
                getattr(n.value.func, 'id', '') == 'flatten_to_strlist':
            flat_names.append(n.targets[0].id)
            kw = {k.arg: k.value for k in n.value.keywords}
            skip = kw.get('skip_empty_strings', n.value.args[1] if len(n.value.args) > 1 else None)
            ok = isinstance(skip, ast.Constant) and skip.value is False
            run.add('C18.map', to_list.module.name, to_list.qualname, n, ok,
                    'blank lines are kept when flattening (skip_empty_strings=False)' if ok else
                    'blank lines are dropped before indenting: the number of lines changes', node=n)
    if len(flat_names) != 1:
        run.error('C18.map', to_list.module.name, to_list.qualname, 'flattened input',
                  'expected exactly one flatten_to_strlist(...) assignment in to_list')
        return
    L = flat_names[0]

    def judge(fn: FuncInfo, e: ast.AST, src: str, nonempty: bool) -> Tuple[Optional[bool], str]:
        """Is e a length/order preserving map of the list named src?"""
        if isinstance(e, ast.List) and not e.elts:
            return (True, 'empty result for empty input') if not nonempty else (False, 'returns [] for non-empty input')
        if isinstance(e, ast.ListComp):
            if len(e.generators) != 1:
                return False, 'nested comprehension changes cardinality'
            g = e.generators[0]
            if g.ifs:
                return False, f'comprehension filters lines (`if {ast.unparse(g.ifs[0])[:40]}`): lines can be dropped'
            if not (isinstance(g.iter, ast.Name) and g.iter.id == src):
                return False, f'comprehension iterates `{ast.unparse(g.iter)[:40]}`, not the input list `{src}`'
            if not any(isinstance(x, ast.Name) and x.id == getattr(g.target, 'id', None) for x in ast.walk(e.elt)):
                return False, 'element expression does not use the line'
            return True, f'[f(x) for x in {src}] preserves order and length'
        if isinstance(e, ast.BinOp) and isinstance(e.op, ast.Add):
            l, r = e.left, e.right
            head_ok = isinstance(l, ast.List) and len(l.elts) == 1 and any(
                isinstance(x, ast.Subscript) and isinstance(x.value, ast.Name) and x.value.id == src and
                isinstance(x.slice, ast.Constant) and x.slice.value == 0 for x in ast.walk(l.elts[0]))
            tail_ok = isinstance(r, ast.ListComp) and len(r.generators) == 1 and not r.generators[0].ifs and \
                isinstance(r.generators[0].iter, ast.Subscript) and isinstance(r.generators[0].iter.value, ast.Name) \
                and r.generators[0].iter.value.id == src and isinstance(r.generators[0].iter.slice, ast.Slice) and \
                isinstance(r.generators[0].iter.slice.lower, ast.Constant) and r.generators[0].iter.slice.lower.value == 1 \
                and r.generators[0].iter.slice.upper is None and r.generators[0].iter.slice.step is None
            if not (head_ok and tail_ok):
                # `first, *rest = src`  then  [f(first)] + [g(x) for x in rest]
                unpacks = [a_ for a_ in iter_own_nodes(fn.node) if isinstance(a_, ast.Assign) and len(a_.targets) == 1 and
                           isinstance(a_.targets[0], (ast.Tuple, ast.List)) and len(a_.targets[0].elts) == 2 and
                           isinstance(a_.targets[0].elts[0], ast.Name) and isinstance(a_.targets[0].elts[1], ast.Starred) and
                           isinstance(a_.targets[0].elts[1].value, ast.Name) and isinstance(a_.value, ast.Name) and a_.value.id == src]
                if len(unpacks) == 1:
                    first, rest = unpacks[0].targets[0].elts[0].id, unpacks[0].targets[0].elts[1].value.id
                    stores = [x for x in iter_own_nodes(fn.node) if isinstance(x, ast.Name) and isinstance(x.ctx, ast.Store)
                              and x.id in (first, rest)]
                    head_ok = isinstance(l, ast.List) and len(l.elts) == 1 and len(stores) == 2 and any(
                        isinstance(x, ast.Name) and x.id == first for x in ast.walk(l.elts[0]))
                    tail_ok = isinstance(r, ast.ListComp) and len(r.generators) == 1 and not r.generators[0].ifs and \
                        isinstance(r.generators[0].iter, ast.Name) and r.generators[0].iter.id == rest and any(
                            isinstance(x, ast.Name) and x.id == getattr(r.generators[0].target, 'id', None) for x in ast.walk(r.elt))
            if head_ok and tail_ok:
                return (True, f'[f(first)] + [g(x) for x in rest] over {src} preserves order and length') if nonempty \
                    else (None, 'head/tail split without a dominating non-empty guard')
            return False, 'head/tail form does not cover the input exactly once (first line / rest)'
        if isinstance(e, ast.Call) and isinstance(e.func, ast.Name) and e.func.id in fn_nested(fn):
            callee = fn_nested(fn)[e.func.id]
            if len(e.args) == 1 and isinstance(e.args[0], ast.Name) and e.args[0].id == src:
                p = callee.params()[0].arg
                outs = []
                for r in [n for n in iter_own_nodes(callee.node) if isinstance(n, ast.Return)]:
                    outs.append(judge(callee, r.value, p, nonempty))
                if outs and all(o[0] is True for o in outs):
                    return True, f'{callee.name}({src}): ' + outs[0][1]
                bad = next((o for o in outs if o[0] is not True), (False, 'no return'))
                return bad[0], f'{callee.name}: {bad[1]}'
            return False, f'`{ast.unparse(e)[:40]}` is not applied to the input list'
        return None, f'result expression `{ast.unparse(e)[:50]}` is not a recognised per-line map'

    def fn_nested(fn: FuncInfo) -> Dict[str, FuncInfo]:
        f = fn
        out = {}
        while f is not None:
            out.update(f.nested)
            f = f.parent
        return out

    abs_ = Abs(ctx.prog, ctx.cg, ctx.flow)
    n = 0
    for r in [x for x in iter_own_nodes(to_list.node) if isinstance(x, ast.Return)]:
        n += 1
        nonempty = abs_.at(to_list, ast.Name(id=L, ctx=ast.Load()), r).truthy == 'yes' or any(
            (ast.unparse(c) == L and p) for c, p in abs_.facts_at(r))
        empty_branch = any(ast.unparse(c) == L and not p for c, p in abs_.facts_at(r))
        ok, msg = judge(to_list, r.value, L, nonempty and not empty_branch)
        if empty_branch and isinstance(r.value, ast.List) and not r.value.elts:
            ok, msg = True, 'empty result for empty input'
        elif isinstance(r.value, ast.Name) and r.value.id == L:
            # the flattened input handed back as it is
            if empty_branch:
                ok, msg = True, 'the (empty) input list is the result for empty input'
            else:
                conds = [('' if p_ else 'not ') + ast.unparse(c_)[:40] for c_, p_ in abs_.facts_at(r)]
                ok, msg = False, (f'the flattened lines are returned unprocessed under `{" and ".join(conds) or "no condition"}` '
                                  f'(not the empty-input test): those lines get neither the indentation nor the bullet')
        if ok is None:
            run.error('C18.map', to_list.module.name, to_list.qualname, r, msg, node=r)
        else:
            run.add('C18.map', to_list.module.name, to_list.qualname, r, ok, msg, node=r)
    run.floor('C18.map', 4)


def _blank_rule(ctx, to_list: FuncInfo):
    run, prog = ctx.run, ctx.prog
    fns = [to_list] + list(to_list.nested.values())
    n = 0
    for fn in fns:
        for js in [x for x in iter_own_nodes(fn.node) if isinstance(x, ast.JoinedStr)]:
            holes = [ast.unparse(v.value) for v in js.values if isinstance(v, ast.FormattedValue)]
            if 'self._whitespace' in holes:
                n += 1
                p = prog.parent(js)
                line_holes = [h for h in holes if h != 'self._whitespace']
                guarded = isinstance(p, ast.IfExp) and p.body is js and const_is_empty(p.orelse) and line_holes
                blank_test = guarded and any(_is_nonblank_test(p.test, h) for h in line_holes)
                ok = bool(guarded and blank_test)
                run.add('C18.blank', fn.module.name, fn.qualname, p if isinstance(p, ast.IfExp) else js, ok,
                        'whitespace prefix only on non-blank lines, blank lines stay empty' if ok else
                        ('the whitespace prefix is applied unconditionally: blank lines get trailing whitespace' if not guarded else
                         f'the guard `{ast.unparse(p.test)[:40]}` is not a blankness test (<line>.strip()): a line of blanks only '
                         f'is kept and prefixed - trailing whitespace is introduced'), node=js)
            if 'self._bulletized_indent' in holes:
                n += 1
                p = prog.parent(js)
                ok = isinstance(p, ast.Attribute) and p.attr in ('strip', 'rstrip') and \
                    isinstance(prog.parent(p), ast.Call)
                run.add('C18.blank', fn.module.name, fn.qualname, js, ok,
                        'bullet-prefixed line is stripped (no trailing whitespace on blank lines)' if ok else
                        'bullet-prefixed line is not stripped: a blank line becomes "<glyph> " with trailing whitespace',
                        node=js)
    return n


def _is_nonblank_test(test: ast.expr, line: str) -> bool:
    """`test` is true exactly for lines with a non-blank character: <line>.strip() (also lstrip/rstrip), optionally compared
    with '' or measured with len(); `<line> and not <line>.isspace()`."""
    t = test
    if isinstance(t, ast.Compare) and len(t.ops) == 1:
        l, r, op = t.left, t.comparators[0], t.ops[0]
        if isinstance(r, ast.Constant) and r.value == '' and isinstance(op, ast.NotEq):
            t = l
        elif isinstance(l, ast.Call) and getattr(l.func, 'id', '') == 'len' and len(l.args) == 1 and \
                isinstance(r, ast.Constant) and r.value == 0 and isinstance(op, (ast.Gt, ast.NotEq)):
            t = l.args[0]
    if isinstance(t, ast.Call) and isinstance(t.func, ast.Attribute) and t.func.attr in ('strip', 'lstrip', 'rstrip') \
            and not t.args and ast.unparse(t.func.value) == line:
        return True
    if isinstance(t, ast.BoolOp) and isinstance(t.op, ast.And) and len(t.values) == 2:
        a, b = t.values
        if ast.unparse(a) == line and ast.unparse(b) == f'not {line}.isspace()':
            return True
    return False


def const_is_empty(e: ast.AST) -> bool:
    return isinstance(e, ast.Constant) and e.value == ''


def _prefix_rule(ctx, ind: ClassInfo):
    """Abstract interpretation of the prefix strings (dznverif.strshape): blank-only continuation prefix, bullet prefix
    starting with the glyph, and - for space indentation - equal widths of both as max-plus terms over
    n = spaces_count and L = len(glyph).  Judged on four views of __post_init__ (indentor SPACES / TAB x bullet list given
    or not), each obtained by specialisation: how the method branches, and which helpers it uses, does not matter."""
    from ..specialise import residual, TRUTHY
    run, prog = ctx.run, ctx.prog
    post = ind.methods.get('__post_init__')
    if post is None:
        run.error('C18.prefix', ind.module.name, 'Indentizer', '__post_init__', 'Indentizer.__post_init__ vanished')
        return
    n = 0
    for indentor in ('SPACES', 'TAB'):
        for bullets in (True, False):
            from .shared import post_init_views
            view = post_init_views(ctx)[f'{indentor}-bullets-{bullets}']
            label = f'{indentor.lower()} indentation, {"with" if bullets else "without"} bullet list'
            if any(isinstance(x, (ast.If, ast.For, ast.While, ast.Try)) for x in view.node.body):
                run.error('C18.prefix', post.module.name, post.qualname, label,
                          f'__post_init__ could not be specialised to a straight line for {label}')
                continue
            sh = Shapes(view.node, lambda name: const_str(ctx, post, ast.Name(id=name, ctx=ast.Load())))
            sh.attr_defs.pop('_bulletized_indent', None)
            sh.attr_defs.pop('_whitespace', None)
            bullet_v = None
            white_v = None
            for a in view.node.body:
                if not (isinstance(a, ast.Assign) and len(a.targets) == 1 and isinstance(a.targets[0], ast.Attribute)
                        and isinstance(a.targets[0].value, ast.Name) and a.targets[0].value.id == 'self'):
                    continue
                attr = a.targets[0].attr
                if attr not in ('_bulletized_indent', '_whitespace'):
                    continue
                n += 1
                v = sh.string(a.value)
                if v is None:
                    run.error('C18.prefix', post.module.name, post.qualname, f'{label}: {attr}',
                              f'prefix expression `{ast.unparse(a.value)[:60]}` is outside the modelled string sub-language')
                    sh.attr_defs[attr] = a.value
                    continue
                sh.attr_defs[attr] = a.value
                if attr == '_bulletized_indent':
                    bullet_v = v
                else:
                    white_v = v
            if white_v is None:
                run.add('C18.prefix', post.module.name, post.qualname, f'{label}: continuation prefix', False,
                        f'no whitespace prefix is set for {label}')
            else:
                run.add('C18.prefix', post.module.name, post.qualname, f'{label}: continuation prefix', white_v.blank,
                        f'continuation prefix is blank-only, width {t_text(white_v.length)}' if white_v.blank else
                        f'the continuation prefix for {label} is not whitespace-only')
            if bullets:
                if bullet_v is None:
                    run.add('C18.prefix', post.module.name, post.qualname, f'{label}: bullet prefix', False,
                            f'no bullet prefix is built for {label}')
                    continue
                ok = bullet_v.has_glyph and bullet_v.starts == 'glyph'
                run.add('C18.prefix', post.module.name, post.qualname, f'{label}: bullet prefix', ok,
                        f'bullet prefix is the configured glyph padded to width {t_text(bullet_v.length)}' if ok else
                        ('bullet prefix does not contain the configured glyph' if not bullet_v.has_glyph else
                         'bullet prefix does not start with the glyph'))
                if indentor == 'SPACES' and white_v is not None:
                    same = white_v.length == bullet_v.length
                    run.add('C18.prefix', post.module.name, post.qualname, 'bullet continuation width', same,
                            f'continuation prefix and bullet prefix have the same width {t_text(bullet_v.length)} for every spaces_count n '
                            f'and glyph length L' if same else
                            f'continuation prefix is {t_text(white_v.length)} wide but the bullet prefix is {t_text(bullet_v.length)} wide '
                            f'(n = spaces_count, L = glyph length): continuation lines misalign with the text after the glyph')
    if n < 4:
        run.error('C18.prefix', post.module.name, post.qualname, 'prefix assignments',
                  f'only {n} prefix assignments recognised in the four views of __post_init__')


def _presence_tests(ctx, classes):
    """C18.presence: `if indentizer:` / `self.bullet_list and ...` mean "one was given".  That reading holds only while the
    class of the tested object defines neither __bool__ nor __len__; with one of them an indentizer of width 0 (or a bullet
    list with an empty glyph) silently counts as absent and the previous indentation stays in force."""
    run, prog, cg = ctx.run, ctx.prog, ctx.cg
    fqs = {c.fq: c for c in classes if c is not None}
    tests = []
    for fn in prog.all_functions():
        env = cg.env(fn)
        for n in iter_own_nodes(fn.node):
            subjects = []
            if isinstance(n, (ast.If, ast.While, ast.IfExp)):
                subjects.append(n.test)
            elif isinstance(n, ast.BoolOp):
                subjects.extend(n.values[:-1])
            elif isinstance(n, ast.UnaryOp) and isinstance(n.op, ast.Not):
                subjects.append(n.operand)
            elif isinstance(n, ast.comprehension):
                subjects.extend(n.ifs)
            elif isinstance(n, ast.Assert):
                subjects.append(n.test)
            for e in subjects:
                if isinstance(e, (ast.BoolOp, ast.Compare, ast.UnaryOp, ast.Call, ast.Constant)):
                    continue      # judged at their own operands / not a bare object
                t = strip_opt(env.type_of(e))
                ts = t[1] if t[0] == 'union' else [t]
                for x in ts:
                    x = strip_opt(x)
                    if x[0] == 'cls' and x[1] in fqs:
                        tests.append((fn, e, fqs[x[1]]))
    for fn, e, c in tests:
        dunder = next((prog.lookup_method(c, d) for d in ('__bool__', '__len__') if prog.lookup_method(c, d) is not None), None)
        run.add('C18.presence', fn.module.name, fn.qualname, e, dunder is None,
                f'`{ast.unparse(e)}` tests whether an {c.name} was given ({c.name} has no __bool__ / __len__)' if dunder is None else
                f'`{ast.unparse(e)}` is meant as "an {c.name} was given", but {dunder.qualname} makes an {c.name} falsy for some '
                f'configurations (zero width / empty): that configuration is then ignored and the previous indentation applies',
                node=e)
    run.floor('C18.presence', 3)
