"""C19 - user text rendered as a comment can never become code.

Decides (structure of the comment machinery and of the generated-file templates):
  C19.every-line   Comment installs a `//` bullet indentizer in mode ALL; the ALL branch of Indentizer.to_list prefixes
                   every line (no filter, whole list) with the bullet prefix, which starts with the glyph; content handed
                   to a TextBlock is split on every line boundary; Comment.__str__ renders the indented copy.
  C19.pure-render  Comment.__str__ indents a fresh deep copy, never `self` (E3c ownership analysis).
  C19.sink         in the file templates (E4) cfg.copyright / cfg.creator_info (shell) and cfg.header / COPYRIGHT (support
                   files) occur only inside Comment(...) text; no condition outside a comment and no file name depends on them.
  C19.not-last     inside its comment the user text is followed by constant text (a trailing backslash can only splice
                   another comment line).
  C19.headers      the comment is the first thing in the file.
Not decided: character-level agreement between str.splitlines() and a C++ compiler's notion of a line break (the
Python set is a superset: stated as assumption).
"""
from __future__ import annotations

import ast
from typing import Any, Dict, List, Optional, Tuple

from ..model import ClassInfo, FuncInfo, iter_own_nodes
from ..report import AnalysisError
from ..template import Evaluator, TStr, Lit, Hole, AltS, RepS, FqnS, CommentS, OpaqueS, Cond, Sym, TObj, lit, Src
from ..mutation import Mutations, is_fresh
from ..flow import atomic_facts
from .c18 import const_str
from ..strshape import Shapes
from .c20 import variants

SHELL_TAINT = ('copyright', 'creator_info')


def _tainted_sym(x: Any, roots: Dict[str, Tuple[str, ...]]) -> Optional[str]:
    if isinstance(x, Sym):
        base = x.root.split('#')[0]
        if base in roots and x.path and x.path[0] in roots[base]:
            return f'{base}.{x.path[0]}'
    return None


def _cond_taint(c: Any, roots) -> List[str]:
    out = []
    if isinstance(c, Cond):
        for a in c.args:
            out.extend(_cond_taint(a, roots))
    elif isinstance(c, Src):
        out.extend(_cond_taint(c.base, roots))
        for f in c.filters:
            out.extend(_cond_taint(f, roots))
    elif isinstance(c, (tuple, list)):
        for a in c:
            out.extend(_cond_taint(a, roots))
    else:
        t = _tainted_sym(c, roots)
        if t:
            out.append(t)
    return out


def occurrences(s: TStr, roots, in_comment: bool = False, acc=None):
    """(kind, source, in_comment) for every use of a tainted symbol: kind = 'text' | 'cond'."""
    acc = acc if acc is not None else []
    for p in s.parts:
        if isinstance(p, Hole):
            t = _tainted_sym(p.sym, roots)
            if t:
                acc.append(('text', t, in_comment))
        elif isinstance(p, AltS):
            for t in _cond_taint(p.cond, roots):
                acc.append(('cond', t, in_comment))
            occurrences(p.a, roots, in_comment, acc)
            occurrences(p.b, roots, in_comment, acc)
        elif isinstance(p, RepS):
            for t in _cond_taint(p.src, roots):
                acc.append(('cond', t, in_comment))
            occurrences(p.elem, roots, in_comment, acc)
            occurrences(p.sep, roots, in_comment, acc)
        elif isinstance(p, CommentS):
            occurrences(p.body, roots, True, acc)
        elif isinstance(p, FqnS):
            for t in _cond_taint((p.ns, p.root), roots):
                acc.append(('text', t, in_comment))
    return acc


def comments_of(s: TStr, acc=None) -> List[CommentS]:
    acc = acc if acc is not None else []
    for p in s.parts:
        if isinstance(p, CommentS):
            acc.append(p)
        elif isinstance(p, AltS):
            comments_of(p.a, acc)
            comments_of(p.b, acc)
        elif isinstance(p, RepS):
            comments_of(p.elem, acc)
    return acc


def _shell_frames(ctx, ev: Evaluator) -> Dict[str, Tuple[Any, TStr]]:
    prog = ctx.prog
    b = prog.cls('adv_shell', 'Builder')
    ns = ev.construct(prog.cls('cpp_gen', 'Namespace'), [('nsids', ('My', 'Ns'))], {}, 1)
    st = ev.construct(prog.cls('cpp_gen', 'Struct'), [lit('Shell')], {}, 1)
    cpp_cls = prog.cls('adv_shell.common', 'CppElements')
    fields: Dict[str, Any] = {}
    for k, (ann, _d, o) in prog.class_fields(cpp_cls).items():
        fields[k] = Sym('cpp', (k,), prog.ann_to_type(o.module, ann, o))
    fields['namespace'], fields['struct'] = ns, st
    rec = TObj(prog.cls('adv_shell.common', 'Recipe'),
               {'configuration': Sym('cfg', (), ('cls', 'dznpy.adv_shell.common.Configuration')),
                'dzn_elements': Sym('dzn'), 'cpp_elements': TObj(cpp_cls, fields)})
    selfv = TObj(b, {'_recipe': rec})
    out = {}
    for m in ('_create_headerfile', '_create_sourcefile'):
        if m not in b.methods:
            raise AnalysisError(f'Builder.{m} vanished')
        r = ev.call_function(b.methods[m], [], {}, 0, self_val=selfv)
        c = r.fields.get('contents') if isinstance(r, TObj) else None
        if not isinstance(c, TStr):
            raise AnalysisError(f'Builder.{m} does not evaluate to file contents')
        out[m] = (r.fields.get('filename'), c)
    return out


def _first_is_comment(s: TStr) -> bool:
    for p in s.parts:
        if isinstance(p, Lit) and not p.text.strip():
            continue
        return isinstance(p, CommentS)
    return False


def _not_last(run, mod, where, body: TStr, roots):
    """In every variant of the comment body, tainted text is followed by non-blank constant text."""
    agg: Dict[str, List[Any]] = {}
    for c, v in variants(body, limit=512):
        parts = v.parts
        for i, p in enumerate(parts):
            t = _tainted_sym(p.sym, roots) if isinstance(p, Hole) else None
            if not t:
                continue
            rest = parts[i + 1:]
            const_after = ''.join(x.text for x in rest if isinstance(x, Lit))
            first = rest[0] if rest else None
            ends_line = isinstance(first, Lit) and first.text.startswith('\n')
            ok = ends_line and bool(const_after.strip())
            why = '' if ok else (
                'user text is the last text of the comment: a trailing `\\` splices the following code line into the comment'
                if ends_line or not rest else 'user text shares its line with generated text')
            rec = agg.setdefault(t, [0, set()])
            rec[0] += 1
            if why:
                rec[1].add(why)
    for t, (n, whys) in sorted(agg.items()):
        run.add('C19.not-last', mod, where, f'{t} ({n} variants of the comment)', not whys,
                'user text ends its own line and is followed by constant comment text in every variant' if not whys else
                '; '.join(sorted(whys)))
    return len(agg)


def check(ctx):
    run, prog = ctx.run, ctx.prog
    run.explanation = (
        'Decided: C19.every-line - cpp_gen.Comment installs (unconditionally, in __init__) an Indentizer whose bullet glyph '
        'is `//` and whose mode is ALL; the ALL branch of Indentizer.to_list is taken before any other rendering branch and '
        'maps every line of the whole list to bullet-prefix + line; the bullet prefix starts with the glyph; TextBlock.append '
        'splits every string item with str.splitlines(); Comment.__str__ returns the indented copy. C19.pure-render - the '
        'indent() in Comment.__str__ is applied to a fresh deep copy (ownership analysis: no mutation of self reachable). '
        'C19.sink - in the E4 templates of the shell header / source and of the support-file frame, cfg.copyright, '
        'cfg.creator_info, cfg.header and the COPYRIGHT constant occur only inside Comment text, no condition outside a '
        'comment and no file name depends on them. C19.not-last - in every variant of those comments the user text ends its '
        'own line and constant comment text follows. C19.headers - the comment is the first element of each file. Not '
        'decided: that str.splitlines() and the C++ compiler agree on line breaks (Python splits on a superset).')
    run.assume('str.splitlines() splits on every character sequence a C++ compiler treats as a line break (it splits on a superset)')
    run.assume('TextBlock.lines setter is given end-of-line free strings (its documented contract); content passed through the constructor / append is split')
    run.trusted = ['python ast module', 'dznverif E3c ownership analysis', 'dznverif E4 template evaluator']
    tg = prog.modules['dznpy.text_gen']
    cg_mod = 'dznpy.cpp_gen'
    comment = prog.cls('cpp_gen', 'Comment')
    ind = prog.cls('text_gen', 'Indentizer')
    tb = prog.cls('text_gen', 'TextBlock')
    bl = prog.cls('text_gen', 'BulletList')

    # ---- C19.every-line (0): the whole of Comment, by interpretation -------------------------------------------------------
    _comment_by_interpretation(ctx, comment, tb)

    # ---- C19.every-line (a): Comment.__init__ --------------------------------------------------------------------------
    init = comment.methods.get('__init__')
    if init is None:
        run.error('C19.every-line', cg_mod, 'Comment.__init__', '__init__', 'Comment.__init__ vanished')
    else:
        setters = [n for n in iter_own_nodes(init.node) if isinstance(n, ast.Call) and isinstance(n.func, ast.Attribute)
                   and n.func.attr in ('set_indentor', 'indent') and ast.unparse(n.func.value) == 'self']
        direct = [n for n in iter_own_nodes(init.node) if isinstance(n, ast.Assign)
                  and any(ast.unparse(t) == 'self._indentizer' for t in n.targets)]
        cands = [(n, n.args[0] if n.args else None) for n in setters] + [(n, n.value) for n in direct]
        if not cands:
            run.add('C19.every-line', cg_mod, 'Comment.__init__', 'comment indentizer', False,
                    'Comment.__init__ installs no indentizer: rendering uses the default whitespace indentation, no `//`')
        last = cands[-1] if cands else None
        for node, val in cands:
            problems = []
            if not ctx.flow.unconditional(node):
                problems.append('the comment indentizer is installed only conditionally')
            izr = _resolve(ctx, init, val)
            if not (isinstance(izr, ast.Call) and _callee_name(izr) == 'Indentizer'):
                problems.append(f'`{ast.unparse(val)[:60] if val is not None else None}` is not an Indentizer(...) construction')
            else:
                kw = {k.arg: k.value for k in izr.keywords}
                blv = kw.get('bullet_list', izr.args[2] if len(izr.args) > 2 else None)
                blv = _resolve(ctx, init, blv)
                if not (isinstance(blv, ast.Call) and _callee_name(blv) == 'BulletList'):
                    problems.append('no BulletList: lines are indented with whitespace only, not prefixed with `//`')
                else:
                    bkw = {k.arg: k.value for k in blv.keywords}
                    glyph = bkw.get('glyph', blv.args[1] if len(blv.args) > 1 else None)
                    mode = bkw.get('mode', blv.args[0] if blv.args else None)
                    g = const_str(ctx, init, glyph) if glyph is not None else _field_default(ctx, bl, 'glyph')
                    if g != '//':
                        problems.append(f'comment glyph is {g!r}, not `//`')
                    m = ast.unparse(mode) if mode is not None else _field_default_src(bl, 'mode')
                    if m is None or not m.endswith('BulletListMode.ALL'):
                        problems.append(f'bullet mode is {m}, not ALL: only the first line is prefixed')
            run.add('C19.every-line', cg_mod, 'Comment.__init__', node, not problems,
                    'Comment renders with a `//` bullet on all lines' if not problems else '; '.join(problems), node=node)
        sup = [n for n in iter_own_nodes(init.node) if isinstance(n, ast.Call) and 'super().__init__' in ast.unparse(n.func)]
        ok_sup = bool(sup) and all(ctx.flow.unconditional(n) for n in sup) and any(
            n.args and isinstance(n.args[0], ast.Name) and n.args[0].id == init.params()[1].arg for n in sup if len(init.params()) > 1)
        run.add('C19.every-line', cg_mod, 'Comment.__init__', 'content handed to TextBlock.__init__', ok_sup,
                'the comment text is stored through TextBlock.__init__ (split into lines)' if ok_sup else
                'the comment text does not reach TextBlock.__init__ unchanged')

    # ---- C19.every-line (b) + (c): bullet mode ALL puts the glyph in front of every line ----------------------------------------
    # decided by interpreting the indenter (E7, the scenarios of C18) when that is possible, else on the shape of the ALL view
    to_list = ind.methods.get('to_list')
    glyph_sem = _all_lines_start_with_glyph(ctx, ind)
    if glyph_sem is not None:
        n_runs, bad_ = glyph_sem
        run.add('C19.every-line', tg.name, 'Indentizer.to_list', f'mode ALL: {n_runs} configurations x line sequences', not bad_,
                f'in bullet mode ALL every output line starts with the glyph and there are as many as input lines (to_list interpreted on '
                f'{n_runs} configuration / line-sequence pairs)' if not bad_ else 'mode ALL: ' + '; '.join(bad_[:3]))
        run.add('C19.every-line', tg.name, 'Indentizer.__post_init__', 'bullet prefix starts with the glyph', not bad_,
                'the bullet prefix begins with the configured glyph for space and tab indentation' if not bad_ else
                'see the mode ALL finding')
    elif to_list is None:
        run.error('C19.every-line', tg.name, 'Indentizer.to_list', 'to_list', 'Indentizer.to_list vanished')
    else:
        from .shared import to_list_views
        view_all = to_list_views(ctx).get('ALL')
        _all_branch(ctx, view_all if view_all is not None else to_list)

    # ---- C19.every-line (c): the bullet prefix starts with the glyph --------------------------------------------------------------
    post = ind.methods.get('__post_init__')
    n_pref = 0
    if glyph_sem is not None:
        n_pref = 2
    elif post is not None:
        # judged on the views of __post_init__ with a bullet list, for space and for tab indentation (specialisation: which
        # helpers build the prefix does not matter)
        from .shared import post_init_views
        for label, view in post_init_views(ctx).items():
            if not label.endswith('bullets-True'):
                continue
            for a in [x for x in view.node.body if isinstance(x, ast.Assign)]:
                if ast.unparse(a.targets[0]) != 'self._bulletized_indent':
                    continue
                n_pref += 1
                ok, why = _starts_with_glyph(ctx, view, a.value)
                run.add('C19.every-line', tg.name, post.qualname, f'{label}: {ast.unparse(a)[:70]}', ok, why, node=a)
    if n_pref < 2:
        run.error('C19.every-line', tg.name, 'Indentizer.__post_init__', 'bullet prefix assignments',
                  f'{n_pref} assignments of _bulletized_indent recognised (2 confirmed by hand)')

    # ---- C19.every-line (d): every physical line is its own entry -------------------------------------------------------------------
    app = tb.methods.get('append')
    if app is None:
        run.error('C19.every-line', tg.name, 'TextBlock.append', 'append', 'TextBlock.append vanished')
    else:
        _split_rule(ctx, app)

    # ---- C19.every-line (e) + C19.pure-render: Comment.__str__ ----------------------------------------------------------------------------
    sfn = comment.methods.get('__str__')
    if sfn is None:
        run.add('C19.every-line', cg_mod, 'Comment.__str__', '__str__', False,
                'Comment has no __str__: rendering falls back to TextBlock.__str__ without the `//` prefixes')
    else:
        mut = Mutations(prog, ctx.cg)
        run.stats['ownership_fixpoint_iterations'] = mut.solve()
        rets = [n for n in iter_own_nodes(sfn.node) if isinstance(n, ast.Return)]
        indents = [n for n in iter_own_nodes(sfn.node) if isinstance(n, ast.Call) and isinstance(n.func, ast.Attribute)
                   and n.func.attr == 'indent']
        for r in rets:
            inside = [c for c in indents if any(x is c for x in ast.walk(_resolve(ctx, sfn, r.value) or r.value))]
            if not inside and isinstance(r.value, ast.Call):
                # str(<name>) where the name is single-defined
                for a in ast.walk(r.value):
                    if isinstance(a, ast.Name):
                        d = _resolve(ctx, sfn, a)
                        inside += [c for c in indents if d is not None and any(x is c for x in ast.walk(d))]
            if not inside and _renders_indented_lines(ctx, sfn, r):
                run.holds('C19.every-line', cg_mod, 'Comment.__str__', r,
                          'the rendered text joins the lines that the installed `//` indentizer produces (to_list of the line buffer)',
                          node=r)
                continue
            ok = bool(inside) and all(not c.args and not c.keywords for c in inside)
            run.add('C19.every-line', cg_mod, 'Comment.__str__', r, ok,
                    'the rendered text is the `//`-indented copy' if ok else
                    ('the rendered text is not the result of indent(): lines are emitted without `//`' if not inside else
                     'indent() is given another indentizer: the `//` configuration is replaced'), node=r)
        if not rets:
            run.add('C19.every-line', cg_mod, 'Comment.__str__', 'return', False, 'Comment.__str__ returns nothing')
        touched = mut.mut_self.get(sfn.fq) or {}
        run.add('C19.pure-render', cg_mod, 'Comment.__str__', 'mutation of self', not touched,
                'rendering does not modify the comment object' if not touched else
                'rendering modifies the comment itself (' + '; '.join(sorted({' <- '.join(e.chain()[:2]) for e in touched.values()}))[:300]
                + '): a second str() or a later append sees already prefixed lines')
        for c in indents:
            rs = mut.roots(sfn, c.func.value)
            fresh = bool(rs) and all(is_fresh(x) and not any(h[0] in ('self', 'param', 'global') for _p, h in x[1]) for x in rs)
            run.add('C19.pure-render', cg_mod, 'Comment.__str__', c, fresh,
                    'indent() is applied to a fresh deep copy' if fresh else
                    f'indent() is applied to `{ast.unparse(c.func.value)[:50]}`, which is not a fresh copy', node=c)
        # A Comment that is extended stays the same Comment: the in-place operations it inherits from TextBlock hand back the
        # object itself - `c += text` re-binds c to what __iadd__ returns, and a plain TextBlock built from the raw lines
        # renders the user text without the `//` prefix.
        tb_cls = prog.cls('text_gen', 'TextBlock')
        for mname in ('__iadd__', 'append'):
            m_ = prog.lookup_method(comment, mname)
            if m_ is None or m_.cls is comment:
                continue
            rets = [r for r in iter_own_nodes(m_.node) if isinstance(r, ast.Return)]
            ok_ = bool(rets) and all(isinstance(r.value, ast.Name) and r.value.id == 'self' for r in rets)
            if not ok_ and rets and all(isinstance(r.value, ast.Call) and isinstance(r.value.func, ast.Attribute) and
                                        isinstance(r.value.func.value, ast.Name) and r.value.func.value.id == 'self' and
                                        r.value.func.attr in ('append', '__iadd__') for r in rets):
                ok_ = True      # return self.append(x): the in-place method's own result
            run.add('C19.pure-render', m_.module.name, m_.qualname, f'{m_.qualname} returns self', ok_,
                    f'{mname} extends the block in place and hands back the object itself (a Comment stays a Comment)' if ok_ else
                    f'{m_.qualname} does not return `self`: `comment {"+=" if mname == "__iadd__" else ".append"} text` yields another '
                    f'object - a plain {tb_cls.name} holding the raw lines, which renders the user text without the comment prefix',
                    node=rets[0] if rets else None)
        # other methods of Comment must not mutate on render either
        for name, m in comment.methods.items():
            if name in ('__init__', '__str__'):
                continue
            run.remark(f'Comment.{name} is an additional method (not part of the rendering path)')

    # ---- C19.sink / not-last / headers: templates -----------------------------------------------------------------------------------------------
    ev = Evaluator(prog, ctx.cg, atomic_classes=('TypeDesc', 'Fqn', 'TemplateArg', 'Function', 'Constructor', 'Destructor'))
    roots = {'cfg': SHELL_TAINT}
    frames = _shell_frames(ctx, ev)
    n_text = 0
    for m, (fname, c) in frames.items():
        where = f'Builder.{m}'
        occ = occurrences(c, roots)
        bad_text = sorted({t for k, t, inc in occ if k == 'text' and not inc})
        bad_cond = sorted({t for k, t, inc in occ if k == 'cond' and not inc})
        n_text += sum(1 for k, t, inc in occ if k == 'text')
        run.add('C19.sink', 'dznpy.adv_shell', where, 'copyright / creator_info text', not bad_text,
                'copyright and creator information occur only inside Comment text' if not bad_text else
                f'{bad_text} is emitted outside a comment: a line of it becomes code')
        run.add('C19.sink', 'dznpy.adv_shell', where, 'conditions outside comments', not bad_cond,
                'no generated code depends on the copyright / creator information' if not bad_cond else
                f'code outside comments is generated depending on {bad_cond}')
        focc = occurrences(fname, roots) if isinstance(fname, TStr) else []
        run.add('C19.sink', 'dznpy.adv_shell', where, 'file name', not focc,
                'the file name does not depend on the copyright / creator information' if not focc else
                f'the file name depends on {sorted({t for _k, t, _i in focc})}')
        for cm in comments_of(c):
            _not_last(run, 'dznpy.adv_shell', where, cm.body, roots)
        first = _first_is_comment(c)
        run.add('C19.headers', 'dznpy.adv_shell', where, 'header comment position', first,
                'the file starts with the header comment' if first else 'the file does not start with the header comment')
    if not run.has_violation():
        want = {('_create_headerfile', 'cfg.copyright'), ('_create_headerfile', 'cfg.creator_info'), ('_create_sourcefile', 'cfg.copyright')}
        have = {(m, t) for m, (_f, c) in frames.items() for k, t, _i in occurrences(c, roots) if k == 'text'}
        for w in sorted(want - have):
            run.remark(f'{w[1]} is not rendered into {w[0]} (not required by the property)')
    # every read of the tainted attributes in the package happens in a function covered by the templates
    reads = []
    for fn in prog.all_functions():
        for n in iter_own_nodes(fn.node):
            if isinstance(n, ast.Attribute) and n.attr in SHELL_TAINT and isinstance(n.ctx, ast.Load):
                t = ctx.cg.env(fn).type_of(n.value)
                if 'Configuration' in repr(t) or t[0] == 'any':
                    reads.append((fn, n))
    covered = set(ev.visited) if hasattr(ev, 'visited') else set()
    from .shared import expanded_everywhere
    covered |= expanded_everywhere(ctx)        # helpers whose every call was expanded in place are judged inside their callers
    for fn, n in reads:
        ok = fn.fq in covered
        run.add('C19.sink', fn.module.name, fn.qualname, n, ok,
                'read inside the evaluated file templates' if ok else
                f'`{ast.unparse(n)}` is read in {fn.qualname}, which is not part of the evaluated header/source templates: '
                f'its flow into generated text is not covered', node=n)
    if len(reads) < 3:
        run.error('C19.sink', 'dznpy.adv_shell', '-', 'reads of copyright / creator_info',
                  f'only {len(reads)} reads found (3+ confirmed by hand)')

    # support files ---------------------------------------------------------------------------------------------------------------------
    sf = prog.modules['dznpy.support_files'].functions.get('generate_cpp_code')
    if sf is None:
        run.error('C19.sink', 'dznpy.support_files', 'generate_cpp_code', 'generate_cpp_code', 'generate_cpp_code vanished')
    else:
        ev2 = Evaluator(prog, ctx.cg)
        r = ev2.eval_entry(sf)
        if not isinstance(r, TStr):
            run.error('C19.sink', 'dznpy.support_files', 'generate_cpp_code', 'template', f'not a text template: {r!r}'[:120])
        else:
            p0 = sf.params()[0].arg
            roots2 = {p0: ('header',)}
            occ = occurrences(r, roots2)
            bad = [t for k, t, inc in occ if not inc]
            run.add('C19.sink', 'dznpy.support_files', 'generate_cpp_code', 'header text', bool(occ) and not bad,
                    'the support-file header text occurs only inside the header comment' if occ and not bad else
                    ('the header text is not rendered' if not occ else 'the header text is emitted outside a comment'))
            cr = prog.modules['dznpy.dznpy_version'].assigns.get('COPYRIGHT') if 'dznpy.dznpy_version' in prog.modules else None
            crv = cr.value if isinstance(cr, ast.Constant) else None
            if not isinstance(crv, str):
                run.error('C19.sink', 'dznpy.dznpy_version', '-', 'COPYRIGHT', 'COPYRIGHT constant not found')
            else:
                lines = [l for l in crv.splitlines() if l.strip()]
                outside = _literal_outside_comments(r)
                inside = ''.join(_literal_text(cm.body) for cm in comments_of(r))
                ok = all(l in inside for l in lines) and not any(l in outside for l in lines)
                run.add('C19.sink', 'dznpy.support_files', 'generate_cpp_code', 'COPYRIGHT constant', ok,
                        'the dznpy copyright text is rendered inside the header comment only' if ok else
                        'the dznpy copyright text is emitted outside the header comment (or not at all)')
            for cm in comments_of(r):
                _not_last(run, 'dznpy.support_files', 'generate_cpp_code', cm.body, roots2)
            first = _first_is_comment(r)
            run.add('C19.headers', 'dznpy.support_files', 'generate_cpp_code', 'header comment position', first,
                    'the file starts with the header comment' if first else 'the file does not start with the header comment')
    run.floor('C19.every-line', 9)
    run.floor('C19.pure-render', 2)
    run.floor('C19.sink', 10)
    run.floor('C19.not-last', 4)
    run.floor('C19.headers', 3)


# ------------------------------------------------------------------------------------------------------------------------------------------
def _literal_text(s: TStr) -> str:
    out = ''
    for p in s.parts:
        if isinstance(p, Lit):
            out += p.text
        elif isinstance(p, AltS):
            out += _literal_text(p.a) + _literal_text(p.b)
        elif isinstance(p, RepS):
            out += _literal_text(p.elem)
    return out


def _literal_outside_comments(s: TStr) -> str:
    out = ''
    for p in s.parts:
        if isinstance(p, Lit):
            out += p.text
        elif isinstance(p, AltS):
            out += _literal_outside_comments(p.a) + _literal_outside_comments(p.b)
        elif isinstance(p, RepS):
            out += _literal_outside_comments(p.elem)
    return out


def _callee_name(c: ast.Call) -> str:
    f = c.func
    return f.id if isinstance(f, ast.Name) else f.attr if isinstance(f, ast.Attribute) else ''


def _resolve(ctx, fn: FuncInfo, e: Optional[ast.AST], depth: int = 0) -> Optional[ast.AST]:
    """Follow single-definition local names."""
    if isinstance(e, ast.Name) and depth < 4:
        defs = [n for n in iter_own_nodes(fn.node) if isinstance(n, ast.Assign) and len(n.targets) == 1
                and isinstance(n.targets[0], ast.Name) and n.targets[0].id == e.id]
        if len(defs) == 1:
            return _resolve(ctx, fn, defs[0].value, depth + 1)
    return e


def _field_default_src(cls: ClassInfo, name: str) -> Optional[str]:
    f = cls.fields.get(name)
    if not f or f[1] is None:
        return None
    d = f[1]
    if isinstance(d, ast.Call) and _callee_name(d) == 'field':
        kw = {k.arg: k.value for k in d.keywords}
        if 'default' in kw:
            return ast.unparse(kw['default'])
        return None
    return ast.unparse(d)


def _field_default(ctx, cls: ClassInfo, name: str) -> Optional[str]:
    f = cls.fields.get(name)
    if not f or f[1] is None:
        return None
    d = f[1]
    if isinstance(d, ast.Call) and _callee_name(d) == 'field':
        kw = {k.arg: k.value for k in d.keywords}
        d = kw.get('default')
    return d.value if isinstance(d, ast.Constant) and isinstance(d.value, str) else None


def _renders_indented_lines(ctx, fn: FuncInfo, r: ast.Return) -> bool:
    """`return EOL.join(X) + EOL` (or the empty string for no lines) where X is `self._indentizer.to_list(<own line buffer>)`,
    possibly through a local and through a method of the class (or a base class) that returns exactly that."""
    from .c18 import join_shape, const_str
    prog = ctx.prog
    if const_str(ctx, fn, r.value) == '':
        return bool(ctx.flow.path_conditions(r))          # the empty-comment case of a guarded join
    sh = join_shape(ctx, fn, r.value)
    if sh is None or sh[1] != '\n' or sh[2] != '\n':
        return False

    def is_indented(e: ast.expr, f: FuncInfo, depth: int = 0) -> bool:
        if depth > 4:
            return False
        if isinstance(e, ast.Name):
            sites = ctx.cg.env(f)._assign_sites.get(e.id, [])
            return len(sites) == 1 and sites[0][0] == 'expr' and is_indented(sites[0][1], f, depth + 1)
        if isinstance(e, ast.Call) and isinstance(e.func, ast.Attribute):
            if e.func.attr == 'to_list' and ast.unparse(e.func.value) == 'self._indentizer' and len(e.args) == 1 and \
                    ast.unparse(e.args[0]) in ('self._lines', 'self.lines'):
                return True
            if isinstance(e.func.value, ast.Name) and e.func.value.id == 'self' and not e.args and f.cls is not None:
                m = prog.lookup_method(f.cls, e.func.attr)
                if m is not None:
                    rets = [x for x in iter_own_nodes(m.node) if isinstance(x, ast.Return)]
                    return len(rets) == 1 and rets[0].value is not None and is_indented(rets[0].value, m, depth + 1)
        return False
    return is_indented(sh[0], fn)


def _all_branch(ctx, to_list: FuncInfo):
    run = ctx.run
    mod = to_list.module.name
    flat = [n for n in iter_own_nodes(to_list.node) if isinstance(n, ast.Assign) and isinstance(n.value, ast.Call)
            and _callee_name(n.value) == 'flatten_to_strlist']
    if len(flat) != 1:
        run.error('C19.every-line', mod, to_list.qualname, 'flattened input', 'expected one flatten_to_strlist(...) assignment')
        return
    L = flat[0].targets[0].id
    rets = [n for n in iter_own_nodes(to_list.node) if isinstance(n, ast.Return)]

    def facts(n):
        return [(ast.unparse(c), p) for c, p in atomic_facts(ctx.flow.path_conditions(n))]

    # `to_list` is the view of Indentizer.to_list for bullet mode ALL (rules.shared.to_list_views): the branch on the mode is
    # folded away, every return that can be reached with lines to render must render every line with the bullet prefix
    n_map = 0
    for r in rets:
        f = facts(r)
        if any((t == L and not p) or (t == f'not {L}' and p) for t, p in f):
            ok = isinstance(r.value, (ast.List, ast.Tuple)) and not r.value.elts
            run.add('C19.every-line', mod, to_list.qualname, r, ok,
                    'no lines, nothing to render' if ok else 'something is rendered for an empty comment', node=r)
            continue
        n_map += 1
        ok, why = _every_line_map(ctx, to_list, r.value, L)
        run.add('C19.every-line', mod, to_list.qualname, r, ok, why, node=r)
    if n_map == 0:
        run.add('C19.every-line', mod, to_list.qualname, 'rendering in BulletListMode.ALL', False,
                'no return renders the lines when the bullet mode is ALL')


def _every_line_map(ctx, fn: FuncInfo, e: ast.AST, src: str) -> Tuple[bool, str]:
    nested = {}
    f = fn
    while f is not None:
        nested.update(f.nested)
        f = f.parent
    if isinstance(e, ast.Call) and isinstance(e.func, ast.Name) and e.func.id in nested:
        callee = nested[e.func.id]
        if not (len(e.args) == 1 and isinstance(e.args[0], ast.Name) and e.args[0].id == src):
            return False, f'`{ast.unparse(e)[:50]}` is not applied to the whole line list'
        rs = [n for n in iter_own_nodes(callee.node) if isinstance(n, ast.Return)]
        if len(rs) != 1:
            return False, f'{callee.name} has {len(rs)} returns'
        return _every_line_map(ctx, callee, rs[0].value, callee.params()[0].arg)
    if isinstance(e, ast.ListComp) and len(e.generators) == 1:
        g = e.generators[0]
        if g.ifs:
            return False, 'lines are filtered: some lines get no `//` prefix / are dropped'
        if not (isinstance(g.iter, ast.Name) and g.iter.id == src):
            return False, f'iterates `{ast.unparse(g.iter)[:40]}`, not the whole line list'
        v = g.target.id if isinstance(g.target, ast.Name) else None
        elt = e.elt
        while isinstance(elt, ast.Call) and isinstance(elt.func, ast.Attribute) and elt.func.attr in ('strip', 'rstrip') and not elt.args:
            elt = elt.func.value
        if isinstance(elt, ast.IfExp):
            return False, 'the prefix is applied conditionally per line'
        if not isinstance(elt, ast.JoinedStr):
            return False, f'line expression `{ast.unparse(elt)[:50]}` is not prefix + line'
        vals = elt.values
        if not (vals and isinstance(vals[0], ast.FormattedValue) and ast.unparse(vals[0].value) == 'self._bulletized_indent'):
            return False, 'the rendered line does not start with the bullet prefix'
        if not any(isinstance(x, ast.FormattedValue) and isinstance(x.value, ast.Name) and x.value.id == v for x in vals[1:]):
            return False, 'the rendered line does not carry the original line text'
        return True, 'every line of the whole list is rendered as bullet prefix + line'
    if isinstance(e, ast.BinOp) and isinstance(e.op, ast.Add) and isinstance(e.left, ast.List) and len(e.left.elts) == 1 and \
            isinstance(e.right, ast.ListComp):
        # `first, *rest = src` ; [f(first)] + [f(x) for x in rest]
        unpacks = [a_ for a_ in iter_own_nodes(fn.node) if isinstance(a_, ast.Assign) and len(a_.targets) == 1 and
                   isinstance(a_.targets[0], (ast.Tuple, ast.List)) and len(a_.targets[0].elts) == 2 and
                   isinstance(a_.targets[0].elts[0], ast.Name) and isinstance(a_.targets[0].elts[1], ast.Starred) and
                   isinstance(a_.targets[0].elts[1].value, ast.Name) and isinstance(a_.value, ast.Name) and a_.value.id == src]
        if len(unpacks) == 1:
            first, rest = unpacks[0].targets[0].elts[0].id, unpacks[0].targets[0].elts[1].value.id
            head = ast.ListComp(elt=e.left.elts[0], generators=[ast.comprehension(
                target=ast.Name(id=first, ctx=ast.Store()), iter=ast.Name(id=src, ctx=ast.Load()), ifs=[], is_async=0)])
            ok1, why1 = _every_line_map(ctx, fn, head, src)
            tail = ast.ListComp(elt=e.right.elt, generators=[ast.comprehension(
                target=e.right.generators[0].target, iter=ast.Name(id=src, ctx=ast.Load()), ifs=e.right.generators[0].ifs, is_async=0)]) \
                if len(e.right.generators) == 1 and isinstance(e.right.generators[0].iter, ast.Name) and \
                e.right.generators[0].iter.id == rest else None
            if tail is None:
                return False, 'the remaining lines are not taken from the rest of the list'
            ok2, why2 = _every_line_map(ctx, fn, tail, src)
            if ok1 and ok2:
                return True, 'the first line and every remaining line are rendered as bullet prefix + line'
            return False, why1 if not ok1 else why2
    return False, f'`{ast.unparse(e)[:50]}` is not a per-line map of the whole list'


def _all_lines_start_with_glyph(ctx, ind: ClassInfo):
    from ..scenario import Interp, EnumV, Raised, Undecided
    import itertools
    prog = ctx.prog
    indentor = prog.cls('text_gen', 'Indentor')
    blm = prog.cls('text_gen', 'BulletListMode')
    bl = prog.cls('text_gen', 'BulletList')
    to_list = prog.lookup_method(ind, 'to_list')
    if None in (indentor, blm, bl, to_list):
        return None
    alphabet = ['', '  ', 'x', ' y ', '// z']
    seqs = [list(s_) for n in (0, 1, 2) for s_ in itertools.product(alphabet, repeat=n)] + [['x', '', 'x'], ['', '', '']]
    from .c18 import _long_sequences
    seqs += _long_sequences(ind)
    bad: List[str] = []
    n_runs = 0
    glyph = ''

    def ok_line(out_: Any, src_: str) -> bool:
        # the line starts with the glyph and still holds its text - or nothing but white space comes out for a line that
        # is nothing but white space (that cannot be code either)
        return isinstance(out_, str) and ((out_.startswith(glyph) and src_.strip() in out_) or (not out_.strip() and not src_.strip()))
    try:
        for ind_kind, n in (('SPACES', 0), ('SPACES', 4), ('TAB', 4)):
            for glyph in ('//', '-', '>>>>>'):
                it = Interp(prog)
                it.MAX_STEPS = 3000000
                try:
                    blo = it.construct(bl, [], {'mode': EnumV(blm, 'ALL'), 'glyph': glyph})
                    izr = it.construct(ind, [], {'indentor': EnumV(indentor, ind_kind), 'spaces_count': n, 'bullet_list': blo})
                except Raised as exc:
                    bad.append(f'{ind_kind}/{n}/{glyph!r}: the configuration is refused ({exc.name})')
                    continue
                for lines in seqs:
                    n_runs += 1
                    try:
                        got = it.call_function(to_list, [list(lines)], {}, self_val=izr)
                    except Raised as exc:
                        bad.append(f'{ind_kind.lower()} {n}, glyph {glyph!r}, lines {lines!r}: raises {exc.name.split(".")[-1]}')
                        continue
                    got = list(got) if isinstance(got, (list, tuple)) else None
                    if got is None:
                        raise Undecided('to_list does not yield a list')
                    if len(got) != len(lines):
                        bad.append(f'{ind_kind.lower()} {n}, glyph {glyph!r}, lines {lines!r}: {len(got)} lines come out')
                    elif not all(ok_line(g_, lines[i]) for i, g_ in enumerate(got)):
                        k = next(i for i, g_ in enumerate(got) if not ok_line(g_, lines[i]))
                        bad.append(f'{ind_kind.lower()} {n}, glyph {glyph!r}, lines {lines!r}: line {k} is {got[k]!r} - it does not start '
                                   f'with the glyph (or has lost its text)')
    except Undecided:
        return None
    return n_runs, bad


def _starts_with_glyph(ctx, fn: FuncInfo, v: ast.AST) -> Tuple[Optional[bool], str]:
    """Abstract interpretation of the prefix expression (dznverif.strshape): what does the string start with?"""
    sh = Shapes(fn.node, lambda name: const_str(ctx, fn, ast.Name(id=name, ctx=ast.Load())))
    a = sh.string(v)
    if a is None:
        return None, f'bullet prefix expression `{ast.unparse(v)[:60]}` is outside the modelled string sub-language'
    if a.starts == 'glyph':
        return True, 'bullet prefix starts with the configured glyph'
    if not a.has_glyph:
        return False, f'bullet prefix `{ast.unparse(v)[:50]}` does not contain the configured glyph'
    return False, f'bullet prefix `{ast.unparse(v)[:50]}` does not start with the glyph (it starts with {a.starts or "padding"})'


def _split_rule(ctx, app: FuncInfo):
    """Every physical line is its own entry: what append() writes into the line buffer is, judged by the domain of C17
    (rules.c17.Clean), a list of line-break free strings - str.splitlines() of each flattened item, the guarded empty
    string, or the lines of another block - however the loop / comprehension is written."""
    from .c17 import Clean
    from ..mutation import Mutations as _M
    run = ctx.run
    mod = app.module.name
    mut = _M(ctx.prog, ctx.cg)
    mut.solve()
    cl = Clean(ctx, mut)
    n = 0
    for u in iter_own_nodes(app.node):
        if isinstance(u, ast.Call) and isinstance(u.func, ast.Attribute) and u.func.attr in ('extend', 'append', 'insert') and \
                ast.unparse(u.func.value) in ('self.lines', 'self._lines') and u.args:
            n += 1
            ok, why = cl.clean_list(app, u.args[0]) if u.func.attr == 'extend' else cl.clean_str(app, u.args[-1], at=u)
            if ok is None:
                run.error('C19.every-line', mod, app.qualname, u, f'cannot classify what is written into the line buffer: {why}', node=u)
            else:
                run.add('C19.every-line', mod, app.qualname, u, ok,
                        f'each physical line is its own entry ({why})' if ok else
                        f'embedded line breaks survive into one entry: {why}', node=u)
    if n == 0:
        run.error('C19.every-line', mod, app.qualname, 'line buffer writes', 'append() does not write the line buffer')




def _comment_by_interpretation(ctx, comment: ClassInfo, tb: ClassInfo):
    """Comment(content) constructed and rendered by interpretation (dznverif.scenario, E7) for every way the generator and
    a user hand text to a comment: a string (one line, several lines, blank lines, text that looks like code), a list, a
    nested list, a text block - with and without a header of its own -, a comment inside a comment, text appended after
    construction.  Every line of str(comment) must start with `//` or be blank, and every piece of text must be in it.  The
    comment machinery never looks into the text (it splits at line breaks and prefixes), so the pieces stand for any text."""
    from ..scenario import Interp, Obj, Raised, Undecided
    run, prog = ctx.run, ctx.prog
    to_str = prog.lookup_method(comment, '__str__')
    if to_str is None:
        return
    code = 'int x = 0; }'
    bad: List[str] = []
    n = 0

    def block(it, lines, header=None):
        return it.construct(tb, [list(lines)], {} if header is None else {'header': header})

    scenarios = [
        ('a string', lambda it: 'one line', ['one line']),
        ('a multi-line string', lambda it: f'first\n{code}\n\nlast', ['first', code, 'last']),
        ('a list of strings', lambda it: ['a', '', code], ['a', code]),
        ('a nested list', lambda it: ['a', [code, ['c']]], ['a', code, 'c']),
        ('a text block', lambda it: block(it, ['a', code]), ['a', code]),
        ('a text block with a header', lambda it: block(it, ['a'], header=code), ['a']),
        ('a list holding a text block with a header', lambda it: ['x', block(it, ['a'], header=code)], ['x', 'a', code]),
        ('a comment', lambda it: it.construct(comment, [[code, 'b']], {}), [code, 'b']),
        ('nothing', lambda it: None, []),
    ]
    try:
        for label, make, pieces in scenarios:
            for appended in (None, code):
                it = Interp(prog)
                it.MAX_STEPS = 2000000
                n += 1
                try:
                    c = it.construct(comment, [make(it)], {})
                    if appended is not None:
                        app = prog.lookup_method(comment, 'append')
                        if app is None:
                            continue
                        it.call_function(app, [appended], {}, self_val=c)
                    text = it.call_function(to_str, [], {}, self_val=c)
                except Raised as exc:
                    bad.append(f'a comment made of {label}: raises {exc.name.split(".")[-1]}')
                    continue
                if not isinstance(text, str):
                    raise Undecided('Comment.__str__ does not yield a string')
                for ln in text.split('\n'):
                    if ln.strip() and not ln.startswith('//'):
                        bad.append(f'a comment made of {label}{" with text appended" if appended else ""}: the line {ln!r} is rendered outside '
                                   f'the comment')
                        break
                for piece in pieces + ([appended] if appended else []):
                    if piece not in text:
                        bad.append(f'a comment made of {label}: the text {piece!r} is not rendered')
                        break
    except Undecided as exc:
        run.remark(f'C19: Comment could not be interpreted ({exc}); the shape rules decide alone')
        return
    run.add('C19.every-line', comment.module.name, 'Comment.__str__', f'{n} comments constructed and rendered', not bad,
            'whatever a comment is made of - strings, lists, text blocks with a header, comments - every rendered line starts with `//` '
            'or is blank' if not bad else '; '.join(bad[:3]))
    # the helpers through which the generators pour a comment into a file (chunk / cond_chunk): what comes out is still a comment
    bad2: List[str] = []
    n2 = 0
    try:
        for fname, calls in (('chunk', [('content', {})]), ('cond_chunk', [('preamble', {'content': 'int y;', 'empty_response': None}),
                                                                           ('content', {'preamble': None, 'empty_response': None}),
                                                                           ('empty_response', {'preamble': None, 'content': None})])):
            f = prog.modules['dznpy.text_gen'].functions.get(fname) if 'dznpy.text_gen' in prog.modules else None
            if f is None:
                continue
            params = [a.arg for a in f.params()]
            for pname, others in calls:
                if pname not in params or any(k not in params for k in others):
                    continue
                for label, make in (('a comment', lambda it: it.construct(comment, [[code, '', '   indented']], {})),
                                    ('a list holding a comment', lambda it: [it.construct(comment, [[code, 'b']], {})])):
                    it = Interp(prog)
                    it.MAX_STEPS = 2000000
                    n2 += 1
                    try:
                        res = it.call_function(f, [], dict(others, **{pname: make(it)}))
                        if res is None:
                            bad2.append(f'{fname}({pname}={label}) yields nothing: the comment is dropped')
                            continue
                        m_str = prog.lookup_method(res.cls, '__str__') if isinstance(res, Obj) else None
                        text = it.call_function(m_str, [], {}, self_val=res) if m_str is not None else None
                    except Raised as exc:
                        bad2.append(f'{fname}({pname}={label}) raises {exc.name.split(".")[-1]}')
                        continue
                    if not isinstance(text, str):
                        raise Undecided(f'{fname} does not yield a text block')
                    for ln in text.split('\n'):
                        if code in ln and not ln.startswith('//'):
                            bad2.append(f'{fname}({pname}={label}): the comment line {ln!r} is poured into the file as code (no `//`)')
                            break
                    if code not in text:
                        bad2.append(f'{fname}({pname}={label}): the comment text is lost')
    except Undecided as exc:
        run.remark(f'C19: chunk / cond_chunk could not be interpreted ({exc})')
        return
    if n2:
        run.add('C19.every-line', 'dznpy.text_gen', 'chunk', f'{n2} comments poured through chunk / cond_chunk', not bad2,
                'a comment poured into a chunk (alone or inside a list; as content, preamble or empty response) stays a comment: every line of it '
                'starts with `//`' if not bad2 else '; '.join(bad2[:3]))
