"""C03 - port configuration gives every exposed port exactly one semantics or is rejected.

Decides: C03.total (a port without semantics cannot pass silently: the lookup of the match result is a guarded
lookup raising AdvShellError), C03.explicit-first, C03.unknown (unknown-name rejection dominates the result),
C03.lookup (semantics keyed by the same port, handed on unchanged), C03.injected, C03.sides (per-side match gets
the per-side name set), C03.rejects (construction-time rejections exist), C03.errors (only configuration errors
or argument validators are raised), C03.no-files.  The full accept/reject relation over all selections is
value-level and not decided.
"""
from __future__ import annotations

import ast
from typing import Dict, List, Optional, Tuple

from ..model import FuncInfo, ClassInfo, iter_own_nodes, strip_opt
from ..absval import Abs
from ..exceptions import ExcAnalysis
from ..flow import always_raises, atomic_facts, same_expr


def check(ctx):
    run, prog, cg = ctx.run, ctx.prog, ctx.cg
    run.explanation = (
        'Decided: C03.total - every read of the match result for an exposed port is a guarded lookup whose miss branch '
        'raises AdvShellError (a port left without semantics cannot pass silently or die with KeyError); '
        'C03.explicit-first - in PortsSemanticsCfg.match the explicit-name tests precede the wildcard tests and each '
        'branch assigns the semantics of the selection it tested; C03.unknown - the unknown-name rejection over both '
        'selections dominates the construction of the result; C03.lookup - the semantics handed to DznPortItf is the '
        'lookup result for that same port; C03.injected - only requires ports are filtered and only by the injected '
        'flag; C03.sides - provides/requires name sets reach the provides/requires selections; C03.rejects - the '
        'construction-time rejections (equal, overlapping, ALL+non-empty, mixed provides, empty name) exist; '
        'C03.errors - port_selection raises only configuration errors or argument validators; C03.no-files - matching '
        'dominates file generation. Not decided: the input-space relation "for every pair of selections x every name '
        'set the verdict is the specified one" (value-level set algebra).')
    run.trusted = ['python ast module', 'dznverif E1/E2/E3a']
    abs_ = Abs(prog, cg, ctx.flow)
    ex = ExcAnalysis(prog, cg, ctx.flow, abs_)

    ps_mod = prog.module('adv_shell.port_selection')
    psc = prog.cls('adv_shell.port_selection', 'PortsSemanticsCfg')
    pc = prog.cls('adv_shell.port_selection', 'PortsCfg')
    mp = prog.cls('adv_shell.port_selection', 'MatchedPorts')
    rs = prog.cls('adv_shell.types', 'RuntimeSemantics')
    adv_err = prog.cls('adv_shell.types', 'AdvShellError')
    cde = prog.func('adv_shell.core.processing', 'create_dzn_elements')
    match = psc.methods.get('match')
    if match is None:
        run.error('C03.total', psc.module.name, 'PortsSemanticsCfg', 'match', 'PortsSemanticsCfg.match vanished')
        return

    def is_adv_error(fn: FuncInfo, r: ast.Raise) -> bool:
        return ex.is_sub(ex.exc_name(fn, r.exc), adv_err.fq)

    # ---- C03.total ----------------------------------------------------------------------------------------------------
    n_reads = 0
    for fn in prog.all_functions():
        if fn.module is ps_mod:
            continue
        env = cg.env(fn)
        for n in iter_own_nodes(fn.node):
            recv = None
            kind = None
            if isinstance(n, ast.Subscript) and isinstance(n.ctx, ast.Load) and isinstance(n.value, ast.Attribute) \
                    and n.value.attr == 'value' and strip_opt(abs_.type_at(fn, n.value.value, n)) == ('cls', mp.fq):
                recv, kind, key = n.value, 'subscript', n.slice
            elif isinstance(n, ast.Call) and isinstance(n.func, ast.Attribute) and n.func.attr == 'get' and \
                    isinstance(n.func.value, ast.Attribute) and n.func.value.attr == 'value' and \
                    strip_opt(abs_.type_at(fn, n.func.value.value, n)) == ('cls', mp.fq):
                recv, kind, key = n.func.value, 'get', (n.args[0] if n.args else None)
            if recv is None:
                continue
            n_reads += 1
            ok, why = False, ''
            if kind == 'subscript':
                # membership guard whose miss branch raises AdvShellError, or an enclosing try/except KeyError that does
                guard = _membership_guard(ctx, fn, n, recv, key)
                if guard is not None:
                    r = next((x for x in ast.walk(guard) if isinstance(x, ast.Raise)), None)
                    ok = r is not None and is_adv_error(fn, r)
                    why = 'guarded lookup: a port without semantics raises ' + (ex.exc_name(fn, r.exc).split('.')[-1] if r else '?')
                else:
                    tr = ctx.flow.enclosing(n, (ast.Try,))
                    if tr is not None:
                        for h in tr.handlers:
                            hn = ex.exc_name(fn, h.type) if h.type is not None else ''
                            if hn in ('KeyError', 'LookupError') and always_raises(h.body):
                                r = next((x for x in ast.walk(h) if isinstance(x, ast.Raise)), None)
                                ok = r is not None and is_adv_error(fn, r)
                                why = 'KeyError is converted to ' + ex.exc_name(fn, r.exc).split('.')[-1]
                    if not ok and not why:
                        why = ('bare subscript of the match result: a port that no selection covers (e.g. sts={"hal"}, '
                               'mts=NONE with a further port) dies with KeyError instead of a configuration error')
            else:
                # .get(): the result must be tested for None with a raising miss branch
                stmt = ctx.flow.enclosing_stmt(n)
                tgt = stmt.targets[0].id if isinstance(stmt, ast.Assign) and isinstance(stmt.targets[0], ast.Name) else None
                blk = fn.node.body
                for s in ast.walk(fn.node):
                    if isinstance(s, ast.If) and tgt and always_raises(s.body):
                        facts = atomic_facts([(s.test, True)])
                        if any((ast.unparse(c) == f'{tgt} is None' and p) or (ast.unparse(c) == tgt and not p)
                               for c, p in facts):
                            r = next((x for x in ast.walk(s) if isinstance(x, ast.Raise)), None)
                            ok = r is not None and is_adv_error(fn, r)
                            why = 'get() result tested for None, miss raises ' + ex.exc_name(fn, r.exc).split('.')[-1]
                if not ok and not why:
                    why = 'get() result is used without a None test that raises a configuration error'
            run.add('C03.total', fn.module.name, fn.qualname, n, ok, why, node=n)
    if n_reads == 0:
        run.error('C03.total', cde.module.name, cde.qualname, 'match result reads',
                  'no read of MatchedPorts.value found outside port_selection')

    # ---- C03.explicit-first / semantics per branch -------------------------------------------------------------------------------
    # The tests that decide a port's semantics, in evaluation order, as (text, selection, kind, semantics assigned, ok):
    # either an if/elif chain on self.sts / self.mts, or a loop over a literal sequence of (selection, semantics) pairs
    # whose body tests the selection and assigns the pair's semantics.
    loops = [n for n in iter_own_nodes(match.node) if isinstance(n, ast.For) and ctx.flow.enclosing(n, (ast.For,)) is None]
    seq: List[Tuple[str, str, str, str, bool]] = []
    recognised = False
    port_loop = loops[0] if len(loops) == 1 else None
    loopvar = getattr(port_loop.target, 'id', None) if port_loop is not None else None

    def kind_of(t: str) -> str:
        return 'strset' if 'match_strset' in t else 'wildcard' if 'match_wildcard' in t else '?'

    def tests_of(test: ast.expr) -> List[ast.expr]:
        return list(test.values) if isinstance(test, ast.BoolOp) and isinstance(test.op, ast.Or) else [test]

    if port_loop is not None and port_loop.body and isinstance(port_loop.body[-1], ast.If):
        node = port_loop.body[-1]
        recognised = True
        while True:
            assigns = [s_ for s_ in node.body if isinstance(s_, ast.Assign) and isinstance(s_.targets[0], ast.Subscript)]
            for t_ in tests_of(node.test):
                txt_ = ast.unparse(t_)
                sel = 'sts' if 'self.sts.' in txt_ else 'mts' if 'self.mts.' in txt_ else '?'
                ok_ = False
                sem = '?'
                if len(assigns) == 1:
                    key = ast.unparse(assigns[0].targets[0].slice)
                    sym = prog.resolve_expr_symbol(match.module, assigns[0].value)
                    if isinstance(sym, tuple) and sym[0] == 'enum_member' and sym[1] is rs:
                        sem = sym[2].lower()
                    call = next((c for c in ast.walk(t_) if isinstance(c, ast.Call)), None)
                    ok_ = sem == sel and key == loopvar and call is not None and bool(call.args) and ast.unparse(call.args[0]) == loopvar
                seq.append((txt_, sel, kind_of(txt_), sem, ok_))
            if len(node.orelse) == 1 and isinstance(node.orelse[0], ast.If):
                node = node.orelse[0]
            else:
                break
    elif port_loop is not None and port_loop.body and isinstance(port_loop.body[-1], ast.For):
        inner = port_loop.body[-1]
        it = inner.iter
        if isinstance(it, ast.Name):
            defs = [a_ for a_ in iter_own_nodes(match.node) if isinstance(a_, ast.Assign) and len(a_.targets) == 1
                    and isinstance(a_.targets[0], ast.Name) and a_.targets[0].id == it.id]
            it = defs[0].value if len(defs) == 1 else it
        pairs = []
        if isinstance(it, (ast.Tuple, ast.List)) and all(isinstance(e, ast.Tuple) and len(e.elts) == 2 for e in it.elts) and \
                isinstance(inner.target, ast.Tuple) and len(inner.target.elts) == 2 and all(isinstance(x, ast.Name) for x in inner.target.elts):
            for e in it.elts:
                sel_txt = ast.unparse(e.elts[0])
                sym = prog.resolve_expr_symbol(match.module, e.elts[1])
                if sel_txt in ('self.sts', 'self.mts') and isinstance(sym, tuple) and sym[0] == 'enum_member' and sym[1] is rs:
                    pairs.append((sel_txt.split('.')[1], sym[2].lower()))
        sel_var, sem_var = (inner.target.elts[0].id, inner.target.elts[1].id) if pairs else (None, None)
        body_if = inner.body[0] if len(inner.body) == 1 and isinstance(inner.body[0], ast.If) and not inner.body[0].orelse else None
        if pairs and len(pairs) == len(it.elts) and body_if is not None:
            assigns = [s_ for s_ in body_if.body if isinstance(s_, ast.Assign) and isinstance(s_.targets[0], ast.Subscript)]
            leaves = any(isinstance(s_, ast.Break) for s_ in body_if.body)
            if len(assigns) == 1 and leaves and ast.unparse(assigns[0].value) == sem_var and \
                    ast.unparse(assigns[0].targets[0].slice) == loopvar:
                recognised = True
                for sel, sem in pairs:
                    for t_ in tests_of(body_if.test):
                        txt_ = ast.unparse(t_)
                        call = next((c for c in ast.walk(t_) if isinstance(c, ast.Call)), None)
                        on_sel = call is not None and isinstance(call.func, ast.Attribute) and ast.unparse(call.func.value) == sel_var
                        ok_ = on_sel and sem == sel and bool(call.args) and ast.unparse(call.args[0]) == loopvar
                        seq.append((txt_.replace(sel_var + '.', f'self.{sel}.'), sel, kind_of(txt_), sem, ok_))
    if not recognised or len(seq) < 4:
        run.error('C03.explicit-first', match.module.name, match.qualname, 'selection tests',
                  f'the tests that assign a semantics in match() are neither an if/elif chain nor a loop over (selection, semantics) '
                  f'pairs ({len(seq)} tests recognised)')
    else:
        for txt_, sel, kind, sem, ok_ in seq:
            run.add('C03.explicit-first', match.module.name, match.qualname, txt_, ok_,
                    f'{sel.upper()} {kind} test assigns RuntimeSemantics.{sel.upper()} to the tested port' if ok_ else
                    f'branch `{txt_[:50]}` does not assign the semantics of the selection it tested to the tested port')
        kinds = [k for _t, _s, k, _m, _o in seq]
        first_wild = kinds.index('wildcard') if 'wildcard' in kinds else len(kinds)
        ok = all(k == 'strset' for k in kinds[:first_wild]) and all(k == 'wildcard' for k in kinds[first_wild:]) \
            and kinds.count('strset') == 2 and kinds.count('wildcard') == 2
        order_txt = ' '.join(f'{s_}.{k}' for _t, s_, k, _m, _o in seq)
        run.add('C03.explicit-first', match.module.name, match.qualname, 'test order ' + order_txt, ok,
                'explicit-name tests precede the wildcard tests' if ok else
                f'test order is [{order_txt}]: a wildcard is tested before the explicit names of the other selection - a wildcard can '
                f'win over an explicitly named port')
    run.floor('C03.explicit-first', 5)

    # ---- C03.unknown ------------------------------------------------------------------------------------------------------------
    body = match.node.body
    guards = [(k, s) for k, s in enumerate(body) if isinstance(s, ast.If) and always_raises(s.body)]
    loop_idx = body.index(loops[0]) if loops and loops[0] in body else len(body)
    ok, why = False, 'no rejection of configured names that the component does not have before the result is built'
    defs = {s.targets[0].id: s.value for s in body if isinstance(s, ast.Assign) and isinstance(s.targets[0], ast.Name)}
    expected = match.params()[1].arg if len(match.params()) > 1 else 'expected_ports'
    for k, g in guards:
        if k > loop_idx:
            continue
        tv = g.test
        if isinstance(tv, ast.Name) and tv.id in defs:
            d = defs[tv.id]
            if isinstance(d, ast.BinOp) and isinstance(d.op, ast.Sub) and ast.unparse(d.right) == expected:
                left = defs.get(d.left.id) if isinstance(d.left, ast.Name) else d.left
                lt = ast.unparse(left) if left is not None else ''
                both = 'self.sts.tryget_strset()' in lt and 'self.mts.tryget_strset()' in lt and \
                    isinstance(left, ast.BinOp) and isinstance(left.op, ast.BitOr)
                r = next((x for x in ast.walk(g) if isinstance(x, ast.Raise)), None)
                if both and r is not None and is_adv_error(match, r):
                    ok, why = True, 'names configured under either semantics but absent from the component are rejected ' \
                                    'with AdvShellError before the result is built'
                elif not both:
                    why = 'the unknown-name check does not cover both the STS and the MTS selection'
    run.add('C03.unknown', match.module.name, match.qualname, guards[0][1] if guards else 'unknown-name guard', ok, why)

    # ---- C03.sides ----------------------------------------------------------------------------------------------------------------
    pmatch = pc.methods.get('match')
    if pmatch is None:
        run.error('C03.sides', pc.module.name, 'PortsCfg', 'match', 'PortsCfg.match vanished')
    else:
        params = [a.arg for a in pmatch.params()][1:]
        calls = [c for c in iter_own_nodes(pmatch.node) if isinstance(c, ast.Call) and isinstance(c.func, ast.Attribute)
                 and c.func.attr == 'match']
        sides = {}
        for c in calls:
            side = ast.unparse(c.func.value).replace('self.', '')
            arg = ast.unparse(c.args[0]) if c.args else ''
            sides[side] = arg
            ok = side in ('provides', 'requires') and arg.startswith(side)
            run.add('C03.sides', pmatch.module.name, pmatch.qualname, c, ok,
                    f'{side} selection is matched against the {side} port names' if ok else
                    f'{side} selection is matched against `{arg}`', node=c)
            # the per-side match is where configured names the component does not have are refused: it has to run
            # whatever the port names are (also for a side without ports)
            conds = [('' if p_ else 'not ') + ast.unparse(f) for f, p_ in ctx.flow.path_conditions(c)]
            handler = ctx.flow.enclosing(c, (ast.Try, ast.ExceptHandler)) is not None
            ok = not conds and not handler
            run.add('C03.sides', pmatch.module.name, pmatch.qualname, f'{side} match unconditional', ok,
                    f'the {side} selection is matched whatever the port names are' if ok else
                    f'the {side} selection is only matched when `{" and ".join(conds) or "no exception intervenes"}`: '
                    f'otherwise names configured on that side that the component does not have are accepted silently', node=c)
        run.add('C03.sides', pmatch.module.name, pmatch.qualname, 'both sides matched', set(sides) == {'provides', 'requires'},
                'both sides are matched and merged' if set(sides) == {'provides', 'requires'} else
                f'only {sorted(sides)} matched')
        # call in create_dzn_elements: provides first
        for c in iter_own_nodes(cde.node):
            if isinstance(c, ast.Call) and isinstance(c.func, ast.Attribute) and c.func.attr == 'match' and len(c.args) == 2:
                a0, a1 = ast.unparse(c.args[0]), ast.unparse(c.args[1])
                ok = a0.endswith('.provides') and a1.endswith('.requires') and params[:2] == ['provides_ports', 'requires_ports']
                run.add('C03.sides', cde.module.name, cde.qualname, c, ok,
                        'port names are handed over in (provides, requires) order' if ok else
                        f'match({a0}, {a1}) against parameters {params}', node=c)
        pt = prog.func('ast_view', 'portnames_t')
        # which local set becomes which field of PortNames(provides=..., requires=...)
        role_of: Dict[str, str] = {}
        for c in iter_own_nodes(pt.node):
            if isinstance(c, ast.Call) and prog.resolve_expr_symbol(pt.module, c.func) is prog.cls('ast_view', 'PortNames'):
                flds = list(prog.class_fields(prog.cls('ast_view', 'PortNames')))
                for i, a in enumerate(c.args):
                    if isinstance(a, ast.Name) and i < len(flds):
                        role_of[a.id] = flds[i]
                for k in c.keywords:
                    if k.arg and isinstance(k.value, ast.Name):
                        role_of[k.value.id] = k.arg
        for c in iter_own_nodes(pt.node):
            if isinstance(c, ast.Call) and isinstance(c.func, ast.Attribute) and c.func.attr == 'add':
                tgt = role_of.get(ast.unparse(c.func.value), ast.unparse(c.func.value))
                facts = [ast.unparse(f) for f, p in abs_.facts_at(c) if p]
                ok = any(f'PortDirection.{tgt.upper()}' in f for f in facts) and c.args and ast.unparse(c.args[0]).endswith('.name')
                run.add('C03.sides', pt.module.name, pt.qualname, c, ok,
                        f'{tgt} names are the names of the {tgt} ports' if ok else
                        f'`{ast.unparse(c)}` is not under the matching direction test', node=c)
    run.floor('C03.sides', 5)

    # ---- C03.lookup / C03.injected ------------------------------------------------------------------------------------------------------
    dpi = prog.cls('adv_shell.common', 'DznPortItf')
    ctors = [c for c in iter_own_nodes(cde.node) if isinstance(c, ast.Call) and prog.resolve_expr_symbol(cde.module, c.func) is dpi]
    if len(ctors) < 2:
        run.error('C03.lookup', cde.module.name, cde.qualname, 'DznPortItf constructions', f'{len(ctors)} found, 2 confirmed')
    fields = list(prog.class_fields(dpi).keys())
    for c in ctors:
        args = {fields[i]: a for i, a in enumerate(c.args) if i < len(fields)}
        args.update({k.arg: k.value for k in c.keywords if k.arg})
        port, sem = args.get('port'), args.get('semantics')
        ok = False
        why = 'semantics argument is not the lookup result for the same port'
        if isinstance(port, ast.Name) and sem is not None:
            names = {x.id for x in ast.walk(sem) if isinstance(x, ast.Name)}
            mentions_port = port.id in names
            is_lookup = isinstance(sem, (ast.Call, ast.Subscript))
            # the looked-up table is the match result
            uses_match = any(strip_opt(abs_.type_at(cde, x, c)) == ('cls', mp.fq)
                             for x in ast.walk(sem) if isinstance(x, (ast.Name, ast.Attribute)))
            ok = mentions_port and is_lookup and uses_match
            if ok:
                why = f'semantics = lookup of `{port.id}` in the match result, handed on unchanged'
        run.add('C03.lookup', cde.module.name, cde.qualname, c, ok, why, node=c)
        # injected filter
        facts = [(ast.unparse(f), p) for f, p in abs_.facts_at(c)]
        is_prov = any('PortDirection.PROVIDES' in f and p for f, p in facts)
        filt = [(f, p) for f, p in facts if 'injected' in f]
        if is_prov:
            run.add('C03.injected', cde.module.name, cde.qualname, c, not filt,
                    'provides ports are never filtered' if not filt else 'a provides port is filtered by the injected flag',
                    node=c)
        else:
            ok = len(filt) == 1 and filt[0][1] is False and filt[0][0].endswith('.injected.value')
            run.add('C03.injected', cde.module.name, cde.qualname, c, ok,
                    'a requires port is exposed exactly when it is not injected' if ok else
                    f'requires-port construction is under {filt or "no injected test"}: injected ports would be '
                    f'exposed / non-injected ports dropped', node=c)
    # the key used inside the lookup helper is the port *name*
    for fn in prog.all_functions():
        if fn.module is ps_mod:
            continue
        for n in iter_own_nodes(fn.node):
            keyexpr = None
            if isinstance(n, ast.Subscript) and isinstance(n.ctx, ast.Load) and isinstance(n.value, ast.Attribute) and \
                    n.value.attr == 'value' and strip_opt(abs_.type_at(fn, n.value.value, n)) == ('cls', mp.fq):
                keyexpr = n.slice
            elif isinstance(n, ast.Call) and isinstance(n.func, ast.Attribute) and n.func.attr == 'get' and n.args and \
                    isinstance(n.func.value, ast.Attribute) and n.func.value.attr == 'value' and \
                    strip_opt(abs_.type_at(fn, n.func.value.value, n)) == ('cls', mp.fq):
                keyexpr = n.args[0]
            if keyexpr is not None:
                key = ast.unparse(keyexpr)
                ok = key.endswith('.name') and not key.endswith('type_name')
                run.add('C03.lookup', fn.module.name, fn.qualname, n, ok,
                        'the match result is keyed by the port name' if ok else f'the match result is keyed by `{key}`',
                        node=n)
    # who may refuse a port without semantics: only the consumer, after the injected ports are filtered out.  The name
    # sets handed to match() contain the injected requires ports (portnames_t does not filter), which never need one.
    psel = prog.modules.get('dznpy.adv_shell.port_selection')
    n_match = 0
    for cls_name in ('PortsSemanticsCfg', 'PortsCfg'):
        cls_ = psel.classes.get(cls_name) if psel else None
        m_ = cls_.methods.get('match') if cls_ else None
        if m_ is None:
            continue
        n_match += 1

        def expand_(e, depth=0, fn_=m_):
            out = ast.unparse(e)
            if depth > 3:
                return out
            for nm in {x.id for x in ast.walk(e) if isinstance(x, ast.Name)}:
                defs = [a for a in iter_own_nodes(fn_.node) if isinstance(a, ast.Assign) and len(a.targets) == 1
                        and isinstance(a.targets[0], ast.Name) and a.targets[0].id == nm]
                if len(defs) == 1:
                    out += ' <- ' + expand_(defs[0].value, depth + 1)
            return out

        params_ = [a.arg for a in m_.params()[1:]]
        bad_ = []
        for r in [x for x in iter_own_nodes(m_.node) if isinstance(x, ast.Raise)]:
            conds = [c for c, pol in ctx.flow.path_conditions(r)]
            full = ' && '.join(expand_(c) for c in conds)
            # allowed: configured names that are not among the component's ports (configured - expected)
            refuses_unassigned = any(isinstance(x, ast.BinOp) and isinstance(x.op, ast.Sub) and
                                     any(isinstance(y, ast.Name) and y.id in params_ for y in ast.walk(x.left))
                                     for c in conds for x in ast.walk(c)) or \
                any(f'{p_} - ' in full or f'not in result' in full for p_ in params_) or 'result' in full
            if refuses_unassigned:
                bad_.append(r)
        run.add('C03.injected', psel.name, f'{cls_name}.match', bad_[0] if bad_ else f'{cls_name}.match raises', not bad_,
                'match() refuses only configured names that are not ports of the component' if not bad_ else
                'match() refuses ports of the component that are left without semantics: its name sets include the injected requires '
                'ports, which are never exposed and never need a semantics - a valid configuration is rejected',
                node=bad_[0] if bad_ else None)
    if n_match < 2:
        run.error('C03.injected', 'dznpy.adv_shell.port_selection', '-', 'match methods', f'{n_match} match methods found (2 expected)')
    run.floor('C03.lookup', 3)
    run.floor('C03.injected', 4)

    # ---- C03.rejects: construction-time rejections exist ------------------------------------------------------------------------------
    _rejects(ctx, ex, psc, pc, adv_err)

    # ---- C03.errors --------------------------------------------------------------------------------------------------------------------
    for fn in prog.all_functions():
        if fn.module is not ps_mod:
            continue
        for r in [n for n in iter_own_nodes(fn.node) if isinstance(n, ast.Raise)]:
            exc = ex.exc_name(fn, r.exc)
            if ex.is_sub(exc, adv_err.fq):
                run.holds('C03.errors', fn.module.name, fn.qualname, r, f'configuration error {exc.split(".")[-1]}',
                          node=r, nontrivial=False)
            else:
                atoms = ex._atoms(fn, abs_.facts_at(r))
                is_validator = exc == 'TypeError' and atoms is not None
                run.add('C03.errors', fn.module.name, fn.qualname, r, is_validator,
                        'argument validator (TypeError on a mistyped argument)' if is_validator else
                        f'raises {exc}: neither a configuration error nor an argument validator', node=r)
    run.floor('C03.errors', 10)

    # ---- C03.no-files ----------------------------------------------------------------------------------------------------------------------
    build = prog.func('adv_shell', 'Builder.build')
    body = build.node.body
    idx_cde = next((k for k, s in enumerate(body) if any(
        isinstance(x, ast.Call) and getattr(x.func, 'id', '') == 'create_dzn_elements' for x in ast.walk(s))), None)
    idx_gen = [k for k, s in enumerate(body) if any(
        isinstance(x, ast.Call) and isinstance(x.func, ast.Attribute) and
        (x.func.attr in ('_create_headerfile', '_create_sourcefile') or x.func.attr == 'create_header') for x in ast.walk(s))]
    idx_ret = next((k for k, s in enumerate(body) if isinstance(s, ast.Return)), None)
    ok = idx_cde is not None and idx_ret is not None and idx_cde < idx_ret and all(idx_cde < k for k in idx_gen)
    run.add('C03.no-files', build.module.name, build.qualname, 'match precedes generation', ok,
            'the configuration is matched (create_dzn_elements) before any file is generated' if ok else
            'files can be generated before the port configuration was matched')


def _membership_guard(ctx, fn: FuncInfo, node: ast.AST, recv: ast.expr, key: ast.expr) -> Optional[ast.If]:
    """The `if key not in recv: raise` statement that dominates `node`."""
    for s in ctx.flow.dominating_stmts(node):
        if isinstance(s, ast.If) and always_raises(s.body):
            for c, p in atomic_facts([(s.test, True)]):
                if isinstance(c, ast.Compare) and len(c.ops) == 1 and same_expr(c.comparators[0], recv) and \
                        same_expr(c.left, key):
                    if (isinstance(c.ops[0], ast.NotIn) and p) or (isinstance(c.ops[0], ast.In) and not p):
                        return s
    return None


def _rejects(ctx, ex, psc: ClassInfo, pc: ClassInfo, adv_err: ClassInfo):
    run, prog = ctx.run, ctx.prog

    def guards(cls: ClassInfo):
        post = cls.methods.get('__post_init__')
        out = []
        if post is None:
            return post, out
        for s in ast.walk(post.node):
            if isinstance(s, ast.If) and always_raises(s.body):
                r = next((x for x in ast.walk(s) if isinstance(x, ast.Raise)), None)
                if r is not None and ex.is_sub(ex.exc_name(post, r.exc), adv_err.fq):
                    out.append(s)
        return post, out

    post, gs = guards(psc)
    texts = [ast.unparse(g.test) for g in gs]
    wants = [
        ('equal selections', lambda t: 'self.sts == self.mts' in t or 'self.mts == self.sts' in t),
        ('overlapping name sets', lambda t: 'tryget_strset' in t and ('for' in t or '&' in t)),
        ('ALL combined with a non-empty selection',
         lambda t: t.count('is_wildcard_all') >= 2 and t.count('is_not_empty') >= 2),
    ]
    for label, pred in wants:
        hit = next((g for g, t in zip(gs, texts) if pred(t)), None)
        run.add('C03.rejects', psc.module.name, 'PortsSemanticsCfg.__post_init__', hit if hit is not None else label,
                hit is not None, f'{label}: rejected with AdvShellError at construction' if hit is not None else
                f'{label}: no rejection found in PortsSemanticsCfg.__post_init__')
    post, gs = guards(pc)
    hit = next((g for g in gs if 'provides.sts.is_not_empty' in ast.unparse(g.test) and
                'provides.mts.is_not_empty' in ast.unparse(g.test)), None)
    run.add('C03.rejects', pc.module.name, 'PortsCfg.__post_init__', hit if hit is not None else 'mixed provides', hit is not None,
            'mixed STS/MTS provides ports: rejected with AdvShellError' if hit is not None else
            'mixed STS/MTS provides ports are not rejected')
    psel = prog.cls('adv_shell.port_selection', 'PortSelect')
    post, gs = guards(psel)
    texts = [ast.unparse(g.test) for g in gs]
    for label, pred in (('empty name set', lambda t: t.startswith('not self.value')),
                        ('empty port name', lambda t: "'' in self.value" in t)):
        hit = next((g for g, t in zip(gs, texts) if pred(t)), None)
        run.add('C03.rejects', psel.module.name, 'PortSelect.__post_init__', hit if hit is not None else label, hit is not None,
                f'{label}: rejected with AdvShellError' if hit is not None else f'{label} is not rejected')
    run.floor('C03.rejects', 6)
