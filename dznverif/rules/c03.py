"""C03 - port configuration gives every exposed port exactly one semantics or is rejected.

Decides: C03.total (a port without semantics cannot pass silently: the lookup of the match result is a guarded
lookup raising AdvShellError), C03.explicit-first, C03.unknown (unknown-name rejection dominates the result),
C03.lookup (semantics keyed by the same port, handed on unchanged), C03.injected, C03.sides (per-side match gets
the per-side name set), C03.rejects (construction-time rejections exist), C03.errors (only configuration errors
or argument validators are raised), C03.no-files.  The full accept/reject relation over all selections is
value-level and not decided.
"""
from __future__ import annotations

import ast
from typing import Dict, List, Optional, Tuple

from ..model import FuncInfo, ClassInfo, iter_own_nodes, strip_opt
from ..absval import Abs
from ..exceptions import ExcAnalysis
from ..flow import always_raises, atomic_facts, same_expr
from .shared import eval_guard, reach_under


def check(ctx):
    run, prog, cg = ctx.run, ctx.prog, ctx.cg
    run.explanation = (
        'Decided: C03.total - every read of the match result for an exposed port is a guarded lookup whose miss branch '
        'raises AdvShellError (a port left without semantics cannot pass silently or die with KeyError); '
        'C03.explicit-first - in PortsSemanticsCfg.match the explicit-name tests precede the wildcard tests and each '
        'branch assigns the semantics of the selection it tested; C03.unknown - the unknown-name rejection over both '
        'selections dominates the construction of the result; C03.lookup - the semantics handed to DznPortItf is the '
        'lookup result for that same port; C03.injected - only requires ports are filtered and only by the injected '
        'flag; C03.sides - provides/requires name sets reach the provides/requires selections; C03.rejects - the '
        'construction-time rejections (equal, overlapping, ALL+non-empty, mixed provides, empty name) exist; '
        'C03.errors - port_selection raises only configuration errors or argument validators; C03.no-files - matching '
        'dominates file generation. Not decided: the input-space relation "for every pair of selections x every name '
        'set the verdict is the specified one" (value-level set algebra).')
    run.trusted = ['python ast module', 'dznverif E1/E2/E3a']
    abs_ = Abs(prog, cg, ctx.flow)
    ex = ExcAnalysis(prog, cg, ctx.flow, abs_)

    ps_mod = prog.module('adv_shell.port_selection')
    psc = prog.cls('adv_shell.port_selection', 'PortsSemanticsCfg')
    pc = prog.cls('adv_shell.port_selection', 'PortsCfg')
    mp = prog.cls('adv_shell.port_selection', 'MatchedPorts')
    rs = prog.cls('adv_shell.types', 'RuntimeSemantics')
    adv_err = prog.cls('adv_shell.types', 'AdvShellError')
    cde = prog.func('adv_shell.core.processing', 'create_dzn_elements')
    match = psc.methods.get('match')
    if match is None:
        run.error('C03.total', psc.module.name, 'PortsSemanticsCfg', 'match', 'PortsSemanticsCfg.match vanished')
        return

    def is_adv_error(fn: FuncInfo, r: ast.Raise) -> bool:
        return ex.is_sub(ex.exc_name(fn, r.exc), adv_err.fq)

    # ---- C03.total ----------------------------------------------------------------------------------------------------
    n_reads = 0
    for fn in prog.all_functions():
        if fn.module is ps_mod:
            continue
        env = cg.env(fn)
        for n in iter_own_nodes(fn.node):
            recv = None
            kind = None
            if isinstance(n, ast.Subscript) and isinstance(n.ctx, ast.Load) and isinstance(n.value, ast.Attribute) \
                    and n.value.attr == 'value' and strip_opt(abs_.type_at(fn, n.value.value, n)) == ('cls', mp.fq):
                recv, kind, key = n.value, 'subscript', n.slice
            elif isinstance(n, ast.Call) and isinstance(n.func, ast.Attribute) and n.func.attr == 'get' and \
                    isinstance(n.func.value, ast.Attribute) and n.func.value.attr == 'value' and \
                    strip_opt(abs_.type_at(fn, n.func.value.value, n)) == ('cls', mp.fq):
                recv, kind, key = n.func.value, 'get', (n.args[0] if n.args else None)
            if recv is None:
                continue
            n_reads += 1
            ok, why = False, ''
            if kind == 'subscript':
                # membership guard whose miss branch raises AdvShellError, or an enclosing try/except KeyError that does
                guard = _membership_guard(ctx, fn, n, recv, key)
                if guard is not None:
                    r = next((x for x in ast.walk(guard) if isinstance(x, ast.Raise)), None)
                    ok = r is not None and is_adv_error(fn, r)
                    why = 'guarded lookup: a port without semantics raises ' + (ex.exc_name(fn, r.exc).split('.')[-1] if r else '?')
                else:
                    tr = ctx.flow.enclosing(n, (ast.Try,))
                    if tr is not None:
                        for h in tr.handlers:
                            hn = ex.exc_name(fn, h.type) if h.type is not None else ''
                            if hn in ('KeyError', 'LookupError') and always_raises(h.body):
                                r = next((x for x in ast.walk(h) if isinstance(x, ast.Raise)), None)
                                ok = r is not None and is_adv_error(fn, r)
                                why = 'KeyError is converted to ' + ex.exc_name(fn, r.exc).split('.')[-1]
                    if not ok and not why:
                        why = ('bare subscript of the match result: a port that no selection covers (e.g. sts={"hal"}, '
                               'mts=NONE with a further port) dies with KeyError instead of a configuration error')
            else:
                # .get(): the result must be tested for None with a raising miss branch
                stmt = ctx.flow.enclosing_stmt(n)
                tgt = stmt.targets[0].id if isinstance(stmt, ast.Assign) and isinstance(stmt.targets[0], ast.Name) else None
                blk = fn.node.body
                for s in ast.walk(fn.node):
                    if isinstance(s, ast.If) and tgt and always_raises(s.body):
                        facts = atomic_facts([(s.test, True)])
                        if any((ast.unparse(c) == f'{tgt} is None' and p) or (ast.unparse(c) == tgt and not p)
                               for c, p in facts):
                            r = next((x for x in ast.walk(s) if isinstance(x, ast.Raise)), None)
                            ok = r is not None and is_adv_error(fn, r)
                            why = 'get() result tested for None, miss raises ' + ex.exc_name(fn, r.exc).split('.')[-1]
                if not ok and not why:
                    why = 'get() result is used without a None test that raises a configuration error'
            run.add('C03.total', fn.module.name, fn.qualname, n, ok, why, node=n)
    from .shared import dzn_elements_by_interpretation as _de
    if n_reads == 0 and _de(ctx) is None:           # (decided on scenario models below when create_dzn_elements is interpretable)
        run.error('C03.total', cde.module.name, cde.qualname, 'match result reads',
                  'no read of MatchedPorts.value found outside port_selection')

    # ---- C03.explicit-first / C03.unknown: decided on the whole quotient of configurations when the code can be interpreted ------
    semantic_done = _match_semantics(ctx, psc, match)
    if not semantic_done:
        # ---- C03.explicit-first / semantics per branch -------------------------------------------------------------------------------
        # The tests that decide a port's semantics, in evaluation order, as (text, selection, kind, semantics assigned, ok):
        # either an if/elif chain on self.sts / self.mts, or a loop over a literal sequence of (selection, semantics) pairs
        # whose body tests the selection and assigns the pair's semantics.
        loops = [n for n in iter_own_nodes(match.node) if isinstance(n, ast.For) and ctx.flow.enclosing(n, (ast.For,)) is None]
        seq: List[Tuple[str, str, str, str, bool]] = []
        recognised = False

        def kind_of(t: str) -> str:
            return 'strset' if 'match_strset' in t else 'wildcard' if 'match_wildcard' in t else '?'

        def tests_of(test: ast.expr) -> List[ast.expr]:
            return list(test.values) if isinstance(test, ast.BoolOp) and isinstance(test.op, ast.Or) else [test]

        def member_of(e: Optional[ast.expr]) -> Optional[str]:
            sym = prog.resolve_expr_symbol(match.module, e) if isinstance(e, (ast.Name, ast.Attribute)) else None
            if isinstance(sym, tuple) and sym[0] == 'enum_member' and sym[1] is rs:
                return sym[2].lower()
            return None

        def is_none(e: Optional[ast.expr]) -> bool:
            return e is None or (isinstance(e, ast.Constant) and e.value is None)

        def decisions_stmts(stmts: List[ast.stmt], portvar: str, store: Optional[str]):
            """Ordered [(test, outcome expr)] of an if / elif chain or of a sequence of `if T: return M`, and whether the
            remaining case leaves the port without a semantics.  `store`: name of the dict for `d[port] = M` outcomes."""
            out = []
            stmts = [s_ for s_ in stmts if not (isinstance(s_, ast.Expr) and isinstance(s_.value, ast.Constant))]
            i = 0
            while i < len(stmts):
                st = stmts[i]
                if isinstance(st, ast.If):
                    node = st
                    while True:
                        body = [b for b in node.body if not isinstance(b, (ast.Pass,))]
                        outcome = None
                        if len(body) == 1 and isinstance(body[0], ast.Return):
                            outcome = body[0].value
                        elif body and isinstance(body[0], ast.Assign) and isinstance(body[0].targets[0], ast.Subscript) and \
                                ast.unparse(body[0].targets[0].slice) == portvar and all(isinstance(b, (ast.Assign, ast.Break)) for b in body) \
                                and len([b for b in body if isinstance(b, ast.Assign)]) == 1:
                            outcome = body[0].value
                        else:
                            return None
                        out.append((node.test, outcome))
                        if len(node.orelse) == 1 and isinstance(node.orelse[0], ast.If):
                            node = node.orelse[0]
                            continue
                        if node.orelse:
                            return None
                        break
                    i += 1
                    continue
                if isinstance(st, ast.Return):
                    return out if is_none(st.value) and i == len(stmts) - 1 else None
                if isinstance(st, (ast.Assign, ast.AnnAssign)) and not out:
                    i += 1          # a local that the normal form left behind (e.g. the inlined rule table)
                    continue
                return None
            return out

        def decisions_ifexp(e: ast.expr):
            out = []
            while isinstance(e, ast.IfExp):
                out.append((e.test, e.body))
                e = e.orelse
            return out if is_none(e) else None

        port_loop = loops[0] if len(loops) == 1 else None
        loopvar = getattr(port_loop.target, 'id', None) if port_loop is not None else None
        decided = None          # [(test, outcome)], name of the tested port variable
        where = match
        if port_loop is not None and loopvar:
            body = [b for b in port_loop.body if not (isinstance(b, ast.Expr) and isinstance(b.value, ast.Constant))]
            # (A) the chain stores into the result directly
            d_ = decisions_stmts(body, loopvar, None)
            if d_ and all(member_of(o) for _t, o in d_):
                decided = (d_, loopvar)
            # (C) a conditional expression picks the semantics, stored when it is not None
            elif len(body) == 2 and isinstance(body[0], ast.Assign) and isinstance(body[0].targets[0], ast.Name) and \
                    isinstance(body[1], ast.If) and not body[1].orelse:
                d_ = decisions_ifexp(body[0].value)
                loc = body[0].targets[0].id
                guard = ast.unparse(body[1].test)
                stores = [b for b in body[1].body if isinstance(b, ast.Assign) and isinstance(b.targets[0], ast.Subscript)
                          and ast.unparse(b.targets[0].slice) == loopvar and ast.unparse(b.value) == loc]
                if d_ and guard in (f'{loc} is not None', loc) and len(stores) == 1 and len(body[1].body) == 1:
                    decided = (d_, loopvar)
        if decided is None:
            # (B) a per-port decision method: `if T: return M` ... `return None`, applied to every expected port by match()
            expected = match.params()[1].arg if len(match.params()) > 1 else None
            for c in iter_own_nodes(match.node):
                if isinstance(c, ast.Call) and isinstance(c.func, ast.Attribute) and isinstance(c.func.value, ast.Name) and \
                        c.func.value.id == 'self' and len(c.args) == 1 and isinstance(c.args[0], ast.Name):
                    m_ = prog.lookup_method(psc, c.func.attr)
                    if m_ is None or len(m_.params()) != 2:
                        continue
                    d_ = decisions_stmts(m_.node.body, m_.params()[1].arg, None)
                    if not d_:
                        continue
                    # the argument ranges over the expected ports and the result is kept under that port, None dropped
                    binder = None
                    p_ = prog.parent(c)
                    while p_ is not None and p_ is not match.node:
                        if isinstance(p_, (ast.GeneratorExp, ast.ListComp, ast.DictComp)) and len(p_.generators) == 1 and \
                                isinstance(p_.generators[0].target, ast.Name) and p_.generators[0].target.id == c.args[0].id:
                            binder = p_.generators[0].iter
                        if isinstance(p_, ast.For) and isinstance(p_.target, ast.Name) and p_.target.id == c.args[0].id:
                            binder = p_.iter
                        p_ = prog.parent(p_)
                    txt_m = ast.unparse(match.node)
                    drops_none = 'is not None' in txt_m
                    if binder is not None and ast.unparse(binder) == expected and drops_none:
                        decided = (d_, m_.params()[1].arg)
                        where = m_
                        break
        if decided is not None:
            recognised = True
            for test, outcome in decided[0]:
                sem = member_of(outcome) or '?'
                for t_ in tests_of(test):
                    txt_ = ast.unparse(t_)
                    sel = 'sts' if 'self.sts.' in txt_ else 'mts' if 'self.mts.' in txt_ else '?'
                    call = t_ if isinstance(t_, ast.Call) else None
                    ok_ = sem == sel and call is not None and isinstance(call.func, ast.Attribute) and \
                        ast.unparse(call.func.value) == f'self.{sel}' and len(call.args) == 1 and ast.unparse(call.args[0]) == decided[1]
                    seq.append((txt_, sel, kind_of(txt_), sem, ok_))
        if not recognised or len(seq) < 4:
            run.error('C03.explicit-first', match.module.name, match.qualname, 'selection tests',
                      f'the tests that assign a semantics in match() are neither an if/elif chain nor a loop over (selection, semantics) '
                      f'pairs ({len(seq)} tests recognised)')
        else:
            for txt_, sel, kind, sem, ok_ in seq:
                run.add('C03.explicit-first', match.module.name, match.qualname, txt_, ok_,
                        f'{sel.upper()} {kind} test assigns RuntimeSemantics.{sel.upper()} to the tested port' if ok_ else
                        f'branch `{txt_[:50]}` does not assign the semantics of the selection it tested to the tested port')
            kinds = [k for _t, _s, k, _m, _o in seq]
            first_wild = kinds.index('wildcard') if 'wildcard' in kinds else len(kinds)
            ok = all(k == 'strset' for k in kinds[:first_wild]) and all(k == 'wildcard' for k in kinds[first_wild:]) \
                and kinds.count('strset') == 2 and kinds.count('wildcard') == 2
            order_txt = ' '.join(f'{s_}.{k}' for _t, s_, k, _m, _o in seq)
            run.add('C03.explicit-first', match.module.name, match.qualname, 'test order ' + order_txt, ok,
                    'explicit-name tests precede the wildcard tests' if ok else
                    f'test order is [{order_txt}]: a wildcard is tested before the explicit names of the other selection - a wildcard can '
                    f'win over an explicitly named port')
        run.floor('C03.explicit-first', 5)

        # ---- C03.unknown ------------------------------------------------------------------------------------------------------------
        body = match.node.body
        guards = [(k, s) for k, s in enumerate(body) if isinstance(s, ast.If) and always_raises(s.body)]
        loop_idx = body.index(loops[0]) if loops and loops[0] in body else len(body)
        ok, why = False, 'no rejection of configured names that the component does not have before the result is built'
        defs = {s.targets[0].id: s.value for s in body if isinstance(s, ast.Assign) and isinstance(s.targets[0], ast.Name)}
        expected = match.params()[1].arg if len(match.params()) > 1 else 'expected_ports'
        for k, g in guards:
            if k > loop_idx:
                continue
            tv = g.test
            if isinstance(tv, ast.Name) and tv.id in defs:
                d = defs[tv.id]
                if isinstance(d, ast.BinOp) and isinstance(d.op, ast.Sub) and ast.unparse(d.right) == expected:
                    left = defs.get(d.left.id) if isinstance(d.left, ast.Name) else d.left
                    lt = ast.unparse(left) if left is not None else ''
                    both = 'self.sts.tryget_strset()' in lt and 'self.mts.tryget_strset()' in lt and \
                        isinstance(left, ast.BinOp) and isinstance(left.op, ast.BitOr)
                    r = next((x for x in ast.walk(g) if isinstance(x, ast.Raise)), None)
                    if both and r is not None and is_adv_error(match, r):
                        ok, why = True, 'names configured under either semantics but absent from the component are rejected ' \
                                        'with AdvShellError before the result is built'
                    elif not both:
                        why = 'the unknown-name check does not cover both the STS and the MTS selection'
        run.add('C03.unknown', match.module.name, match.qualname, guards[0][1] if guards else 'unknown-name guard', ok, why)

    # ---- C03.sides ----------------------------------------------------------------------------------------------------------------
    pmatch = pc.methods.get('match')
    if pmatch is None:
        run.error('C03.sides', pc.module.name, 'PortsCfg', 'match', 'PortsCfg.match vanished')
    else:
        params = [a.arg for a in pmatch.params()][1:]
        calls = [c for c in iter_own_nodes(pmatch.node) if isinstance(c, ast.Call) and isinstance(c.func, ast.Attribute)
                 and c.func.attr == 'match']
        sides = {}
        for c in calls:
            side = ast.unparse(c.func.value).replace('self.', '')
            arg = ast.unparse(c.args[0]) if c.args else ''
            sides[side] = arg
            ok = side in ('provides', 'requires') and arg.startswith(side)
            run.add('C03.sides', pmatch.module.name, pmatch.qualname, c, ok,
                    f'{side} selection is matched against the {side} port names' if ok else
                    f'{side} selection is matched against `{arg}`', node=c)
            # the per-side match is where configured names the component does not have are refused: it has to run
            # whatever the port names are (also for a side without ports)
            conds = [('' if p_ else 'not ') + ast.unparse(f) for f, p_ in ctx.flow.path_conditions(c)]
            handler = ctx.flow.enclosing(c, (ast.Try, ast.ExceptHandler)) is not None
            ok = not conds and not handler
            run.add('C03.sides', pmatch.module.name, pmatch.qualname, f'{side} match unconditional', ok,
                    f'the {side} selection is matched whatever the port names are' if ok else
                    f'the {side} selection is only matched when `{" and ".join(conds) or "no exception intervenes"}`: '
                    f'otherwise names configured on that side that the component does not have are accepted silently', node=c)
        run.add('C03.sides', pmatch.module.name, pmatch.qualname, 'both sides matched', set(sides) == {'provides', 'requires'},
                'both sides are matched and merged' if set(sides) == {'provides', 'requires'} else
                f'only {sorted(sides)} matched')
        # call in create_dzn_elements: provides first
        for c in iter_own_nodes(cde.node):
            if isinstance(c, ast.Call) and isinstance(c.func, ast.Attribute) and c.func.attr == 'match' and len(c.args) == 2:
                a0, a1 = ast.unparse(c.args[0]), ast.unparse(c.args[1])
                ok = a0.endswith('.provides') and a1.endswith('.requires') and params[:2] == ['provides_ports', 'requires_ports']
                run.add('C03.sides', cde.module.name, cde.qualname, c, ok,
                        'port names are handed over in (provides, requires) order' if ok else
                        f'match({a0}, {a1}) against parameters {params}', node=c)
        pt = prog.func('ast_view', 'portnames_t')
        if not _portnames_semantics(ctx, pt):
            # which local set becomes which field of PortNames(provides=..., requires=...)
            role_of: Dict[str, str] = {}
            for c in iter_own_nodes(pt.node):
                if isinstance(c, ast.Call) and prog.resolve_expr_symbol(pt.module, c.func) is prog.cls('ast_view', 'PortNames'):
                    flds = list(prog.class_fields(prog.cls('ast_view', 'PortNames')))
                    for i, a in enumerate(c.args):
                        if isinstance(a, ast.Name) and i < len(flds):
                            role_of[a.id] = flds[i]
                    for k in c.keywords:
                        if k.arg and isinstance(k.value, ast.Name):
                            role_of[k.value.id] = k.arg
            for c in iter_own_nodes(pt.node):
                if isinstance(c, ast.Call) and isinstance(c.func, ast.Attribute) and c.func.attr == 'add':
                    tgt = role_of.get(ast.unparse(c.func.value), ast.unparse(c.func.value))
                    facts = [ast.unparse(f) for f, p in abs_.facts_at(c) if p]
                    ok = any(f'PortDirection.{tgt.upper()}' in f for f in facts) and c.args and ast.unparse(c.args[0]).endswith('.name')
                    run.add('C03.sides', pt.module.name, pt.qualname, c, ok,
                            f'{tgt} names are the names of the {tgt} ports' if ok else
                            f'`{ast.unparse(c)}` is not under the matching direction test', node=c)
    run.floor('C03.sides', 5)

    # ---- C03.lookup / C03.injected ------------------------------------------------------------------------------------------------------
    from .shared import dzn_elements_by_interpretation
    sem_de = dzn_elements_by_interpretation(ctx)
    if sem_de is not None:
        # decided on scenario models (E7): which ports are exposed, in which order, with which semantics and interface
        for rule_, label_ in (('C03.injected', 'exposed ports: all provides ports and the requires ports that are not injected, in declaration order'),
                              ('C03.lookup', 'every exposed port carries the semantics configured for that very port and the interface its type names'),
                              ('C03.total', 'a port the configuration leaves without semantics is refused with AdvShellError')):
            probs_ = sem_de[rule_]
            for k_ in range(3 if rule_ != 'C03.total' else 1):
                run.add(rule_, cde.module.name, cde.qualname, f'{label_} (scenario {k_ + 1})' if rule_ != 'C03.total' else label_, not probs_,
                        label_ + ' - create_dzn_elements interpreted on three port orders' if not probs_ else '; '.join(probs_[:2]))
        run.stats['dzn_elements_decided_by'] = f'interpretation of create_dzn_elements on {sem_de["#"][0]} scenario models (E7)'
    if sem_de is None:
        dpi = prog.cls('adv_shell.common', 'DznPortItf')
        ctors = [c for c in iter_own_nodes(cde.node) if isinstance(c, ast.Call) and prog.resolve_expr_symbol(cde.module, c.func) is dpi]
        if len(ctors) < 1:
            run.error('C03.lookup', cde.module.name, cde.qualname, 'DznPortItf constructions', 'no DznPortItf construction found')
        fields = list(prog.class_fields(dpi).keys())
        for c in ctors:
            args = {fields[i]: a for i, a in enumerate(c.args) if i < len(fields)}
            args.update({k.arg: k.value for k in c.keywords if k.arg})
            port, sem = args.get('port'), args.get('semantics')
            ok = False
            why = 'semantics argument is not the lookup result for the same port'
            if isinstance(port, ast.Name) and sem is not None:
                names = {x.id for x in ast.walk(sem) if isinstance(x, ast.Name)}
                mentions_port = port.id in names
                is_lookup = isinstance(sem, (ast.Call, ast.Subscript))
                # the looked-up table is the match result
                uses_match = any(strip_opt(abs_.type_at(cde, x, c)) == ('cls', mp.fq)
                                 for x in ast.walk(sem) if isinstance(x, (ast.Name, ast.Attribute)))
                ok = mentions_port and is_lookup and uses_match
                if ok:
                    why = f'semantics = lookup of `{port.id}` in the match result, handed on unchanged'
            run.add('C03.lookup', cde.module.name, cde.qualname, c, ok, why, node=c)
        # injected filter, decided per scenario (direction of the port x injected flag) over the dominating conditions of the
        # construction sites - whatever the shape of the branching (nested ifs, guard clauses, a predicate helper)
        def single_def(nm: ast.Name):
            defs = [a for a in iter_own_nodes(cde.node) if isinstance(a, ast.Assign) and len(a.targets) == 1
                    and isinstance(a.targets[0], ast.Name) and a.targets[0].id == nm.id]
            return defs[0].value if len(defs) == 1 else None

        pd = prog.cls('ast', 'PortDirection')
        port_var = next((prog.bind_call(cde.module, c).get('port') for c in ctors), None)
        for direction, injected, want in (('PROVIDES', False, True), ('PROVIDES', True, True), ('REQUIRES', False, True),
                                          ('REQUIRES', True, False)):
            def leaf(e, direction=direction, injected=injected):
                if isinstance(e, ast.Compare) and len(e.ops) == 1 and isinstance(e.ops[0], (ast.Eq, ast.NotEq, ast.Is, ast.IsNot)):
                    for a_, b_ in ((e.left, e.comparators[0]), (e.comparators[0], e.left)):
                        sym = prog.resolve_expr_symbol(cde.module, b_) if isinstance(b_, (ast.Name, ast.Attribute)) else None
                        if isinstance(sym, tuple) and sym[0] == 'enum_member' and sym[1] is pd and ast.unparse(a_).endswith('.direction'):
                            r = sym[2] == direction
                            return r if isinstance(e.ops[0], (ast.Eq, ast.Is)) else not r
                if isinstance(e, ast.Attribute) and ast.unparse(e).endswith('.injected.value'):
                    return injected
                return None
            rs = [reach_under(ctx, c, leaf, single_def,
                              relevant=lambda e: any(t in ast.unparse(e) for t in ('.direction', '.injected')) or any(
                                  isinstance(x, ast.Call) and isinstance(prog.resolve_expr_symbol(cde.module, x.func), FuncInfo)
                                  and any(isinstance(y, ast.Name) and y.id == getattr(port_var, 'id', None)
                                          for a_ in x.args for y in ast.walk(a_)) for x in ast.walk(e))) for c in ctors]
            got = True if any(r is True for r in rs) else None if any(r is None for r in rs) else False
            what = f'{direction.lower()} port, injected={injected}'
            if got is None:
                run.error('C03.injected', cde.module.name, cde.qualname, what,
                          f'whether a {what} gets a DznPortItf depends on a condition this rule cannot evaluate')
            else:
                run.add('C03.injected', cde.module.name, cde.qualname, what, got == want,
                        (f'a {what} is exposed' if want else 'an injected requires port is not exposed') if got == want else
                        (f'a {what} is not exposed (no DznPortItf is built for it): the port is dropped from the shell' if want else
                         'an injected requires port is exposed: it would need a semantics although it is bound through the locator'),
                        node=ctors[0] if ctors else None)
        # the key used inside the lookup helper is the port *name*
        for fn in prog.all_functions():
            if fn.module is ps_mod:
                continue
            for n in iter_own_nodes(fn.node):
                keyexpr = None
                if isinstance(n, ast.Subscript) and isinstance(n.ctx, ast.Load) and isinstance(n.value, ast.Attribute) and \
                        n.value.attr == 'value' and strip_opt(abs_.type_at(fn, n.value.value, n)) == ('cls', mp.fq):
                    keyexpr = n.slice
                elif isinstance(n, ast.Call) and isinstance(n.func, ast.Attribute) and n.func.attr == 'get' and n.args and \
                        isinstance(n.func.value, ast.Attribute) and n.func.value.attr == 'value' and \
                        strip_opt(abs_.type_at(fn, n.func.value.value, n)) == ('cls', mp.fq):
                    keyexpr = n.args[0]
                if keyexpr is not None:
                    key = ast.unparse(keyexpr)
                    ok = key.endswith('.name') and not key.endswith('type_name')
                    run.add('C03.lookup', fn.module.name, fn.qualname, n, ok,
                            'the match result is keyed by the port name' if ok else f'the match result is keyed by `{key}`',
                            node=n)
    # who may refuse a port without semantics: only the consumer, after the injected ports are filtered out.  The name
    # sets handed to match() contain the injected requires ports (portnames_t does not filter), which never need one.
    psel = prog.modules.get('dznpy.adv_shell.port_selection')
    n_match = 0
    for cls_name in ('PortsSemanticsCfg', 'PortsCfg'):
        cls_ = psel.classes.get(cls_name) if psel else None
        m_ = cls_.methods.get('match') if cls_ else None
        if m_ is None:
            continue
        n_match += 1

        def expand_(e, depth=0, fn_=m_):
            out = ast.unparse(e)
            if depth > 3:
                return out
            for nm in {x.id for x in ast.walk(e) if isinstance(x, ast.Name)}:
                defs = [a for a in iter_own_nodes(fn_.node) if isinstance(a, ast.Assign) and len(a.targets) == 1
                        and isinstance(a.targets[0], ast.Name) and a.targets[0].id == nm]
                if len(defs) == 1:
                    out += ' <- ' + expand_(defs[0].value, depth + 1)
            return out

        params_ = [a.arg for a in m_.params()[1:]]
        bad_ = []
        for r in [x for x in iter_own_nodes(m_.node) if isinstance(x, ast.Raise)]:
            conds = [c for c, pol in ctx.flow.path_conditions(r)]
            full = ' && '.join(expand_(c) for c in conds)
            # allowed: configured names that are not among the component's ports (configured - expected)
            refuses_unassigned = any(isinstance(x, ast.BinOp) and isinstance(x.op, ast.Sub) and
                                     any(isinstance(y, ast.Name) and y.id in params_ for y in ast.walk(x.left))
                                     for c in conds for x in ast.walk(c)) or \
                any(f'{p_} - ' in full or f'not in result' in full for p_ in params_) or 'result' in full
            if refuses_unassigned:
                bad_.append(r)
        run.add('C03.injected', psel.name, f'{cls_name}.match', bad_[0] if bad_ else f'{cls_name}.match raises', not bad_,
                'match() refuses only configured names that are not ports of the component' if not bad_ else
                'match() refuses ports of the component that are left without semantics: its name sets include the injected requires '
                'ports, which are never exposed and never need a semantics - a valid configuration is rejected',
                node=bad_[0] if bad_ else None)
    if n_match < 2:
        run.error('C03.injected', 'dznpy.adv_shell.port_selection', '-', 'match methods', f'{n_match} match methods found (2 expected)')
    run.floor('C03.lookup', 3)
    run.floor('C03.injected', 4)

    # ---- C03.rejects: construction-time rejections exist ------------------------------------------------------------------------------
    _rejects(ctx, ex, psc, pc, adv_err)

    # ---- C03.errors --------------------------------------------------------------------------------------------------------------------
    for fn in prog.all_functions():
        if fn.module is not ps_mod:
            continue
        for r in [n for n in iter_own_nodes(fn.node) if isinstance(n, ast.Raise)]:
            exc = ex.exc_name(fn, r.exc)
            if ex.is_sub(exc, adv_err.fq):
                run.holds('C03.errors', fn.module.name, fn.qualname, r, f'configuration error {exc.split(".")[-1]}',
                          node=r, nontrivial=False)
            else:
                atoms = ex._atoms(fn, abs_.facts_at(r))
                is_validator = exc == 'TypeError' and atoms is not None
                run.add('C03.errors', fn.module.name, fn.qualname, r, is_validator,
                        'argument validator (TypeError on a mistyped argument)' if is_validator else
                        f'raises {exc}: neither a configuration error nor an argument validator', node=r)
    run.floor('C03.errors', 10)

    # ---- C03.no-files ----------------------------------------------------------------------------------------------------------------------
    build = prog.func('adv_shell', 'Builder.build')
    body = build.node.body
    idx_cde = next((k for k, s in enumerate(body) if any(
        isinstance(x, ast.Call) and getattr(x.func, 'id', '') == 'create_dzn_elements' for x in ast.walk(s))), None)
    idx_gen = [k for k, s in enumerate(body) if any(
        isinstance(x, ast.Call) and isinstance(x.func, ast.Attribute) and
        (x.func.attr in ('_create_headerfile', '_create_sourcefile') or x.func.attr == 'create_header') for x in ast.walk(s))]
    idx_ret = next((k for k, s in enumerate(body) if isinstance(s, ast.Return)), None)
    ok = idx_cde is not None and idx_ret is not None and idx_cde < idx_ret and all(idx_cde < k for k in idx_gen)
    run.add('C03.no-files', build.module.name, build.qualname, 'match precedes generation', ok,
            'the configuration is matched (create_dzn_elements) before any file is generated' if ok else
            'files can be generated before the port configuration was matched')


def _match_semantics(ctx, psc: ClassInfo, match: FuncInfo) -> bool:
    """PortsSemanticsCfg.match (and what it calls) interpreted (dznverif.scenario, E7) on every configuration over a universe
    of three port names - p and q that the component has, u that it has not - and the three wildcards:
      * sts / mts each one of the 7 non-empty name sets over {p, q, u} or ALL / REMAINING / NONE          (100 pairs)
      * for every pair that PortsSemanticsCfg accepts, match({p, q}, label) must
          - raise AdvShellError when u is named (a configured name the component does not have)           -> C03.unknown
          - otherwise give each of p, q: STS if named under sts, MTS if named under mts, else the semantics of the
            selection whose wildcard is ALL or REMAINING (sts looked at first), else no entry            -> C03.explicit-first
    Small-universe argument: the code under interpretation touches a name only by equality, hashing, membership, type test
    and formatting (anything else makes the interpretation undecided), so its behaviour on a port depends only on which of
    the two sets contain that port and on the wildcards, and the unknown-name check only on whether some configured name is
    not expected - three names realise every such case.  False when some construct is not modelled: the shape rules decide
    then."""
    from ..scenario import Interp, Atom, EnumV, Obj, Raised, Undecided
    run, prog = ctx.run, ctx.prog
    ps = prog.cls('adv_shell.port_selection', 'PortSelect')
    pw = prog.cls('adv_shell.port_selection', 'PortWildcard')
    rs = prog.cls('adv_shell.types', 'RuntimeSemantics')
    adv = prog.cls('adv_shell.types', 'AdvShellError')
    it = Interp(prog)
    p, q, u = Atom('p'), Atom('q'), Atom('u')
    names = [p, q, u]
    subsets = [frozenset(x for i, x in enumerate(names) if mask >> i & 1) for mask in range(1, 8)]
    kinds = [('set', s_) for s_ in subsets] + [('wild', w) for w in ('ALL', 'REMAINING', 'NONE')]

    def label(k) -> str:
        return '{' + ','.join(sorted(a.name for a in k[1])) + '}' if k[0] == 'set' else k[1]

    def is_adv(name: str) -> bool:
        c = prog.classes.get(name)
        return c is not None and (c is adv or prog.is_subclass(c.fq, adv.fq))

    n_cfg = n_match = 0
    bad_first: List[str] = []
    bad_unknown: List[str] = []
    try:
        for ks in kinds:
            for km in kinds:
                def make(k):
                    return it.construct(ps, [set(k[1]) if k[0] == 'set' else EnumV(pw, k[1])], {})
                sts, mts = make(ks), make(km)
                sset = ks[1] if ks[0] == 'set' else frozenset()
                mset = km[1] if km[0] == 'set' else frozenset()
                must_reject = ks == km or bool(sset & mset) or \
                    (ks == ('wild', 'ALL') and km != ('wild', 'NONE')) or (km == ('wild', 'ALL') and ks != ('wild', 'NONE'))
                try:
                    cfg = it.construct(psc, [sts, mts], {})
                except Raised:
                    continue            # what the constructor refuses is judged by C03.rejects
                n_cfg += 1
                if must_reject:
                    continue            # accepted although it must be refused: C03.rejects reports it
                sc = f'sts={label(ks)} mts={label(km)}'
                try:
                    res = it.call_function(match, [{p, q}, 'provides'], {}, self_val=cfg)
                    raised = None
                except Raised as exc:
                    res, raised = None, exc.name
                n_match += 1
                if u in sset or u in mset:
                    if raised is None:
                        bad_unknown.append(f'{sc}: the configured name `u` is not a port of the component, yet match() returns '
                                           f'{_show(res)}')
                    elif not is_adv(raised):
                        bad_unknown.append(f'{sc}: an unknown configured name raises {raised.split(".")[-1]}, not AdvShellError')
                    continue
                if raised is not None:
                    bad_first.append(f'{sc}: match() raises {raised.split(".")[-1]} for a valid configuration')
                    continue
                if not isinstance(res, dict):
                    raise Undecided('match() does not return a dict')
                for x in (p, q):
                    want = 'STS' if x in sset else 'MTS' if x in mset else \
                        'STS' if ks[0] == 'wild' and ks[1] in ('ALL', 'REMAINING') else \
                        'MTS' if km[0] == 'wild' and km[1] in ('ALL', 'REMAINING') else None
                    present = any(k_ == x for k_ in res)
                    got = next((v for k_, v in res.items() if k_ == x), None)
                    got_txt = got.member if isinstance(got, EnumV) and got.cls is rs else None if got is None else repr(got)
                    if present and got is None:
                        bad_first.append(f'{sc}: port `{x.name}` is entered in the result with the value None instead of being left out: '
                                         f'it counts as configured although no semantics was selected for it')
                    elif got_txt != want:
                        bad_first.append(f'{sc}: port `{x.name}` gets {got_txt}, the configuration says {want}')
                extra = [k_ for k_ in res if k_ not in (p, q)]
                if extra:
                    bad_first.append(f'{sc}: the result names {extra}, which the component does not have')
    except Undecided as exc:
        run.remark(f'C03: match() could not be interpreted on the configuration scenarios ({exc}); the shape rules decide') \
            if hasattr(run, 'remark') else None
        return False
    if n_match < 40:
        return False
    run.stats['match_scenarios'] = {'configurations_accepted': n_cfg, 'match_evaluated': n_match, 'interpreter_steps': it.steps}
    run.add('C03.explicit-first', match.module.name, match.qualname, f'{n_match} configurations x ports p, q', not bad_first,
            f'in all {n_match} accepted configurations over three names every port gets the semantics it is named under, else that of '
            f'the catching wildcard (sts first), else none' if not bad_first else
            f'{len(bad_first)} scenario(s) disagree with the configuration, e.g. ' + '; '.join(bad_first[:3]))
    run.add('C03.unknown', match.module.name, match.qualname, 'configurations naming the unknown port u', not bad_unknown,
            'a configured name that the component does not have is refused with AdvShellError in every scenario' if not bad_unknown
            else f'{len(bad_unknown)} scenario(s), e.g. ' + '; '.join(bad_unknown[:3]))
    return True


def _construction_semantics(ctx, psc: ClassInfo, adv: ClassInfo):
    """PortsSemanticsCfg(sts, mts) interpreted (E7) for all 100 pairs of selections over three names: (number of scenarios,
    {('wrong', label): [scenario ...]}) in the vocabulary of the C03.rejects report, None when not interpretable."""
    from ..scenario import Interp, Atom, EnumV, Raised, Undecided
    prog = ctx.prog
    ps = prog.cls('adv_shell.port_selection', 'PortSelect')
    pw = prog.cls('adv_shell.port_selection', 'PortWildcard')
    it = Interp(prog)
    names = [Atom('p'), Atom('q'), Atom('u')]
    subsets = [frozenset(x for i, x in enumerate(names) if mask >> i & 1) for mask in range(1, 8)]
    kinds = [('set', s_) for s_ in subsets] + [('wild', w) for w in ('ALL', 'REMAINING', 'NONE')]

    def label(k) -> str:
        return '{' + ','.join(sorted(a.name for a in k[1])) + '}' if k[0] == 'set' else k[1]
    problems: Dict = {}
    n = 0
    try:
        for ks in kinds:
            for km in kinds:
                sts = it.construct(ps, [set(ks[1]) if ks[0] == 'set' else EnumV(pw, ks[1])], {})
                mts = it.construct(ps, [set(km[1]) if km[0] == 'set' else EnumV(pw, km[1])], {})
                sset = ks[1] if ks[0] == 'set' else frozenset()
                mset = km[1] if km[0] == 'set' else frozenset()
                equal = ks == km
                overlap = bool(sset & mset)
                all_mix = (ks == ('wild', 'ALL') and km != ('wild', 'NONE')) or (km == ('wild', 'ALL') and ks != ('wild', 'NONE'))
                want = equal or overlap or all_mix
                lab = 'equal selections' if equal else 'overlapping name sets' if overlap else \
                    'ALL combined with a non-empty selection' if all_mix else 'valid combination'
                n += 1
                try:
                    it.construct(psc, [sts, mts], {})
                    got = None
                except Raised as exc:
                    got = exc.name
                what = f'sts={label(ks)} mts={label(km)}'
                c = prog.classes.get(got) if got else None
                is_adv = c is not None and (c is adv or prog.is_subclass(c.fq, adv.fq))
                if want and got is None:
                    problems.setdefault(('wrong', lab), []).append(what)
                elif want and not is_adv:
                    problems.setdefault(('wrong', lab), []).append(f'{what} (raises {got.split(".")[-1]})')
                elif not want and got is not None:
                    problems.setdefault(('wrong', lab), []).append(what)
    except Undecided:
        return None
    ctx.run.stats['construction_scenarios_interpreted'] = n
    return n, problems


def _mixed_provides_semantics(ctx, psc: ClassInfo, pc: ClassInfo, adv: ClassInfo):
    """PortsCfg(provides, requires) interpreted (E7): a provides configuration in which both sts and mts select something
    (neither is NONE) must be refused with AdvShellError, any other accepted one must be accepted.  List of disagreements,
    None when not interpretable."""
    from ..scenario import Interp, Atom, EnumV, Raised, Undecided
    prog = ctx.prog
    ps = prog.cls('adv_shell.port_selection', 'PortSelect')
    pw = prog.cls('adv_shell.port_selection', 'PortWildcard')
    it = Interp(prog)
    p, q = Atom('p'), Atom('q')
    kinds = [('set', frozenset({p})), ('set', frozenset({q})), ('set', frozenset({p, q})), ('wild', 'ALL'), ('wild', 'REMAINING'),
             ('wild', 'NONE')]
    fields = list(prog.class_fields(pc))
    if fields[:2] != ['provides', 'requires']:
        return None
    bad: List[str] = []
    try:
        def make(k):
            return it.construct(ps, [set(k[1]) if k[0] == 'set' else EnumV(pw, k[1])], {})
        req = it.construct(psc, [make(('wild', 'ALL')), make(('wild', 'NONE'))], {})
        n = 0
        for ks in kinds:
            for km in kinds:
                try:
                    prov = it.construct(psc, [make(ks), make(km)], {})
                except Raised:
                    continue
                n += 1
                is_mixed = ks != ('wild', 'NONE') and km != ('wild', 'NONE')
                try:
                    it.construct(pc, [prov, req], {})
                    got = None
                except Raised as exc:
                    got = exc.name
                c = prog.classes.get(got) if got else None
                is_adv = c is not None and (c is adv or prog.is_subclass(c.fq, adv.fq))
                lab = f'sts={ks[1] if ks[0] == "wild" else sorted(a.name for a in ks[1])} mts={km[1] if km[0] == "wild" else sorted(a.name for a in km[1])}'
                if is_mixed and got is None:
                    bad.append(f'{lab}: mixed STS/MTS provides ports are not rejected')
                elif is_mixed and not is_adv:
                    bad.append(f'{lab}: refused with {got.split(".")[-1]}, not AdvShellError')
                elif not is_mixed and got is not None:
                    bad.append(f'{lab}: a uniform provides configuration is refused ({got.split(".")[-1]})')
        if n < 8:
            return None
    except Undecided:
        return None
    return bad


def _portselect_semantics(ctx, psel: ClassInfo, adv: ClassInfo):
    """PortSelect(set()) and PortSelect({''}) interpreted: True (refused with AdvShellError) / False (accepted) / name of
    another exception; None when not interpretable."""
    from ..scenario import Interp, Raised, Undecided
    prog = ctx.prog
    out = {}
    try:
        for label, val in (('empty name set', set()), ('empty port name', {''})):
            try:
                Interp(prog).construct(psel, [val], {})
                out[label] = False
            except Raised as exc:
                c = prog.classes.get(exc.name)
                out[label] = True if c is not None and (c is adv or prog.is_subclass(c.fq, adv.fq)) else exc.name.split('.')[-1]
    except Undecided:
        return None
    return out


def _show(v) -> str:
    if isinstance(v, dict):
        return '{' + ', '.join(f'{k!r}: {x!r}' for k, x in v.items()) + '}'
    return repr(v)


def _membership_guard(ctx, fn: FuncInfo, node: ast.AST, recv: ast.expr, key: ast.expr) -> Optional[ast.If]:
    """The `if key not in recv: raise` statement that dominates `node`."""
    for s in ctx.flow.dominating_stmts(node):
        if isinstance(s, ast.If) and always_raises(s.body):
            for c, p in atomic_facts([(s.test, True)]):
                if isinstance(c, ast.Compare) and len(c.ops) == 1 and same_expr(c.comparators[0], recv) and \
                        same_expr(c.left, key):
                    if (isinstance(c.ops[0], ast.NotIn) and p) or (isinstance(c.ops[0], ast.In) and not p):
                        return s
    return None


def _rejects(ctx, ex, psc: ClassInfo, pc: ClassInfo, adv_err: ClassInfo):
    run, prog = ctx.run, ctx.prog

    def guards(cls: ClassInfo):
        post = cls.methods.get('__post_init__')
        out = []
        if post is None:
            return post, out
        for s in ast.walk(post.node):
            if isinstance(s, ast.If) and always_raises(s.body):
                r = next((x for x in ast.walk(s) if isinstance(x, ast.Raise)), None)
                if r is not None and ex.is_sub(ex.exc_name(post, r.exc), adv_err.fq):
                    out.append(s)
        return post, out

    post, gs = guards(psc)
    # Scenario evaluation: for every combination of selection kinds (and, for two name sets, their relation) the guards of
    # __post_init__ are evaluated through the bodies of the PortSelect predicates they call.  Which guard rejects what, and
    # how the guards are written (one test, two symmetric tests, a loop over both orientations), does not matter.
    psel_cls = prog.cls('adv_shell.port_selection', 'PortSelect')
    pw = prog.cls('adv_shell.port_selection', 'PortWildcard')
    KINDS = ('ALL', 'NONE', 'REMAINING', 'SET')

    def select_leaf(kind: str):
        def leaf(e):
            txt = ast.unparse(e)
            if isinstance(e, ast.Call) and getattr(e.func, 'id', '') in ('is_strset_instance',) and txt.endswith('(self.value)'):
                return kind == 'SET'
            if isinstance(e, ast.Call) and getattr(e.func, 'id', '') == 'isinstance' and len(e.args) == 2 and \
                    ast.unparse(e.args[0]) == 'self.value':
                t = prog.resolve_expr_symbol(psel_cls.module, e.args[1]) if isinstance(e.args[1], (ast.Name, ast.Attribute)) else None
                if t is pw:
                    return kind != 'SET'
                if ast.unparse(e.args[1]) in ('set', 'Set', 'frozenset'):
                    return kind == 'SET'
                return None
            if isinstance(e, ast.Compare) and len(e.ops) == 1 and isinstance(e.ops[0], (ast.Eq, ast.NotEq, ast.Is, ast.IsNot)) and \
                    ast.unparse(e.left) == 'self.value':
                sym = prog.resolve_expr_symbol(psel_cls.module, e.comparators[0]) \
                    if isinstance(e.comparators[0], (ast.Name, ast.Attribute)) else None
                if isinstance(sym, tuple) and sym[0] == 'enum_member' and sym[1] is pw:
                    r = kind == sym[2]
                    return r if isinstance(e.ops[0], (ast.Eq, ast.Is)) else not r
                return None
            if txt == 'self.value':
                return True          # a non-empty name set (class invariant) or an enum member: truthy
            if isinstance(e, ast.Call) and getattr(e.func, 'id', '') in ('set', 'frozenset', 'list', 'tuple') and not e.args:
                return False
            return None
        return leaf

    def method_truth(sel_kind: str, meth: str) -> Optional[bool]:
        m_ = prog.lookup_method(psel_cls, meth)
        if m_ is None:
            return None
        body = [b for b in m_.node.body if not (isinstance(b, ast.Expr) and isinstance(b.value, ast.Constant))]
        body = [b for b in body if not (isinstance(b, ast.Expr) and isinstance(b.value, ast.Call))]      # argument validators
        if len(body) != 1 or not isinstance(body[0], ast.Return) or body[0].value is None:
            return None
        return eval_guard(body[0].value, select_leaf(sel_kind))

    def cfg_leaf(ks: str, km: str, rel: str):
        kind_of_sel = {'self.sts': ks, 'self.mts': km}
        both_sets = ks == 'SET' and km == 'SET'
        equal = (ks == km) and (ks != 'SET' or rel == 'equal')
        overlap = both_sets and rel in ('equal', 'overlap')

        def is_strset_call(x):
            return isinstance(x, ast.Call) and isinstance(x.func, ast.Attribute) and x.func.attr == 'tryget_strset' and \
                ast.unparse(x.func.value) in kind_of_sel

        def leaf(e):
            if isinstance(e, (ast.BinOp, ast.ListComp, ast.SetComp, ast.GeneratorExp)) and post is not None:
                # locals that stand for the name sets
                import copy as _copy
                defs_ = {a.targets[0].id: a.value for a in iter_own_nodes(post.node) if isinstance(a, ast.Assign)
                         and len(a.targets) == 1 and isinstance(a.targets[0], ast.Name)}

                class Exp(ast.NodeTransformer):
                    def visit_Name(self, n):
                        return _copy.deepcopy(defs_[n.id]) if n.id in defs_ and isinstance(n.ctx, ast.Load) else n
                if any(isinstance(x, ast.Name) and x.id in defs_ for x in ast.walk(e)):
                    e = Exp().visit(_copy.deepcopy(e))
            if isinstance(e, ast.Compare) and len(e.ops) == 1 and isinstance(e.ops[0], (ast.Eq, ast.NotEq)) and \
                    {ast.unparse(e.left), ast.unparse(e.comparators[0])} == {'self.sts', 'self.mts'}:
                return equal if isinstance(e.ops[0], ast.Eq) else not equal
            if isinstance(e, ast.BinOp) and isinstance(e.op, ast.BitAnd) and is_strset_call(e.left) and is_strset_call(e.right) and \
                    ast.unparse(e.left.func.value) != ast.unparse(e.right.func.value):
                return overlap
            if isinstance(e, (ast.ListComp, ast.SetComp, ast.GeneratorExp)) and len(e.generators) == 1 and \
                    is_strset_call(e.generators[0].iter) and len(e.generators[0].ifs) == 1:
                c_ = e.generators[0].ifs[0]
                if isinstance(c_, ast.Compare) and len(c_.ops) == 1 and isinstance(c_.ops[0], ast.In) and \
                        is_strset_call(c_.comparators[0]) and \
                        ast.unparse(c_.comparators[0].func.value) != ast.unparse(e.generators[0].iter.func.value):
                    return overlap
                return None
            if isinstance(e, ast.Call) and isinstance(e.func, ast.Attribute) and ast.unparse(e.func.value) in kind_of_sel and not e.args:
                return method_truth(kind_of_sel[ast.unparse(e.func.value)], e.func.attr)
            if isinstance(e, ast.Call) and getattr(e.func, 'id', '') in ('bool', 'len', 'any') and len(e.args) == 1:
                return leaf(e.args[0]) if leaf(e.args[0]) is not None else eval_guard(e.args[0], leaf)
            return None
        return leaf

    n_sc = 0
    problems = {}
    semantic = _construction_semantics(ctx, psc, adv_err)
    if semantic is not None:
        n_sc, problems = semantic
    for ks in (KINDS if semantic is None else ()):
        for km in KINDS:
            for rel in (('equal', 'overlap', 'disjoint') if ks == km == 'SET' else ('-',)):
                n_sc += 1
                lf = cfg_leaf(ks, km, rel)

                def local_def(nm: ast.Name):
                    defs = [a for a in iter_own_nodes(post.node) if isinstance(a, ast.Assign) and len(a.targets) == 1
                            and isinstance(a.targets[0], ast.Name) and a.targets[0].id == nm.id]
                    return defs[0].value if len(defs) == 1 else None
                vals = [eval_guard(g.test, lf, local_def) for g in gs]
                rejected = True if any(v is True for v in vals) else None if any(v is None for v in vals) or not gs else False
                equal = (ks == km) and (ks != 'SET' or rel == 'equal')
                want = equal or (ks == km == 'SET' and rel in ('equal', 'overlap')) or (ks == 'ALL' and km != 'NONE') or \
                    (km == 'ALL' and ks != 'NONE')
                label = 'equal selections' if equal else 'overlapping name sets' if (ks == km == 'SET' and rel == 'overlap') else \
                    'ALL combined with a non-empty selection' if want else 'valid combination'
                what = f'sts={ks} mts={km}' + (f' ({rel})' if rel != '-' else '')
                if rejected is None:
                    problems.setdefault(('undecided', label), []).append(what)
                elif rejected != want:
                    problems.setdefault(('wrong', label), []).append(what)
    run.stats['selection_scenarios'] = n_sc
    for label in ('equal selections', 'overlapping name sets', 'ALL combined with a non-empty selection', 'valid combination'):
        und = problems.get(('undecided', label))
        bad = problems.get(('wrong', label))
        if und and not bad:
            run.error('C03.rejects', psc.module.name, 'PortsSemanticsCfg.__post_init__', label,
                      f'{label}: the guards could not be evaluated for {und[:4]}')
            continue
        run.add('C03.rejects', psc.module.name, 'PortsSemanticsCfg.__post_init__', label, not bad,
                (f'{label}: rejected with AdvShellError at construction' if label != 'valid combination' else
                 'every valid combination of selections is accepted') if not bad else
                (f'{label}: not rejected for {bad[:4]}' if label != 'valid combination' else
                 f'valid combinations are rejected: {bad[:4]}'))
    post, gs = guards(pc)
    mixed = _mixed_provides_semantics(ctx, psc, pc, adv_err)
    if mixed is not None:
        run.add('C03.rejects', pc.module.name, 'PortsCfg.__post_init__', 'mixed provides', not mixed,
                'mixed STS/MTS provides ports: rejected with AdvShellError, everything else accepted (construction interpreted for '
                'every accepted pair of selections)' if not mixed else
                'provides side: ' + '; '.join(mixed[:3]))
    else:
        hit = next((g for g in gs if 'provides.sts.is_not_empty' in ast.unparse(g.test) and
                    'provides.mts.is_not_empty' in ast.unparse(g.test)), None)
        run.add('C03.rejects', pc.module.name, 'PortsCfg.__post_init__', hit if hit is not None else 'mixed provides', hit is not None,
                'mixed STS/MTS provides ports: rejected with AdvShellError' if hit is not None else
                'mixed STS/MTS provides ports are not rejected')
    psel = prog.cls('adv_shell.port_selection', 'PortSelect')
    post, gs = guards(psel)
    texts = [ast.unparse(g.test) for g in gs]
    by_interpretation = _portselect_semantics(ctx, psel, adv_err)
    for label, pred in (('empty name set', lambda t: t.startswith('not self.value')),
                        ('empty port name', lambda t: "'' in self.value" in t)):
        if by_interpretation is not None:
            okk = by_interpretation[label]
            run.add('C03.rejects', psel.module.name, 'PortSelect.__post_init__', label, okk is True,
                    f'{label}: rejected with AdvShellError (construction interpreted)' if okk is True else
                    f'{label} is not rejected' if okk is False else f'{label}: refused with {okk}, not AdvShellError')
            continue
        hit = next((g for g, t in zip(gs, texts) if pred(t)), None)
        run.add('C03.rejects', psel.module.name, 'PortSelect.__post_init__', hit if hit is not None else label, hit is not None,
                f'{label}: rejected with AdvShellError' if hit is not None else f'{label} is not rejected')
    run.floor('C03.rejects', 6)



def _portnames_semantics(ctx, pt: FuncInfo) -> bool:
    """portnames_t interpreted (dznverif.scenario, E7) on port lists of length 0 to 4 in every order of directions
    (provides / requires, injected or not; the code only compares the direction of a port and stores its name): the provides
    names are exactly the names of the provides ports and the requires names those of the requires ports - wherever in the
    declaration order they stand.  False when the function cannot be interpreted: the shape rule decides then."""
    from ..scenario import Interp, EnumV, Obj, Raised, Undecided
    import itertools
    run, prog = ctx.run, ctx.prog
    try:
        ports_cls, port_cls = prog.cls('ast', 'Ports'), prog.cls('ast', 'Port')
        pd = prog.cls('ast', 'PortDirection')
    except Exception:       # pylint: disable=broad-except
        return False
    bad: List[str] = []
    n = 0
    try:
        for length in range(0, 5):
            for dirs in itertools.product(('PROVIDES', 'REQUIRES'), repeat=length):
                it = Interp(prog)
                elements = [Obj(port_cls, {'name': f'p{i}', 'direction': EnumV(pd, d)}) for i, d in enumerate(dirs)]
                ports = Obj(ports_cls, {'elements': elements})
                n += 1
                label = '[' + ', '.join(f'{d.lower()} p{i}' for i, d in enumerate(dirs)) + ']'
                try:
                    res = it.call_function(pt, [ports], {})
                except Raised as exc:
                    bad.append(f'ports {label}: raises {exc.name.split(".")[-1]}')
                    continue
                if not isinstance(res, Obj):
                    raise Undecided('portnames_t does not return a PortNames')
                for side in ('provides', 'requires'):
                    got = res.fields.get(side)
                    if not isinstance(got, (set, frozenset, list, tuple)):
                        raise Undecided(f'PortNames.{side} is no collection')
                    want = {f'p{i}' for i, d in enumerate(dirs) if d == side.upper()}
                    if set(got) != want:
                        bad.append(f'ports {label}: {side} names are {sorted(got)}, expected {sorted(want)}')
    except Undecided as exc:
        run.remark(f'C03: portnames_t could not be interpreted ({exc}); the shape rule decides')
        return False
    run.add('C03.sides', pt.module.name, pt.qualname, f'{n} port lists (every order of directions up to four ports)', not bad,
            'the provides / requires name sets are exactly the names of the provides / requires ports, in whatever order the ports are declared'
            if not bad else 'the per-side name sets lose or misplace ports: ' + '; '.join(bad[:2]))
    return True
