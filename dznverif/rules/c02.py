"""C02 - each port runs under exactly the runtime semantics it was configured with.

Decides on the generator templates: C02.partition (mts_ports / sts_ports partition the ports by semantics; no
statement of the constructor is emitted for an STS port), C02.accessor (per semantics x multi-client branch: strict
type Sts/Mts, accessor target, member variable agree; the chain is exhaustive), C02.dispatch-in / C02.dispatch-out
(the forwarded call of an MTS link sits inside the closure handed to dzn::shell(dispatcher, ...) resp. posted to
the dispatcher), C02.capture (deferred closures capture exactly the IN formals by value).  C02.strict (thorough):
compile-fail witnesses on the strict-port support header.
"""
from __future__ import annotations

import ast
import re
from typing import Any, Dict, List, Optional, Tuple

from ..model import iter_own_nodes
from ..template import (TStr, TObj, TAlt, TRaise, TNoneT, TNone, Hole, Lit, RepS, AltS, Sym, Cond, TEnum, FqnS, Evaluator,
                        TList, RepL)
from ..links import (Scenario, PORT_KINDS, lex, toks_text, tok_text, find_member_calls, parse_closure, match_close,
                     statements_of, is_port_src, collect_loops)
from .wiring import build_wiring, Wiring, PROC
from .c01 import all_links, _eval_formal_dir, _formals_rep, _is_formals_src

MOD = 'dznpy.adv_shell.core.processing'


def check(ctx):
    run, prog = ctx.run, ctx.prog
    run.explanation = (
        'Decided on the generator templates (E4): C02.partition - CppPorts.mts_ports / sts_ports select exactly the '
        'MTS / STS ports (filters evaluated over the enum) and no constructor statement is emitted for an STS port; '
        'C02.accessor - in create_cpp_portitf, per semantics x multi-client branch: STS -> Sts<itf>, accessor returns '
        'the encapsulee\'s own port, no member; MTS -> Mts<itf>, accessor returns the shell\'s member (plain) or the '
        'indexed client port (multi-client), member of interface / selector type; the chain is exhaustive; the strict '
        'type names exist in the strict-port header; C02.dispatch-in - provides in-event links: `return dzn::shell('
        '<dispatcher>, <closure containing the forwarded call>)`; C02.dispatch-out - requires out-event links: the '
        'forwarded call is inside the closure posted to the dispatcher; C02.capture - deferred closures capture by '
        'value exactly the IN formals. Not decided: that dzn::shell / dzn::pump::operator() block / post (Dezyne '
        'runtime, absent), capture lifetimes at run time, address identity.')
    run.assume('parser invariant C15.outevent: out events have no OUT formals, so "IN formals by value" copies all in-arguments')
    run.assume('TextBlock / chunk / cond_chunk are layout only (C17, C18)')
    run.trusted = ['python ast module', 'dznverif E4 template evaluator / scenario evaluation / C++ token patterns']

    w = build_wiring(ctx)
    ev = w.ev

    # ---- C02.partition -------------------------------------------------------------------------------------------------
    cp = prog.cls('adv_shell.common', 'CppPorts')
    rs = prog.cls('adv_shell.types', 'RuntimeSemantics')
    sel: Dict[str, set] = {}
    for prop, want in (('mts_ports', 'MTS'), ('sts_ports', 'STS')):
        m = cp.methods.get(prop)
        if m is None:
            run.error('C02.partition', cp.module.name, 'CppPorts', prop, f'CppPorts.{prop} vanished')
            continue
        val = ev.eval_entry(m)
        accepted = set()
        ok_shape = isinstance(val, TList) and len(val.items) == 1 and isinstance(val.items[0], RepL) and \
            isinstance(val.items[0].src.base, Sym) and val.items[0].src.base.path == ('ports',) and \
            len(val.items[0].items) == 1 and isinstance(val.items[0].items[0], Sym) and \
            val.items[0].items[0].key() == val.items[0].src.var.key()
        if not ok_shape:
            run.error('C02.partition', m.module.name, m.qualname, prop, f'{prop} is not a filtered copy of self.ports: {val!r}'[:200])
            continue
        for member in rs.enum_members:
            kind = 'P-MTS-plain' if member == 'MTS' else 'P-STS'
            sc = Scenario(kind=kind)
            if all(sc.decide(f) is True for f in val.items[0].src.filters):
                accepted.add(member)
            elif any(sc.decide(f) is None for f in val.items[0].src.filters):
                run.error('C02.partition', m.module.name, m.qualname, prop, f'filter of {prop} not decidable by semantics')
        sel[prop] = accepted
        run.add('C02.partition', m.module.name, m.qualname, f'{prop} selects {sorted(accepted)}', accepted == {want},
                f'{prop} = ports with semantics {want}' if accepted == {want} else
                f'{prop} selects ports with semantics {sorted(accepted)} instead of {want}')
    if len(sel) == 2:
        ok = sel['mts_ports'] | sel['sts_ports'] == set(rs.enum_members) and not (sel['mts_ports'] & sel['sts_ports'])
        run.add('C02.partition', cp.module.name, 'CppPorts', 'mts/sts partition', ok,
                'the two lists partition the ports' if ok else 'mts_ports and sts_ports do not partition the ports')
    # no constructor statement for STS ports
    for kind in ('P-STS', 'R-STS'):
        for origin in ('CREATE', 'IMPORT'):
            stmts, problems = w.port_statements('create_constructor', kind, origin=origin)
            for p in problems:
                run.error('C02.partition', MOD, 'create_constructor', p, p)
            run.add('C02.partition', MOD, 'create_constructor', f'{kind} ({origin}): {len(stmts)} per-port statements',
                    not stmts, f'no statement is generated for a {kind} port' if not stmts else
                    f'{kind} port gets constructor statements: {toks_text(stmts[0][0])[:100]}')
        for d in ('IN', 'OUT'):
            ls, _pr = w.links('create_constructor', kind, d)
            run.add('C02.partition', MOD, 'create_constructor', f'{kind} {d}: {len(ls)} links', not ls,
                    f'no event of a {kind} port passes through the shell' if not ls else
                    f'{kind} port has rerouted {d.lower()}-events')

    # ---- C02.accessor ------------------------------------------------------------------------------------------------------
    _accessor(ctx, w)

    # ---- C02.dispatch-in / dispatch-out / capture --------------------------------------------------------------------------------
    links, _problems = all_links(w)
    seen = set()
    n_disp = 0
    for entry, kind, d, role, ln in links:
        if entry != 'create_constructor' or ln.style != 'closure':
            continue
        key = (kind, d, toks_text(ln.tokens))
        if key in seen:
            continue
        seen.add(key)
        body = ln.closure.body
        label = f'[{kind} {d}] {ln.lhs.text()}'
        calls = find_member_calls(body)
        if len(calls) != 1:
            continue
        _mp, _args, idx = calls[0]
        if d == 'IN':
            n_disp += 1
            # return dzn :: shell ( <dispatcher> , <closure> ) ;
            txt = [tok_text(t) for t in body[:5]]
            shape = txt == ['return', 'dzn', '::', 'shell', '(']
            ok, why = False, 'the in-event link is not `return dzn::shell(<dispatcher>, <closure>)`: the call runs in the ' \
                             'caller\'s thread instead of the dispatcher'
            if shape:
                close = match_close(body, 4)
                inner = body[5:close]
                disp = inner[0] if inner else None
                comma = next((i for i, t in enumerate(inner) if t == ('p', ',')), None)
                if disp is not None and disp[0] == 'hole' and disp[1].sym.path[-2:] == ('dispatcher', 'name') and comma == 1:
                    cl = parse_closure(inner[2:])
                    if cl is not None and len(find_member_calls(cl.body)) == 1 and 5 + 2 <= idx < close:
                        tail = [tok_text(t) for t in body[close + 1:]]
                        ok = tail in ([';'], [])
                        why = 'in-events execute inside dzn::shell(<facilities dispatcher>, ...) and the reply is returned'
                    else:
                        why = 'the forwarded call is not inside the closure handed to dzn::shell'
                else:
                    why = f'first argument of dzn::shell is `{tok_text(disp) if disp else ""}`, not the facilities dispatcher'
            run.add('C02.dispatch-in', MOD, 'reroute_in_events', label, ok, why)
            if ok:
                _capture(ctx, 'reroute_in_events', label, parse_closure(body[5:match_close(body, 4)][2:]))
        elif ln.lhs.side == 'boundary':       # requires out-events
            n_disp += 1
            first = body[1] if len(body) > 1 and body[0] == ('id', 'return') else (body[0] if body else None)
            start = 1 if body and body[0] == ('id', 'return') else 0
            ok, why = False, 'the out-event link does not post a closure to the dispatcher'
            if first is not None and first[0] == 'hole' and first[1].sym.path[-2:] == ('dispatcher', 'name') and \
                    len(body) > start + 1 and body[start + 1] == ('p', '('):
                close = match_close(body, start + 1)
                cl = parse_closure(body[start + 2:close])
                if cl is not None and len(find_member_calls(cl.body)) == 1 and start + 2 <= idx < close:
                    ok, why = True, 'out-events are posted to the dispatcher as a closure'
                    _capture(ctx, 'reroute_out_events', label, cl)
                else:
                    why = 'the forwarded call is outside the closure posted to the dispatcher (runs inline in the peer\'s thread)'
            elif first is not None:
                why = f'the out-event link calls `{tok_text(first)}` instead of the facilities dispatcher'
            run.add('C02.dispatch-out', MOD, 'reroute_out_events', label, ok, why)
    if n_disp < 3 and not run.has_violation():
        run.error('C02.dispatch-in', MOD, '-', 'dispatcher links', f'only {n_disp} dispatcher links found (3 confirmed)')
    run.floor('C02.partition', 10)
    run.floor('C02.capture', 3)


def _capture(ctx, fn_name: str, label: str, cl, rule: str = 'C02.capture'):
    run = ctx.run
    caps = cl.captures
    reps = [t[1] for t in caps if t[0] == 'rep']
    rest = [tok_text(t) for t in caps if t[0] != 'rep']
    problems = []
    if rest != ['&']:
        problems.append(f'capture default is `{" ".join(rest)}`')
    if len(reps) != 1 or not _is_formals_src(reps[0].src):
        problems.append('the by-value captures are not one repetition over the event\'s formals')
    else:
        r = reps[0]
        verdict = {}
        for member in ('IN', 'OUT', 'INOUT'):
            vs = [_eval_formal_dir(f, member) for f in r.src.filters]
            verdict[member] = all(v is True for v in vs) if vs else True
        if verdict != {'IN': True, 'OUT': False, 'INOUT': False}:
            problems.append(f'by-value captures select formals {sorted(k for k, v in verdict.items() if v)}; exactly the IN '
                            f'formals must be copied (a deferred closure must not keep references to the caller\'s frame, '
                            f'and out/inout formals must stay references)')
        holes = [p for p in r.elem.parts if isinstance(p, Hole)]
        if not (len(holes) == 1 and holes[0].sym.root == r.src.var.root and holes[0].sym.path == ('name',)):
            problems.append(f'captured element is `{r.elem!r}`')
    run.add(rule, MOD, fn_name, label + ' captures', not problems,
            'deferred closure: [&, <IN formals by value>]' if not problems else '; '.join(problems))


def _strict_names(ctx) -> set:
    prog = ctx.prog
    f = prog.func('support_files.strict_port', 'body_hh')
    names = set()
    for n in ast.walk(f.node):
        if isinstance(n, ast.Constant) and isinstance(n.value, str):
            names |= set(re.findall(r'struct\s+(\w+)', n.value))
    return names


def _accessor(ctx, w: Wiring):
    run, prog = ctx.run, ctx.prog
    ev = w.ev
    fn = prog.func(PROC, 'create_cpp_portitf')
    val = ev.eval_entry(fn)
    strict = _strict_names(ctx)
    run.add('C02.accessor', 'dznpy.support_files.strict_port', 'body_hh', f'strict port types {sorted(strict)}',
            {'Sts', 'Mts'} <= strict, 'strict_port header defines Sts and Mts' if {'Sts', 'Mts'} <= strict else
            f'strict_port header defines {sorted(strict)}')
    cases = {'provides STS': ('P-STS', 'Sts'), 'provides MTS plain': ('P-MTS-plain', 'Mts'),
             'provides MTS multi-client': ('P-MTS-multiclient', 'Mts'), 'requires STS': ('R-STS', 'Sts'),
             'requires MTS': ('R-MTS', 'Mts')}
    # exhaustive: with all three decided, no branch is left that falls to the final raise
    for label, (kind, want_strict) in cases.items():
        sc = Scenario(kind=kind)
        obj = sc.select(val)
        if isinstance(obj, TAlt) or not isinstance(obj, TObj):
            if isinstance(obj, TRaise):
                run.violation('C02.accessor', MOD, 'create_cpp_portitf', f'{label}: raises',
                              f'a port with {label} semantics falls through to `raise`: the branch chain is not exhaustive')
            else:
                run.error('C02.accessor', MOD, 'create_cpp_portitf', f'{label}', f'branch for {label} not decidable: {obj!r}'[:200])
            continue
        acc = obj.fields.get('accessor_fn')
        target = obj.fields.get('accessor_target')
        mv = obj.fields.get('member_var')
        problems = []
        # strict type
        rt = acc.fields.get('return_type') if isinstance(acc, TObj) else None
        fq = rt.fields.get('fqn') if isinstance(rt, TObj) else None
        ns = fq.fields.get('ns_ids') if isinstance(fq, TObj) else None
        strict_name = ns[2][1][-1] if isinstance(ns, tuple) and ns[0] == 'nsconcat' and isinstance(ns[2], tuple) and ns[2][0] == 'nsids' else None
        ns_base = ns[1] if isinstance(ns, tuple) and ns[0] == 'nsconcat' else None
        if strict_name != want_strict:
            problems.append(f'accessor type is {strict_name}<...>, must be {want_strict}<...>')
        if not (isinstance(ns_base, Sym) and ns_base.root == 'support_files_ns'):
            problems.append('strict type is not taken from the support-files namespace')
        targ = rt.fields.get('template_arg') if isinstance(rt, TObj) else None
        tfq = targ.fields.get('fqn') if isinstance(targ, TObj) else None
        tns = tfq.fields.get('ns_ids') if isinstance(tfq, TObj) else None
        if not (isinstance(tns, Sym) and tns.path[-2:] == ('interface', 'fqn')):
            problems.append('strict type argument is not the port\'s interface')
        # accessor body and target
        body = acc.fields.get('contents') if isinstance(acc, TObj) else None
        btoks = lex(body) if isinstance(body, TStr) else []
        ttoks = lex(target) if isinstance(target, TStr) else []
        btxt = ' '.join(tok_text(t) for t in btoks)
        ttxt = ' '.join(tok_text(t) for t in ttoks)
        if kind in ('P-STS', 'R-STS'):
            if mv is not TNone:
                problems.append('an STS port gets a boundary member variable')
            ok_t = len(ttoks) == 3 and ttoks[0][0] == 'hole' and ttoks[0][1].sym.path[-2:] == ('member_var', 'name') and \
                ttoks[0][1].sym.root == 'encapsulee' and ttoks[2][0] == 'hole' and ttoks[2][1].sym.path[-2:] == ('port', 'name')
            if not ok_t:
                problems.append(f'STS accessor target is `{ttxt}`, not the encapsulee\'s own port')
            if btxt != f'return {{ {ttxt} }} ;':
                problems.append(f'STS accessor returns `{btxt}`')
        else:
            if not isinstance(mv, TObj):
                problems.append('an MTS port has no boundary member variable')
            else:
                mvname = mv.fields.get('name')
                if not (isinstance(mvname, TStr) and repr(mvname) == repr(target)):
                    problems.append(f'accessor target `{ttxt}` is not the boundary member `{mvname!r}`')
                mtype = mv.fields.get('type')
                mfq = mtype.fields.get('fqn').fields.get('ns_ids') if isinstance(mtype, TObj) and isinstance(mtype.fields.get('fqn'), TObj) else None
                if kind in ('P-MTS-plain', 'R-MTS'):
                    if not (isinstance(mfq, Sym) and mfq.path[-2:] == ('interface', 'fqn')):
                        problems.append('boundary member is not of the port\'s interface type')
                    if btxt != f'return {{ {ttxt} }} ;':
                        problems.append(f'MTS accessor returns `{btxt}`, not the boundary member')
                else:
                    sel_ok = isinstance(mfq, tuple) and mfq[0] == 'nsconcat' and mfq[2] == ('nsids', ('MultiClientSelector',))
                    if not sel_ok:
                        problems.append('multi-client member is not a MultiClientSelector')
                    if btxt != f'return {{ {ttxt} . Index ( identifier ) . dznPort }} ;':
                        problems.append(f'multi-client accessor returns `{btxt}`, not the indexed client port')
            if ttoks and ttoks[0][0] == 'hole' and ttoks[0][1].sym.root == 'encapsulee':
                problems.append('MTS accessor hands out the encapsulee\'s own port (bypasses the dispatcher)')
        run.add('C02.accessor', MOD, 'create_cpp_portitf', f'{label}: {want_strict}<itf>, target `{ttxt}`', not problems,
                f'{label}: strict type, accessor target and member variable agree' if not problems else '; '.join(problems))
    # STS + multiclient is excluded by DznPortItf (C04.validate); anything else must raise
    run.floor('C02.accessor', 4)


def check_thorough(ctx):
    from ..embedded_cxx import strict_port_witnesses
    strict_port_witnesses(ctx, 'C02.strict')
