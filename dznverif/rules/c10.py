"""C10 - final construction detects every unbound boundary event.

Decides on the generator template of FinalConstruct(): C10.cover (every exposed port kind is checked exactly once,
on the object the accessor hands out: check_bindings() for plain ports, FinalConstruct() of the selector for a
multi-client port), C10.encapsulee (parent meta assigned from the parameter, encapsulee check_bindings(), no early
exit before the checks).  C10.selector (thorough, clang AST of the support header): FinalConstruct checks every
client port and locks registration.
"""
from __future__ import annotations

import ast
from typing import Any, Dict, List

from ..template import TStr, TObj, TAlt, Sym, TNone
from ..links import Scenario, PORT_KINDS, lex, toks_text, tok_text, statements_of, collect_loops, is_port_src
from .wiring import build_wiring, PROC

MOD = 'dznpy.adv_shell.core.processing'


def check(ctx):
    run, prog = ctx.run, ctx.prog
    run.explanation = (
        'Decided on the generator template of FinalConstruct() (E4, evaluated over the five port kinds): C10.cover - '
        'for every kind of exposed port exactly one check statement is emitted, on the same object the accessor hands '
        'out (accessor_target): <target>.check_bindings() for STS and plain MTS ports, <selector>.FinalConstruct() for a '
        'multi-client port; C10.encapsulee - dzn_meta.parent is assigned from the function\'s parameter, the '
        'encapsulee\'s own check_bindings() is called, and no return/throw precedes the checks. C10.selector (thorough) - '
        'in the MultiClientSelector header FinalConstruct iterates all registered clients calling check_bindings, then '
        'sets the final-constructed flag, and every insertion into the client map is guarded by that flag. Not decided: '
        'that check_bindings() of Dezyne-generated ports tests every event (Dezyne\'s code); run-time outcome with one '
        'event unbound.')
    run.trusted = ['python ast module', 'dznverif E4 template evaluator / scenario evaluation']
    w = build_wiring(ctx, entries=('create_final_construct_fn',))
    val = w.values['create_final_construct_fn']
    if not isinstance(val, TObj) or not isinstance(val.fields.get('contents'), (TStr,)) and val.fields.get('contents') is None:
        pass
    contents = val.fields.get('contents') if isinstance(val, TObj) else None
    if contents is None or contents is TNone:
        run.error('C10.cover', MOD, 'create_final_construct_fn', 'contents', 'FinalConstruct() has no contents template')
        return
    text = w.ev.to_str(contents, 2) if not isinstance(contents, TStr) else contents

    # ---- C10.cover ------------------------------------------------------------------------------------------------------
    want = {'P-STS': 'check_bindings', 'P-MTS-plain': 'check_bindings', 'P-MTS-multiclient': 'FinalConstruct',
            'R-STS': 'check_bindings', 'R-MTS': 'check_bindings'}
    # a filter on the port loops that no port kind decides depends on other model data (e.g. on the events of the
    # port's interface): ports for which it is false get no check at all
    for src, cnd in _data_dependent_filters(w, contents):
        run.add('C10.cover', MOD, 'create_final_construct_fn', f'check loop {src.var!r} in {src.base!r} filtered by {cnd!r}'[:220], False,
                f'the binding check is emitted only for ports satisfying `{cnd!r}`: an exposed port for which this is false is '
                f'never checked, an unbound event of it goes unnoticed')
    # a condition around a check loop that no port kind decides and that is not the emptiness of that very loop: the checks
    # of these ports depend on something else in the model (e.g. on whether there are ports of the OTHER direction too)
    from ..links import collect_loops, is_port_src
    seen_c = set()
    for lp in collect_loops(w.ev, contents, is_port_src):
        for fr in lp.frames:
            if fr.kind != 'cond' or fr.cond is None or repr(fr.cond) in seen_c:
                continue
            if any(w.scenario('create_final_construct_fn', kind=k, has_multiclient=(k == 'P-MTS-multiclient')).decide(fr.cond) is not None
                   for k in PORT_KINDS):
                continue

            def atoms(c):
                return [a for x in c.args for a in atoms(x)] if c.op in ('and', 'or', 'not') else [c]
            foreign = [a for a in atoms(fr.cond) if not (a.op == 'nonempty' and a.args and getattr(a.args[0], 'base', None) is not None
                                                         and repr(a.args[0].base) == repr(lp.src.base)
                                                         and repr(a.args[0].filters) == repr(lp.src.filters))]
            if foreign and fr.cond.op in ('and',) or (foreign and len(atoms(fr.cond)) == 1 and foreign[0].op == 'nonempty'):
                seen_c.add(repr(fr.cond))
                run.add('C10.cover', MOD, 'create_final_construct_fn', f'check loop over {lp.src.base!r} under {fr.cond!r}'[:200], False,
                        f'the binding checks of the ports in `{lp.src.base!r}` are only emitted when `{fr.cond!r}` holds - a condition on '
                        f'other parts of the model ({", ".join(repr(a)[:60] for a in foreign[:2])}): when it is false none of these ports is '
                        f'checked and an unbound event goes unnoticed')
    for kind in PORT_KINDS:
        stmts, problems = w.port_statements('create_final_construct_fn', kind, val=contents)
        for p in problems:
            run.error('C10.cover', MOD, 'create_final_construct_fn', p, p)
        calls = []
        for st, pvar in stmts:
            txt = [tok_text(t) for t in st]
            # <accessor_target> . <method> ( )
            if len(st) == 5 and st[0][0] == 'hole' and st[0][1].sym.path[-1:] == ('accessor_target',) and \
                    st[0][1].sym.root == pvar.root and txt[1] == '.' and txt[3:] == ['(', ')']:
                calls.append(txt[2])
            else:
                calls.append('?' + ' '.join(txt)[:60])
        ok = calls == [want[kind]]
        run.add('C10.cover', MOD, 'create_final_construct_fn', f'{kind}: {calls}', ok,
                f'{kind}: the exposed port object is checked once with {want[kind]}()' if ok else
                f'{kind}: FinalConstruct() emits {calls or "no check"} for such a port; exactly one '
                f'<accessor target>.{want[kind]}() is required - an unbound event of this port would go unnoticed '
                f'(or the check runs on another object than the one handed out)')
    run.floor('C10.cover', 5)

    # ---- C10.encapsulee ------------------------------------------------------------------------------------------------------
    sc = Scenario(kind='P-MTS-plain')
    stmts = statements_of(sc.simplify(text))
    param = None
    params = val.fields.get('params')
    if params is not None and getattr(params, 'items', None):
        p0 = params.items[0]
        if isinstance(p0, TObj) and isinstance(p0.fields.get('name'), TStr):
            param = p0.fields['name'].const()
    parent_ok = False
    check_ok = False
    early = []
    for st in stmts:
        txt = [tok_text(t) for t in st]
        if 'return' in txt or 'throw' in txt:
            early.append(' '.join(txt)[:60])
        if len(st) >= 5 and st[0][0] == 'hole' and st[0][1].sym.path[-2:] == ('member_var', 'name') and \
                st[0][1].sym.root == 'encapsulee':
            if txt[1:6] == ['.', 'dzn_meta', '.', 'parent', '='] and txt[6:] == [param]:
                parent_ok = True
            if txt[1:] == ['.', 'check_bindings', '(', ')']:
                check_ok = True
    run.add('C10.encapsulee', MOD, 'create_final_construct_fn', 'dzn_meta.parent assignment', parent_ok,
            f'the encapsulee\'s parent meta is set from the parameter `{param}`' if parent_ok else
            'the given parent is not recorded in the wrapped component\'s meta information')
    run.add('C10.encapsulee', MOD, 'create_final_construct_fn', 'encapsulee check_bindings', check_ok,
            'the wrapped component\'s own ports are checked' if check_ok else
            'the wrapped component\'s own check_bindings() is not called')
    run.add('C10.encapsulee', MOD, 'create_final_construct_fn', 'no early exit', not early,
            'no return/throw among the checks' if not early else f'early exit in FinalConstruct(): {early}')
    # the function is declared and defined (shared with C06.pair)
    b = prog.cls('adv_shell', 'Builder')
    from .shared import shell_frame_anchors, frame_entities
    fa = shell_frame_anchors(ctx)
    for meth, attr in (('_create_headerfile', 'as_decl'), ('_create_sourcefile', 'as_def')):
        m = b.methods.get(meth)
        if fa is not None:
            ok = 'final_construct_fn' in frame_entities(fa['header' if attr == 'as_decl' else 'source'],
                                                        'initialization' if attr == 'as_decl' else 'contents')
        else:
            ok = m is not None and f'final_construct_fn.{attr}' in ast.unparse(m.node)
        run.add('C10.encapsulee', 'dznpy.adv_shell', f'Builder.{meth}', f'final_construct_fn.{attr}', ok,
                f'FinalConstruct() is emitted ({attr})' if ok else f'FinalConstruct() is not emitted ({attr})')

    # ---- C10.selector (clang AST of the instantiated support header) -----------------------------------------------------------
    from ..embedded_cxx import selector_rules
    selector_rules(ctx, 'C10')


def _data_dependent_filters(w, contents):
    """Remove (in place) the conjuncts of port-loop filters that are undecided for every port kind; return them."""
    from ..links import collect_loops, is_port_src
    from ..template import Cond
    out = []
    seen = set()
    for lp in collect_loops(w.ev, contents, is_port_src):
        for src in [lp.src] + [fr.src for fr in lp.frames if fr.kind == 'rep' and is_port_src(fr.src)]:
            if id(src) in seen:
                continue
            seen.add(id(src))
            new_filters = []
            for f in src.filters:
                conj = list(f.args) if f.op == 'and' else [f]
                keep = []
                for c in conj:
                    decided = any(w.scenario('create_final_construct_fn', kind=k, has_multiclient=(k == 'P-MTS-multiclient')).decide(c)
                                  is not None for k in PORT_KINDS)
                    if decided:
                        keep.append(c)
                    else:
                        out.append((src, c))
                if keep:
                    new_filters.append(keep[0] if len(keep) == 1 else Cond('and', tuple(keep)))
            src.filters[:] = new_filters
    return out


def check_thorough(ctx):
    pass
