"""C16 - parses are isolated and repeatable.

Decides: C16.instance-state (everything the parser writes is a local fresh value or instance state
that __init__ allocates freshly; nothing class-level or module-level), C16.idempotent (a public
method that returns instance state which it grows re-initialises that state before growing it),
C16.no-sharing (parse functions mutate none of their arguments; namespace nodes are only created).
"""
from __future__ import annotations

import ast
from typing import Dict, List, Optional, Set, Tuple

from ..model import FuncInfo, ClassInfo, iter_own_nodes, strip_opt
from ..mutation import Mutations, FRESH, is_fresh
from ..flow import atomic_facts
from .shared import module_state_instances

GROW = ('append', 'extend', 'insert', 'add', 'update', 'setdefault', 'augmented', '__iadd__', 'appendleft')


def check(ctx):
    run, prog, cg = ctx.run, ctx.prog, ctx.cg
    run.explanation = (
        'Decided: C16.instance-state - ownership analysis of every mutation site reachable from the public methods '
        'of DznJsonAst and the parse_* functions: receivers are fresh locals or instance attributes allocated in '
        '__init__, never class-level/module-level objects, never arguments; C16.idempotent - accumulator rule: '
        'instance state that a public method grows and returns is re-initialised on every path before the first '
        'growth; C16.no-sharing - no parse function mutates an argument, NamespaceTree nodes are never written '
        'after construction. Not decided: equality of results across interleavings as values (follows from the '
        'rules under the determinism assumption of C08).')
    run.assume('Python evaluation is deterministic in the absence of shared mutable state (C08/C12 rules)')
    run.trusted = ['python ast module', 'dznverif E1 program model', 'dznverif E3c ownership analysis']

    parser = prog.cls('json_ast', 'DznJsonAst')
    jmod = prog.module('json_ast')
    entries: List[FuncInfo] = [m for m in parser.methods.values()]
    entries += [f for name, f in jmod.functions.items() if name.startswith('parse_') or name == 'get_class_value']
    eh = prog.cls('json_ast', 'ElementHelper')
    entries += list(eh.methods.values())
    reach = cg.reachable(entries)
    run.stats['entry_points'] = len(entries)
    run.stats['reachable_functions'] = len(reach)
    if len([e for e in entries if e.name.startswith('parse_')]) < 28:
        run.error('C16.instance-state', jmod.name, '-', 'parse_* functions', 'fewer than 28 parse_* functions found')

    mut = Mutations(prog, cg)
    run.stats['ownership_fixpoint_iterations'] = mut.solve()

    # attributes freshly allocated per instance in __init__
    init = parser.methods.get('__init__')
    fresh_attrs: Dict[str, ast.AST] = {}
    if init is None:
        run.error('C16.instance-state', jmod.name, 'DznJsonAst', '__init__', 'DznJsonAst.__init__ vanished')
        return
    for n in iter_own_nodes(init.node):
        if isinstance(n, ast.Assign):
            for t in n.targets:
                if isinstance(t, ast.Attribute) and isinstance(t.value, ast.Name) and t.value.id == 'self':
                    rs = mut.roots(init, n.value)
                    conditional = ctx.prog.parent(n) is not init.node
                    if all(is_fresh(r) and not any(h[0] in ('global',) for _p, h in r[1]) for r in rs):
                        if not conditional:
                            fresh_attrs[t.attr] = n
                        else:
                            fresh_attrs.setdefault(t.attr, n)
                    run.add('C16.instance-state', init.module.name, init.qualname, n,
                            all(r[0] != 'global' for r in rs),
                            f'instance attribute {t.attr} initialised per instance' if all(r[0] != 'global' for r in rs)
                            else f'instance attribute {t.attr} is bound to a module-level object', node=n)

    # the result collection the parser hands back (return annotation of process()): a parameter declared with exactly that
    # class is an OUTPUT of the step - the caller names the collection to fill - and filling it is judged where the caller
    # passes the object (the ownership analysis carries the mutation to the call site: fresh local / per-instance state /
    # the caller's own collector).  A default other than None would be one object shared by every call.
    proc = parser.methods.get('process')
    collector = None
    if proc is not None and proc.node.returns is not None:
        sym_ = prog.resolve_expr_symbol(proc.module, proc.node.returns) if isinstance(proc.node.returns, (ast.Name, ast.Attribute)) else None
        collector = sym_ if isinstance(sym_, ClassInfo) else None

    def collector_param(fn_: FuncInfo, name: str) -> bool:
        if collector is None:
            return False
        a_ = fn_.node.args
        pos_ = list(a_.posonlyargs) + list(a_.args)
        dflts_ = dict(zip([p_.arg for p_ in pos_][len(pos_) - len(a_.defaults):], a_.defaults))
        dflts_.update({p_.arg: d_ for p_, d_ in zip(a_.kwonlyargs, a_.kw_defaults) if d_ is not None})
        for p_ in pos_ + list(a_.kwonlyargs):
            if p_.arg != name or p_.annotation is None:
                continue
            ann_ = p_.annotation
            if isinstance(ann_, ast.Subscript) and ast.unparse(ann_.value).split('.')[-1] == 'Optional':
                ann_ = ann_.slice
            sym2_ = prog.resolve_expr_symbol(fn_.module, ann_) if isinstance(ann_, (ast.Name, ast.Attribute)) else None
            if sym2_ is not collector:
                return False
            d_ = dflts_.get(name)
            return d_ is None or (isinstance(d_, ast.Constant) and d_.value is None)
        return False

    # ---- C16.instance-state / C16.no-sharing over all mutation sites -----------------------------------
    n_sites = 0
    for fn in reach:
        for ev in mut.events.get(fn.fq, []):
            n_sites += 1
            is_ctor = fn.name in ('__init__', '__post_init__')
            problems = []
            notes = []
            for r in ev.roots:
                if is_fresh(r):
                    notes.append('fresh local')
                elif r[0] == 'global':
                    problems.append(f'writes module-level object {r[1]} shared by all parser instances')
                elif r[0] == 'param':
                    # an internal step (private name, only called from inside the package) filling an object its caller hands
                    # it is judged where the caller passes that object (the ownership analysis propagates the mutation to the
                    # call site); the public parse functions own nothing they are given
                    internal = fn.name.startswith('_') and not fn.name.startswith('__') and bool(cg.callers(fn))
                    if internal:
                        notes.append(f'fills the object its (internal) caller passes as `{r[1]}`: judged at the call sites')
                    elif collector_param(fn, r[1]):
                        notes.append(f'fills the {collector.name} its caller names as `{r[1]}` (an output of this step, None by '
                                     f'default): judged at the call sites')
                    else:
                        problems.append(f'mutates its argument `{r[1]}` (path {".".join(r[2])}): the caller\'s JSON '
                                        f'document / namespace node is shared with other parses')
                elif r[0] == 'self':
                    if is_ctor:
                        notes.append('initialises the object under construction')
                    elif fn.cls is not None and fn.cls.fq == parser.fq:
                        attr = r[1][0] if r[1] else '?'
                        if attr in fresh_attrs or attr == '_ast':
                            notes.append(f'instance state {attr} (allocated per instance in __init__)')
                        else:
                            # attribute never allocated in __init__: class-level object or created lazily
                            cls_level = attr in parser.fields and parser.fields[attr][1] is not None
                            if cls_level:
                                problems.append(f'writes through class-level attribute {attr}: shared by all '
                                                f'parser instances')
                            else:
                                notes.append(f'instance state {attr}')
                    else:
                        notes.append('mutates its receiver: judged at the call sites')
                else:
                    tys = [t for _txt, t in mut.static_prefix_types(fn, ev.receiver)]
                    shared = [t for t in tys if strip_opt(t)[0] == 'cls' and strip_opt(t)[1].endswith(
                        ('NamespaceTree', 'NamespaceIds', 'FileContents'))]
                    if shared:
                        problems.append(f'mutates an object of unknown provenance of type '
                                        f'{strip_opt(shared[0])[1].split(".")[-1]}')
                    else:
                        notes.append('object of unknown provenance, not parser-shared type')
            rule = 'C16.no-sharing' if any('argument' in p for p in problems) else 'C16.instance-state'
            if problems:
                run.violation(rule, fn.module.name, fn.qualname, ev.node,
                              f'{ev.how} on `{ast.unparse(ev.receiver)[:70]}`: ' + '; '.join(problems), node=ev.node)
            else:
                run.holds('C16.instance-state', fn.module.name, fn.qualname, ev.node,
                          f'{ev.how} on `{ast.unparse(ev.receiver)[:60]}`: ' + ', '.join(sorted(set(notes))),
                          node=ev.node)
    run.stats['mutation_sites_reachable'] = n_sites
    run.floor('C16.instance-state', 15)

    # no parse function has a mutates-parameter summary
    n_ns = 0
    for fn in reach:
        mp = mut.mut_param.get(fn.fq, {})
        for a in fn.params():
            if a.arg in ('self', 'cls'):
                continue
            n_ns += 1
            if a.arg in mp and fn.name.startswith('_') and not fn.name.startswith('__') and cg.callers(fn):
                run.holds('C16.no-sharing', fn.module.name, fn.qualname, f'{fn.qualname}({a.arg})',
                          'internal step that fills an object of its caller: judged at the call sites', nontrivial=False)
            elif a.arg in mp and collector_param(fn, a.arg):
                run.holds('C16.no-sharing', fn.module.name, fn.qualname, f'{fn.qualname}({a.arg})',
                          f'the {collector.name} to fill, named by the caller (None by default): judged at the call sites', nontrivial=False)
            elif a.arg in mp:
                run.violation('C16.no-sharing', fn.module.name, fn.qualname, f'{fn.qualname}({a.arg})',
                              'may mutate its argument: ' + ' <- '.join(mp[a.arg].chain()), node=mp[a.arg].node)
            else:
                run.holds('C16.no-sharing', fn.module.name, fn.qualname, f'{fn.qualname}({a.arg})',
                          'argument is only read', nontrivial=False)
    run.floor('C16.no-sharing', 40)

    # class-level / module-level state (the parser modules and everything they use)
    # the modules the parser can touch: the import closure of json_ast (by-name call edges would drag in the generator)
    used_modules = {parser.module.name}
    work = [parser.module.name]
    while work:
        m = prog.modules.get(work.pop())
        if m is None:
            continue
        for tgt in m.imports.values():
            name = tgt[0] if isinstance(tgt, tuple) else None
            cands = [name, f'{name}.{tgt[1]}' if isinstance(tgt, tuple) and tgt[1] else None]
            for c in cands:
                if c in prog.modules and c not in used_modules:
                    used_modules.add(c)
                    work.append(c)
    run.stats['parser_modules'] = sorted(used_modules)
    for inst in module_state_instances(ctx):
        if inst[0] in used_modules:
            run.add('C16.instance-state', *inst)

    # ---- C16.idempotent ---------------------------------------------------------------------------------------
    _idempotent(ctx, mut, parser, fresh_attrs)
    _carried_state(ctx, mut, parser)


def _grown_paths(mut: Mutations, fn: FuncInfo) -> Dict[Tuple[str, ...], object]:
    out = {}
    for path, ev in mut.mut_self.get(fn.fq, {}).items():
        # follow the witness chain to the primitive mutation
        w = ev
        while w.via is not None:
            w = w.via
        if any(g in w.how for g in GROW):
            out[path] = ev
    return out


def _idempotent(ctx, mut: Mutations, parser: ClassInfo, fresh_attrs):
    run, prog = ctx.run, ctx.prog
    n = 0
    for m in parser.methods.values():
        if m.name.startswith('_') or m.is_property:
            continue
        grown = _grown_paths(mut, m)
        rets = mut.returns.get(m.fq, set())
        ret_attrs = {r[1][0] for r in rets if r[0] == 'self' and r[1]}
        done_attrs = set()
        for path, ev in sorted(grown.items()):
            attr = path[0]
            if attr in done_attrs:
                continue
            done_attrs.add(attr)
            if attr not in ret_attrs:
                run.holds('C16.idempotent', m.module.name, m.qualname, f'{m.qualname} grows self.{attr}',
                          f'{m.qualname} grows self.{".".join(path)} but does not hand it out: not a re-callable '
                          f'result producer', nontrivial=False)
                continue
            n += 1
            # find the first top-level statement of m through which the growth happens and check that a fresh
            # re-initialisation of self.<attr> precedes it at top level
            body = m.node.body
            grow_idx = None
            for k, stmt in enumerate(body):
                for evx in mut.events.get(m.fq, []):
                    if any(r[0] == 'self' and r[1][:1] == (attr,) for r in evx.roots):
                        w = evx
                        while w.via is not None:
                            w = w.via
                        if any(g in w.how for g in GROW) and _contains(stmt, evx.node):
                            grow_idx = k if grow_idx is None else min(grow_idx, k)
            reset_idx = None
            for k, stmt in enumerate(body):
                if _is_fresh_reset(mut, m, stmt, attr) or _calls_resetter(ctx, mut, parser, m, stmt, attr):
                    reset_idx = k
                    break
            _stale_returns(ctx, mut, parser, m, attr, min([x for x in (reset_idx, grow_idx) if x is not None], default=None))
            ok = grow_idx is not None and reset_idx is not None and reset_idx < grow_idx
            if not ok and grow_idx is not None:
                # alternative: the grown containers are emptied in place before the first growth
                grown_sub = {pth[1] for pth in grown if pth[:1] == (attr,) and len(pth) > 1 and pth[1] not in ('*', '[]')}
                cleared = _cleared_before(mut, m, attr, grow_idx)
                if cleared is not None and grown_sub:
                    missing = sorted(grown_sub - cleared)
                    run.add('C16.idempotent', m.module.name, m.qualname, f'{m.qualname} empties self.{attr} in place', not missing,
                            f'every container of self.{attr} that {m.name}() grows is emptied before the first growth' if not missing else
                            f'{m.name}() empties the containers of self.{attr} in place but not {missing}: a second call appends '
                            f'the declarations of those kinds again', node=body[grow_idx])
                    continue
            run.add('C16.idempotent', m.module.name, m.qualname, f'{m.qualname} grows and returns self.{attr}', ok,
                    f'self.{attr} is re-initialised with a fresh value before the first growth' if ok else
                    f'{m.qualname}() appends into self.{attr} (via {" <- ".join(ev.chain()[:3])}) and returns it, but '
                    f'self.{attr} is allocated only in __init__: a second call returns every declaration twice',
                    node=ev.node)
    run.stats['accumulator_obligations'] = n
    # Either there is an obligation that holds, or the public methods do not grow returned instance state at all.
    process = parser.methods.get('process')
    if process is None:
        run.error('C16.idempotent', parser.module.name, 'DznJsonAst', 'process', 'DznJsonAst.process vanished')
    elif n == 0:
        run.holds('C16.idempotent', process.module.name, process.qualname, 'process',
                  'no public method grows instance state that it returns')


def _stale_returns(ctx, mut: Mutations, parser: ClassInfo, m: FuncInfo, attr: str, reset_idx: Optional[int]):
    """A return of the grown instance state that is not preceded by its re-initialisation hands out the result of an
    EARLIER call.  That is only sound when it is guarded by a memo flag that every writer of the method's inputs clears."""
    run = ctx.run
    body = m.node.body
    for k, stmt in enumerate(body):
        if reset_idx is not None and k >= reset_idx:
            break
        for r in [x for x in ast.walk(stmt) if isinstance(x, ast.Return) and x.value is not None]:
            rs = mut.roots(m, r.value)
            if not any(x[0] == 'self' for x in rs):
                continue
            facts = [(ast.unparse(c), pol) for c, pol in atomic_facts(ctx.flow.path_conditions(r))]
            flags = [t[5:] for t, pol in facts if pol and t.startswith('self.') and t[5:].isidentifier()]
            if not flags:
                run.add('C16.idempotent', m.module.name, m.qualname, r, False,
                        f'`{ast.unparse(r)}` hands out self.{attr} without re-parsing: the result of an earlier call (or of '
                        f'another document loaded since) is returned', node=r)
                continue
            flag = flags[0]
            # the inputs of the method: instance attributes it reads (through properties as well)
            inputs = set()
            for n in iter_own_nodes(m.node):
                if isinstance(n, ast.Attribute) and isinstance(n.ctx, ast.Load) and isinstance(n.value, ast.Name) and n.value.id == 'self':
                    inputs.add(n.attr)
                    prop = parser.methods.get(n.attr)
                    if prop is not None and prop.is_property:
                        for x in iter_own_nodes(prop.node):
                            if isinstance(x, ast.Attribute) and isinstance(x.value, ast.Name) and x.value.id == 'self':
                                inputs.add(x.attr)
            inputs -= {flag, attr, attr.lstrip('_')}
            inputs = {i for i in inputs if i not in parser.methods or parser.methods[i].is_property}
            bad = []
            for w in list(parser.methods.values()) + list(parser.setters.values()):
                if w is m or w.name in ('__init__',):
                    continue
                stores = {n.attr for n in iter_own_nodes(w.node) if isinstance(n, ast.Attribute) and isinstance(n.ctx, ast.Store)
                          and isinstance(n.value, ast.Name) and n.value.id == 'self'}
                if not (stores & inputs):
                    continue
                clears = any(isinstance(n, ast.Assign) and any(ast.unparse(t) == f'self.{flag}' for t in n.targets)
                             and isinstance(n.value, ast.Constant) and not n.value.value for n in iter_own_nodes(w.node))
                if not clears:
                    bad.append(f'{w.qualname} (writes self.{", self.".join(sorted(stores & inputs))})')
            run.add('C16.idempotent', m.module.name, m.qualname, r, not bad,
                    f'memoised result guarded by self.{flag}, which every writer of the inputs clears' if not bad else
                    f'`{ast.unparse(r)}` returns the memoised result while self.{flag} is set, but {"; ".join(bad)} replaces the '
                    f'input without clearing self.{flag}: the next {m.name}() returns the contents of the previous document',
                    node=r)


def _cleared_before(mut: Mutations, m: FuncInfo, attr: str, grow_idx: int) -> Optional[Set[str]]:
    """Names of the sub-containers of self.<attr> on which .clear() is called by top-level statements before the first
    growth (directly, or in a loop over a tuple / list of them); None when nothing is cleared."""
    out: Set[str] = set()

    def base_is_attr(e: ast.expr) -> bool:
        rs = mut.roots(m, e)
        return bool(rs) and all(r[0] == 'self' and r[1][:1] == (attr,) for r in rs)

    for stmt in m.node.body[:grow_idx]:
        if isinstance(stmt, ast.Expr) and isinstance(stmt.value, ast.Call) and isinstance(stmt.value.func, ast.Attribute) and \
                stmt.value.func.attr == 'clear' and isinstance(stmt.value.func.value, ast.Attribute) and \
                base_is_attr(stmt.value.func.value.value):
            out.add(stmt.value.func.value.attr)
        if isinstance(stmt, ast.For) and isinstance(stmt.iter, (ast.Tuple, ast.List)) and isinstance(stmt.target, ast.Name) and \
                len(stmt.body) == 1 and isinstance(stmt.body[0], ast.Expr) and isinstance(stmt.body[0].value, ast.Call) and \
                ast.unparse(stmt.body[0].value) == f'{stmt.target.id}.clear()':
            for e in stmt.iter.elts:
                if isinstance(e, ast.Attribute) and base_is_attr(e.value):
                    out.add(e.attr)
    return out or None


def _contains(stmt: ast.AST, node: ast.AST) -> bool:
    return any(x is node for x in ast.walk(stmt))


def _is_fresh_reset(mut: Mutations, m: FuncInfo, stmt: ast.AST, attr: str) -> bool:
    if not isinstance(stmt, (ast.Assign, ast.AnnAssign)) or stmt.value is None:
        return False
    tgts = stmt.targets if isinstance(stmt, ast.Assign) else [stmt.target]
    for t in tgts:
        if isinstance(t, ast.Attribute) and isinstance(t.value, ast.Name) and t.value.id == 'self' and t.attr == attr:
            rs = mut.roots(m, stmt.value)
            return bool(rs) and all(r == FRESH for r in rs)
    return False


def _calls_resetter(ctx, mut: Mutations, parser: ClassInfo, m: FuncInfo, stmt: ast.AST, attr: str) -> bool:
    if not (isinstance(stmt, ast.Expr) and isinstance(stmt.value, ast.Call)):
        return False
    f = stmt.value.func
    if isinstance(f, ast.Attribute) and isinstance(f.value, ast.Name) and f.value.id == 'self':
        callee = ctx.prog.lookup_method(parser, f.attr)
        if callee is not None and callee is not m:
            return any(_is_fresh_reset(mut, callee, s, attr) for s in callee.node.body)
    return False


def _carried_state(ctx, mut: Mutations, parser: ClassInfo):
    """C16.carried: an instance attribute that a public method (transitively, through the parser's own methods and
    properties) both reads and REBINDS carries a value from one call into the next - also from a call that was left by an
    exception.  Sound shapes: the method re-initialises the attribute at its top level before the first read, or every
    rebinding sits in a `try` whose `finally` restores it.  Memo flags (only ever bound to True / False / None) are the
    business of the stale-return rule."""
    run = ctx.run
    methods = dict(parser.methods)
    direct: Dict[str, Tuple[Set[str], List[Tuple[str, ast.AST]], Set[str]]] = {}
    for name, m in methods.items():
        reads: Set[str] = set()
        writes: List[Tuple[str, ast.AST]] = []
        calls: Set[str] = set()
        for n in iter_own_nodes(m.node):
            if isinstance(n, ast.Attribute) and isinstance(n.value, ast.Name) and n.value.id == 'self':
                if n.attr in methods:
                    calls.add(n.attr)
                elif isinstance(n.ctx, (ast.Store, ast.Del)):
                    writes.append((n.attr, n))
                    if isinstance(ctx.prog.parent(n), ast.AugAssign):
                        reads.add(n.attr)
                else:
                    reads.add(n.attr)
        direct[name] = (reads, writes, calls)

    def closure(name: str) -> Set[str]:
        seen, work = set(), [name]
        while work:
            x = work.pop()
            if x in seen or x not in direct:
                continue
            seen.add(x)
            work.extend(direct[x][2])
        return seen

    def reads_of(node: ast.AST, attr: str) -> bool:
        for n in ast.walk(node):
            if isinstance(n, ast.Attribute) and isinstance(n.value, ast.Name) and n.value.id == 'self':
                if n.attr == attr and not isinstance(n.ctx, ast.Store):
                    return True
                if n.attr in methods and any(attr in direct[c][0] for c in closure(n.attr)):
                    return True
        return False

    n_obl = 0
    for name, m in sorted(methods.items()):
        if name.startswith('_') or m.is_property:
            continue
        cl = closure(name)
        rebinds = [(a, n, c) for c in cl if c != '__init__' for a, n in direct[c][1]]
        all_reads = set().union(*(direct[c][0] for c in cl)) if cl else set()
        for attr in sorted({a for a, _n, _c in rebinds}):
            if attr not in all_reads:
                continue
            sites = [(n, c) for a, n, c in rebinds if a == attr]
            vals = []
            for n, _c in sites:
                st = ctx.flow.enclosing_stmt(n)
                vals.append(getattr(st, 'value', None) if isinstance(st, (ast.Assign, ast.AnnAssign)) else None)
            if all(isinstance(v, ast.Constant) and (v.value is None or isinstance(v.value, bool)) for v in vals):
                continue        # memo flag: judged by the stale-return rule
            n_obl += 1
            body = m.node.body
            def early_return(st) -> bool:
                # `if <memo flag>: return <result>`: what such a return hands out is the stale-return rule's business
                return isinstance(st, ast.If) and not st.orelse and all(isinstance(x, ast.Return) for x in st.body[-1:])

            first_read = next((k for k, st in enumerate(body) if not early_return(st) and reads_of(st, attr)), None)
            reset = None

            def resets(st, holder: FuncInfo, depth: int = 0) -> bool:
                if isinstance(st, (ast.Assign, ast.AnnAssign)) and st.value is not None:
                    tg = st.targets if isinstance(st, ast.Assign) else [st.target]
                    return any(isinstance(t, ast.Attribute) and isinstance(t.value, ast.Name) and t.value.id == 'self'
                               and t.attr == attr for t in tg) and not reads_of(st.value, attr)
                if isinstance(st, ast.Expr) and isinstance(st.value, ast.Call) and isinstance(st.value.func, ast.Attribute) and \
                        isinstance(st.value.func.value, ast.Name) and st.value.func.value.id == 'self' and depth < 3:
                    helper = methods.get(st.value.func.attr)
                    if helper is not None and helper is not holder:
                        for hs in helper.node.body:
                            if resets(hs, helper, depth + 1):
                                return True
                            if reads_of(hs, attr):
                                return False
                return False

            for k, st in enumerate(body):
                if resets(st, m):
                    reset = k
                    break
            if reset is not None and (first_read is None or reset <= first_read):
                run.holds('C16.carried', m.module.name, m.qualname, f'{m.qualname} rebinds self.{attr}',
                          f'self.{attr} is re-initialised at the top of {name}() before it is read')
                continue
            # every rebinding restored by a finally clause?
            unrestored = []
            for n, c in sites:
                tr = ctx.flow.enclosing(n, (ast.Try,))
                restored = False
                while tr is not None and not restored:
                    restored = any(isinstance(x, ast.Attribute) and isinstance(x.ctx, ast.Store) and isinstance(x.value, ast.Name)
                                   and x.value.id == 'self' and x.attr == attr for f_ in tr.finalbody for x in ast.walk(f_))
                    tr = ctx.flow.enclosing(tr, (ast.Try,))
                if not restored:
                    unrestored.append((n, c))
            # an assignment inside a finalbody is itself the restoring one: keep only the rebinding ones
            unrestored = [(n, c) for n, c in unrestored if not _in_finalbody(ctx, n)]
            if not unrestored:
                run.holds('C16.carried', m.module.name, m.qualname, f'{m.qualname} rebinds self.{attr}',
                          f'every rebinding of self.{attr} is undone by a finally clause')
                continue
            n0, c0 = unrestored[0]
            run.violation('C16.carried', methods[c0].module.name, methods[c0].qualname, f'{m.qualname} rebinds self.{attr}',
                          f'self.{attr} is read by {name}() and rebound while it runs (`{ast.unparse(ctx.flow.enclosing_stmt(n0))[:80]}`), '
                          f'but {name}() does not re-initialise it before the first read and no finally clause restores it: '
                          f'a call that ends in an exception leaves its value behind for the next call', node=n0)
    run.stats['carried_state_obligations'] = n_obl
    if n_obl == 0:
        run.holds('C16.carried', parser.module.name, parser.name, 'rebound instance attributes',
                  'no public method of the parser rebinds an instance attribute that it also reads, apart from the result '
                  'it re-initialises and memo flags')


def _in_finalbody(ctx, n: ast.AST) -> bool:
    p = ctx.prog.parent(n)
    child = n
    while p is not None and not isinstance(p, (ast.FunctionDef, ast.AsyncFunctionDef)):
        if isinstance(p, ast.Try) and any(child is s for s in p.finalbody):
            return True
        child, p = p, ctx.prog.parent(p)
    return False
