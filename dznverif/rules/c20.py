"""C20 - C++ building blocks render matching declarations and definitions.

Decides (sibling agreement between as_decl and as_def of Function / Constructor / Destructor / Param, computed as
E4 templates over `self.*` holes): C20.same-entity, C20.decl-only, C20.def-only, C20.balanced, C20.validators.
"Any composition is accepted by a C++ compiler" quantifies over user-supplied strings and is not decided.
"""
from __future__ import annotations

import ast
import itertools
from typing import Any, Dict, List, Optional, Tuple

from ..model import strip_opt, ClassInfo, iter_own_nodes, FuncInfo
from ..template import Evaluator, TStr, Lit, Hole, AltS, RepS, FqnS, CommentS, OpaqueS, Cond, Sym, TRUE, FALSE
from ..cxxlex import lex, tok_text, toks_text
from ..flow import always_raises

MOD = 'dznpy.cpp_gen'
DECL_ONLY = {'prefix', 'explicit', 'override', 'initialization', 'default_value'}


def conds_of(s: TStr, acc: Optional[Dict[str, Cond]] = None) -> Dict[str, Cond]:
    acc = acc if acc is not None else {}
    for p in s.parts:
        if isinstance(p, AltS):
            acc.setdefault(repr(p.cond), p.cond)
            conds_of(p.a, acc)
            conds_of(p.b, acc)
        elif isinstance(p, RepS):
            conds_of(p.elem, acc)
            conds_of(p.sep, acc)
    return acc


def resolve(s: TStr, choice: Dict[str, bool]) -> TStr:
    out = TStr()
    for p in s.parts:
        if isinstance(p, AltS):
            val = _eval_choice(p.cond, choice)
            out = out + resolve(p.a if val else p.b, choice)
        elif isinstance(p, RepS):
            out = out + TStr([RepS(resolve(p.sep, choice), resolve(p.elem, choice), p.src)])
        else:
            out = out + TStr([p])
    return out


def _atom(c: Cond) -> Tuple[str, bool]:
    """(canonical atom key, polarity): `x != ''` / `x == ''` are truthiness of x; not_none is the negated is_none."""
    if c.op in ('ne', 'eq') and c.args[1] == '' and isinstance(c.args[0], Sym):
        return f'truthy({c.args[0]!r})', c.op == 'ne'
    if c.op == 'not_none':
        return f'is_none({c.args[0]!r})', False
    return repr(c), True


def atoms_of(c: Cond, acc: Optional[Dict[str, Cond]] = None) -> Dict[str, Cond]:
    acc = acc if acc is not None else {}
    if c.op in ('not', 'and', 'or'):
        for a in c.args:
            if isinstance(a, Cond):
                atoms_of(a, acc)
    elif c.op != 'const':
        acc.setdefault(_atom(c)[0], c)
    return acc


def _atom_key(c: Cond) -> str:
    return _atom(c)[0]


def _eval_choice(c: Cond, choice: Dict[str, bool]) -> bool:
    if c.op == 'const':
        return bool(c.args[0])
    if c.op == 'not':
        return not _eval_choice(c.args[0], choice)
    if c.op == 'and':
        return all(_eval_choice(a, choice) for a in c.args)
    if c.op == 'or':
        return any(_eval_choice(a, choice) for a in c.args)
    k, pol = _atom(c)
    return choice[k] == pol


def variants(s: TStr, limit: int = 512) -> List[Tuple[Dict[str, bool], TStr]]:
    atoms: Dict[str, Cond] = {}
    for c in conds_of(s).values():
        atoms_of(c, atoms)
    keys = sorted(atoms)
    out = []
    combos = list(itertools.product([False, True], repeat=len(keys)))[:limit]
    for bits in combos:
        ch = dict(zip(keys, bits))
        out.append((ch, resolve(s, ch)))
    return out


def variants_over(s: TStr, focus: Tuple[str, ...]) -> List[Tuple[Dict[str, bool], TStr]]:
    """All combinations of the conditions that mention one of the `focus` names; every other condition False."""
    atoms: Dict[str, Cond] = {}
    for c in conds_of(s).values():
        atoms_of(c, atoms)
    keys = sorted(atoms)
    fk = [k for k in keys if any(f in k for f in focus)]
    out = []
    for bits in itertools.product([False, True], repeat=len(fk)):
        ch = {k: False for k in keys}
        ch.update(zip(fk, bits))
        out.append((ch, resolve(s, ch)))
    return out


def hole_names(s: TStr, into_reps: bool = True) -> List[Tuple[str, Sym]]:
    out = []
    for p in s.parts:
        if isinstance(p, Hole):
            out.append((p.sym.path[-1] if p.sym.path else p.sym.root, p.sym))
            if len(p.sym.path) >= 2 and p.sym.path[-1] == 'value':
                out.append((p.sym.path[-2], p.sym))
        elif isinstance(p, RepS) and into_reps:
            out.extend(hole_names(p.elem))
        elif isinstance(p, AltS):
            out.extend(hole_names(p.a, into_reps))
            out.extend(hole_names(p.b, into_reps))
    return out


def reps_over(s: TStr, attr: str) -> List[RepS]:
    out = []
    for p in s.parts:
        if isinstance(p, RepS):
            if isinstance(p.src.base, Sym) and p.src.base.path[-1:] == (attr,):
                out.append(p)
            out.extend(reps_over(p.elem, attr))
        elif isinstance(p, AltS):
            out.extend(reps_over(p.a, attr))
            out.extend(reps_over(p.b, attr))
    return out


def check(ctx):
    run, prog = ctx.run, ctx.prog
    run.explanation = (
        'Decided on the E4 templates of cpp_gen (self.* holes, every combination of the boolean conditions enumerated): '
        'C20.same-entity - as_decl and as_def of Function / Constructor / Destructor name the same entity: same name '
        'hole, the parameter repetition over self.params with the same filter and order, each parameter as '
        '`<type> <name>` (declaration optionally with the default value), the same cv qualifier; C20.decl-only - '
        'virtual/static prefix, explicit, override, `= initialisation` and default values occur only in declarations; '
        'C20.def-only - definitions are qualified by the owning scope (constructor/destructor always) and as_def is '
        'empty whenever the declaration is initialised; C20.balanced - braces and parentheses are balanced in every '
        'variant of Struct/Class/Namespace/AccessSpecifiedSection rendering and of every definition, contents sit '
        'unmodified between the braces, struct/class close with `};`, the namespace closing comment repeats the same '
        'identifiers; C20.validators - the __post_init__ guards the statement relies on exist. Not decided: that any '
        'composition is accepted by a C++ compiler (user-supplied strings).')
    run.assume('TextBlock / indent are layout only (C17, C18)')
    run.trusted = ['python ast module', 'dznverif E4 template evaluator']
    ev = Evaluator(prog, ctx.cg, atomic_classes=('TypeDesc', 'Fqn', 'TemplateArg', 'NamespaceIds'))

    def tmpl(cls: ClassInfo, meth: str) -> Optional[TStr]:
        m = prog.lookup_method(cls, meth)
        if m is None:
            run.error('C20.same-entity', MOD, cls.name, meth, f'{cls.name}.{meth} vanished')
            return None
        # `self` is an instance of THIS class (the method may be inherited from a base that leaves hooks to its subclasses)
        r = ev.eval_entry(m, {'self': ev.param_sym('self', ('cls', cls.fq))} if m.params() and m.params()[0].arg == 'self' else None)
        if not isinstance(r, TStr):
            run.error('C20.same-entity', MOD, f'{cls.name}.{meth}', meth, f'not a text template: {r!r}'[:160])
            return None
        return r

    # ---- Param ---------------------------------------------------------------------------------------------------------
    par = prog.cls('cpp_gen', 'Param')
    pd, pf = tmpl(par, 'as_decl'), tmpl(par, 'as_def')
    if pd is not None and pf is not None:
        ftxt = repr(pf)
        ok_def = ftxt == '{self.type_desc} {self.name}'
        run.add('C20.same-entity', MOD, 'Param.as_def', ftxt, ok_def,
                'parameter definition is `<type> <name>`' if ok_def else f'parameter definition renders `{ftxt}`')
        ok_decl = all(repr(v).startswith(ftxt) and (repr(v) == ftxt or repr(v) == ftxt + ' = {self.type_desc.default_value}')
                      for _c, v in variants(pd))
        run.add('C20.same-entity', MOD, 'Param.as_decl', repr(pd)[:120], ok_decl,
                'parameter declaration = definition, optionally followed by the default value' if ok_decl else
                'parameter declaration is not the definition plus an optional default value')

    for cname in ('Function', 'Constructor', 'Destructor'):
        cls = prog.cls('cpp_gen', cname)
        del ev.opaque_log[:]
        d, f = tmpl(cls, 'as_decl'), tmpl(cls, 'as_def')
        if d is None or f is None:
            continue
        if ev.opaque_log:
            run.error('C20.same-entity', MOD, cname, 'template', f'unmodelled constructs: {sorted(set(ev.opaque_log))[:3]}')
            continue
        name_hole = 'name' if cname == 'Function' else '_name'
        # ---- C20.def-only: empty definition iff initialised -----------------------------------------------------------
        top = f.parts[0] if len(f.parts) == 1 and isinstance(f.parts[0], AltS) else None
        ok_init = top is not None and _atom_key(top.cond) == 'truthy(<self.initialization>)' and top.a.const() in ('', None) \
            and not top.a.parts
        run.add('C20.def-only', MOD, f'{cname}.as_def', 'no definition when initialised', ok_init,
                'as_def is empty whenever the declaration carries `= default/0/delete`' if ok_init else
                'as_def does not return the empty string exactly when `initialization` is set')
        dvars = variants(d)
        fvars = [(c, v) for c, v in variants(f) if not c.get('truthy(<self.initialization>)', False)]
        # ---- C20.same-entity ----------------------------------------------------------------------------------------------
        problems = []
        for c, v in fvars:
            names = [s for n, s in hole_names(v, into_reps=False) if n == name_hole]
            if not names:
                problems.append('a definition variant does not name the entity')
                break
        for c, v in dvars:
            if not [s for n, s in hole_names(v, into_reps=False) if n == name_hole]:
                problems.append('a declaration variant does not name the entity')
                break
        if cname != 'Destructor':
            dr, fr = reps_over(d, 'params'), reps_over(f, 'params')
            if not dr or not fr:
                problems.append('parameters are not rendered from self.params in both forms')
            else:
                def canon_filter(r):
                    # the name of the loop variable is irrelevant
                    return repr(r.src.filters).replace(f'<{r.src.var.text()}', '<_').replace(f'{{{r.src.var.text()}', '{_') + \
                        (f' order={r.src.order}' if r.src.order else '')
                dfil = {canon_filter(r) for r in dr}
                ffil = {canon_filter(r) for r in fr}
                if dfil != ffil or len(dfil) != 1:
                    problems.append(f'declaration takes the parameters as {sorted(dfil)}, the definition as {sorted(ffil)}')
                for r in dr + fr:
                    if r.sep.const() is None or r.sep.const().strip() != ',':
                        problems.append(f'parameters are separated by {r.sep!r}')
                for r in fr:
                    e = repr(r.elem)
                    v = r.src.var.text()
                    if e != f'{{{v}.type_desc}} {{{v}.name}}':
                        problems.append(f'definition parameter renders `{e}`')
                for r in dr:
                    v = r.src.var.text()
                    base = f'{{{v}.type_desc}} {{{v}.name}}'
                    for _c, ev_ in variants(r.elem):
                        if repr(ev_) not in (base, base + f' = {{{v}.type_desc.default_value}}'):
                            problems.append(f'declaration parameter renders `{ev_!r}`')
        if cname == 'Function':
            for label, t in (('declaration', d), ('definition', f)):
                for c, v in variants(t):
                    if label == 'definition' and c.get('truthy(<self.initialization>)', False):
                        continue
                    has = any(n == 'cav' for n, _s in hole_names(v, into_reps=False))
                    want = c.get('truthy(<self.cav>)', None)
                    if want is None:
                        problems.append(f'{label} does not render the cv qualifier')
                        break
                    if has != want:
                        problems.append(f'{label} renders the cv qualifier inconsistently')
                        break
            # return type in both
            for label, t in (('declaration', d), ('definition', f)):
                if not any(n == 'return_type' for n, _s in hole_names(t)):
                    problems.append(f'{label} does not render the return type')
        if cname == 'Function':
            # the declarator of a member function: `(params) <cv-qualifiers> <override> <= initialisation>;` in that order - a
            # virt-specifier in front of the cv-qualifier is ill-formed, and the cv-qualifier belongs to the function type that
            # the definition has to repeat
            for c, v in variants_over(d, ('self.cav>', 'self.override>', 'self.initialization>')):
                toks = lex(v)
                txt = [tok_text(x) for x in toks]
                depth_, close = 0, None
                for i_, t_ in enumerate(txt):
                    if t_ == '(':
                        depth_ += 1
                    elif t_ == ')':
                        depth_ -= 1
                        if depth_ == 0 and close is None:
                            close = i_
                # positions in the flat text (an identifier directly followed by a hole is one token for the lexer)
                flat = ' '.join(txt)
                close = flat.find(')', flat.find('self.params')) if 'self.params' in flat else (None if close is None else flat.find(')'))
                close = None if close is None or close < 0 else close
                i_cav = flat.find('self.cav}') if 'self.cav}' in flat else None
                i_ov = flat.find('override') if 'override' in flat else None
                i_eq = flat.find('=', close or 0) if close is not None and flat.find('=', close) >= 0 else None
                order = [x for x in (i_cav, i_ov, i_eq) if x is not None]
                if close is None or any(x < close for x in order) or order != sorted(order):
                    names_ = [n_ for n_, x in (('cv-qualifier', i_cav), ('override', i_ov), ('= initialisation', i_eq)) if x is not None]
                    got_ = [n_ for _x, n_ in sorted((x, n_) for n_, x in (('cv-qualifier', i_cav), ('override', i_ov), ('= initialisation', i_eq))
                                                    if x is not None)]
                    problems.append(f'the declaration renders its trailing parts as {got_} (after the parameter list they have to come as '
                                    f'{names_}): `{" ".join(txt)[:80]}`')
                    break
        run.add('C20.same-entity', MOD, cname, f'{cname}: as_decl / as_def', not problems,
                'declaration and definition denote the same entity (name, ordered parameters, cv)' if not problems else
                '; '.join(sorted(set(problems))))
        # ---- C20.decl-only ----------------------------------------------------------------------------------------------------
        leaked = {n for n, _s in hole_names(f) if n in DECL_ONLY}
        for _c, v in fvars:
            txt = [tok_text(x) for x in lex(v)]
            leaked |= {x for x in txt if x in ('override', 'explicit', 'virtual', 'static', 'final')}
            body = txt.index('{') if '{' in txt else len(txt)
            if '=' in txt[:body]:
                leaked.add('= <initialisation/default>')
        leaked = sorted(leaked)
        run.add('C20.decl-only', MOD, f'{cname}.as_def', f'declaration-only parts in the definition: {leaked}', not leaked,
                'prefix / explicit / override / initialisation / default values appear only in the declaration' if not leaked else
                f'the definition renders {leaked}, which belong to the declaration only')
        # ---- C20.def-only: scope qualification ---------------------------------------------------------------------------------
        bad = []
        # a constructor / destructor cannot exist without an owning struct or class when __post_init__ refuses anything else:
        # the renderings for "no scope" are then not renderings of any object
        post_ = prog.lookup_method(cls, '__post_init__')
        scope_required = cname != 'Function' and post_ is not None and any(
            isinstance(st_, ast.If) and any(isinstance(x_, ast.Raise) for x_ in st_.body) and 'self.scope' in ast.unparse(st_.test) and
            'isinstance' in ast.unparse(st_.test) for st_ in post_.node.body)
        for c, v in fvars:
            if scope_required and c.get('is_none(<self.scope>)') is True:
                continue
            toks = lex(v)
            txt = [tok_text(t) for t in toks]
            if cname == 'Function':
                scoped = (not c['is_none(<self.scope>)']) if 'is_none(<self.scope>)' in c else None
                has = any(txt[i] == '{self.scope._name}' and txt[i + 1] == '::' and txt[i + 2] == '{self.name}' for i in range(len(txt) - 2))
                if scoped is None or has != scoped:
                    bad.append('member function definition is not qualified by its scope exactly when a scope is set')
            elif cname == 'Constructor':
                if txt[:4] != ['{self.scope._name}', '::', '{self.scope._name}', '(']:
                    bad.append(f'constructor definition starts with `{" ".join(txt[:5])}`')
            else:
                if txt[:5] != ['{self.scope._name}', '::', '~', '{self.scope._name}', '(']:
                    bad.append(f'destructor definition starts with `{" ".join(txt[:6])}`')
        run.add('C20.def-only', MOD, f'{cname}.as_def', 'scope qualification', not bad,
                'the definition is qualified by its owning struct/class' if not bad else '; '.join(sorted(set(bad))))
        # ---- C20.balanced (definitions) -------------------------------------------------------------------------------------------
        _balanced(ctx, f'{cname}.as_def', f, require_contents=('contents',))
        _balanced(ctx, f'{cname}.as_decl', d, require_contents=())
    # ---- C20.balanced: containers ----------------------------------------------------------------------------------------------------
    # Struct / Class / Namespace are rendered from an object CONSTRUCTED by their own __init__ (symbolic arguments named after
    # the parameters): where the keyword, the name and the contents come from - an assignment in __init__, a class attribute,
    # a base class with hook methods - is the evaluator's business, the rule reads the rendered text only.
    def constructed(cls: ClassInfo) -> Optional[TStr]:
        init = prog.lookup_method(cls, '__init__')
        if init is None:
            return tmpl(cls, '__str__')
        args = [ev.param_sym(a.arg, prog.ann_to_type(init.module, a.annotation, init.cls)) for a in init.params()[1:]]
        del ev.opaque_log[:]
        obj = ev.construct(cls, args, {}, 1)
        r = ev.to_str(obj, 1)
        if ev.opaque_log or not isinstance(r, TStr):
            run.error('C20.balanced', MOD, f'{cls.name}.__str__', '__str__',
                      f'rendering of a constructed {cls.name} is not a text template: {sorted(set(ev.opaque_log))[:3]}')
            return None
        return r

    def init_params(cls: ClassInfo) -> List[str]:
        init = prog.lookup_method(cls, '__init__')
        return [a.arg for a in init.params()[1:]] if init is not None else []

    rendered: Dict[str, TStr] = {}
    for cname, closing in (('Struct', ['}', ';']), ('Class', ['}', ';']), ('Namespace', None), ('AccessSpecifiedSection', None)):
        cls = prog.cls('cpp_gen', cname)
        t = constructed(cls) if cname != 'AccessSpecifiedSection' else tmpl(cls, '__str__')
        if t is None:
            continue
        rendered[cname] = t
        pnames = init_params(cls)
        _balanced(ctx, f'{cname}.__str__', t, require_contents=('_contents', 'contents') + tuple(pnames[1:2]), closing=closing)
        if cname == 'Namespace' and len(pnames) >= 2:
            nsp, cop = pnames[0], pnames[1]
            for c, v in variants(t):
                fq = [p for p in v.parts if isinstance(p, FqnS)]
                named = c.get(f'truthy(<{nsp}.items>)', c.get('truthy(<self._ns_ids.items>)', False))
                multi = c.get(f'truthy(<{cop}>)', True) and c.get(f'truthy(<{cop}._lines>)', c.get('truthy(<self._contents._lines>)', False))
                want = (2 if multi else 1) if named else 0
                ok = len(fq) == want and len({repr(x) for x in fq}) <= 1
                raw = repr(v)
                tail_ok = (not multi) or ('// namespace' in raw.split('}')[-1])
                run.add('C20.balanced', MOD, 'Namespace.__str__', f'named={named} multiline={multi}', ok and tail_ok,
                        'opening and closing comment carry the same namespace identifiers' if ok and tail_ok else
                        'namespace opening / closing comment do not name the same identifiers')
    # ---- C20.named: struct/class keyword and name, type description, member variable ------------------------------------------------------
    ev2 = Evaluator(prog, ctx.cg, atomic_classes=('Fqn', 'TemplateArg', 'NamespaceIds'))
    for cname, kw in (('Struct', 'struct'), ('Class', 'class')):
        cls = prog.cls('cpp_gen', cname)
        t = rendered.get(cname)
        pn = (init_params(cls) or ['name'])[0]
        heads = [[tok_text(x) for x in lex(v)][:3] for _c, v in variants(t)] if t is not None else []
        heads_ok = bool(heads) and all(h == [kw, '{' + pn + '}', '{'] for h in heads)
        run.add('C20.named', MOD, f'{cname}', f'{cname}: opens with {heads[0] if heads else None}', heads_ok,
                f'a constructed {cname} renders `{kw} <name> {{`' if heads_ok else
                f'{cname} does not render `{kw} <name> {{` (a constructed {cname} opens with `{" ".join(heads[0]) if heads else "?"}`)')
    td2 = ev2.eval_entry(prog.lookup_method(prog.cls('cpp_gen', 'TypeDesc'), '__str__'))
    if isinstance(td2, TStr):
        probs = []
        for c, v in variants(td2):
            txt = repr(v)
            want = ('const ' if c.get('truthy(<self.const>)') else '') + '{self.fqn}' + \
                   ('{self.template_arg}' if c.get('truthy(<self.template_arg>)') else '') + '{self.postfix.value}'
            if txt != want:
                probs.append(f'renders `{txt}` where `{want}` is expected')
        run.add('C20.named', MOD, 'TypeDesc.__str__', repr(td2)[:100], not probs,
                'type = [const] fqn [<template>] postfix; the default value is not part of the type' if not probs else '; '.join(sorted(set(probs))[:2]))
    else:
        run.error('C20.named', MOD, 'TypeDesc.__str__', '__str__', f'not a text template: {td2!r}'[:120])
    mv = tmpl(prog.cls('cpp_gen', 'MemberVariable'), '__str__')
    if mv is not None:
        okmv = repr(mv) == '{self.type} {self.name};'
        run.add('C20.named', MOD, 'MemberVariable.__str__', repr(mv)[:80], okmv,
                'member variable = `<type> <name>;`' if okmv else f'member variable renders `{mv!r}`')
    ta = ev2.eval_entry(prog.lookup_method(prog.cls('cpp_gen', 'TemplateArg'), '__str__'))
    okta = repr(ta) == '<{self.fqn}>'
    run.add('C20.named', MOD, 'TemplateArg.__str__', repr(ta)[:80], okta,
            'template argument = `<fqn>`' if okta else f'template argument renders `{ta!r}`')
    run.floor('C20.named', 5)
    # ---- C20.pure-render: rendering a building block twice (declaration, then definition) gives the same text ------------------
    from ..mutation import Mutations
    mut = Mutations(prog, ctx.cg)
    mut.solve()
    n_r = 0
    for cls in prog.modules['dznpy.cpp_gen'].classes.values():
        for mname in ('__str__', 'as_decl', 'as_def'):
            m = cls.methods.get(mname) or (prog.lookup_method(cls, mname) if not cls.name.startswith('_') else None)
            if m is None or mname == '__str__' and any(isinstance(x, ast.Raise) for x in m.node.body[:1]):
                continue
            n_r += 1
            touched = dict(mut.mut_self.get(m.fq) or {})
            # an inherited render method that leaves the text to hook methods of this class: the hooks belong to the rendering
            for x in iter_own_nodes(m.node):
                if isinstance(x, ast.Call) and isinstance(x.func, ast.Attribute) and isinstance(x.func.value, ast.Name) and \
                        x.func.value.id == 'self':
                    h_ = prog.lookup_method(cls, x.func.attr)
                    if h_ is not None and h_ is not m:
                        touched.update(mut.mut_self.get(h_.fq) or {})
            run.add('C20.pure-render', MOD, f'{cls.name}.{mname}', f'{cls.name}.{mname}: mutation of self', not touched,
                    'rendering does not modify the building block' if not touched else
                    'rendering modifies the building block (' + '; '.join(sorted({' <- '.join(e.chain()[:2]) for e in touched.values()}))[:260]
                    + '): the declaration rendered first and the definition rendered afterwards no longer denote the same entity',
                    nontrivial=False)
    if n_r < 15:
        run.error('C20.pure-render', MOD, '-', 'render functions', f'only {n_r} render functions of cpp_gen found (15+ expected)')
    # ---- C20.validators ------------------------------------------------------------------------------------------------------------------
    _validators(ctx)
    _whole_block(ctx)
    run.floor('C20.same-entity', 5)
    run.floor('C20.decl-only', 3)
    run.floor('C20.def-only', 6)
    run.floor('C20.balanced', 12)


def _headerless_block(ctx, fn: FuncInfo, e: ast.expr, depth: int = 0) -> bool:
    """`e` is a text block that was constructed without a header on every path: `TextBlock(x)` / `TB(x)` (also after
    `.indent()` / `.trim()`), a local bound once to such a construction, or the call of a package function all of whose returns
    are that."""
    prog, cg = ctx.prog, ctx.cg
    if depth > 3:
        return False
    while isinstance(e, ast.Call) and isinstance(e.func, ast.Attribute) and e.func.attr in ('indent', 'trim', 'set_indentor'):
        e = e.func.value
    if isinstance(e, ast.Name):
        d = cg.env(fn).single_def(e.id)
        return d is not None and _headerless_block(ctx, fn, d, depth + 1)
    if not isinstance(e, ast.Call):
        return False
    tb = prog.cls('text_gen', 'TextBlock')
    sym = prog.resolve_expr_symbol(fn.module, e.func) if isinstance(e.func, (ast.Name, ast.Attribute)) else None
    if sym is tb or (isinstance(sym, tuple) and sym[0] == 'const' and isinstance(sym[1], ast.Name) and sym[1].id == 'TextBlock'):
        return len(e.args) <= 1 and not any(k.arg == 'header' or k.arg is None for k in e.keywords)
    callees = [g for g in cg.env(fn).resolve_call(e) if isinstance(g, FuncInfo)]
    if len(callees) != 1 or len(cg.env(fn).resolve_call(e)) != 1:
        return False
    g = callees[0]
    rets = [r.value for r in iter_own_nodes(g.node) if isinstance(r, ast.Return)]
    return bool(rets) and all(r is not None and _headerless_block(ctx, g, r, depth + 1) for r in rets)


def _whole_block(ctx):
    """C20.whole-block: a building block embeds the text blocks it was given as blocks.  Reading `<TextBlock>.lines` for
    anything but an emptiness test takes the content lines only - the header of the block (TextBlock(content, header=...))
    and its pending indentation are left behind."""
    run, prog, cg = ctx.run, ctx.prog, ctx.cg
    tb = prog.cls('text_gen', 'TextBlock')
    n_tests = 0
    for fn in prog.all_functions():
        if not fn.module.name.startswith(('dznpy.cpp_gen', 'dznpy.adv_shell', 'dznpy.support_files')):
            continue
        env = cg.env(fn)
        for n in iter_own_nodes(fn.node):
            if not (isinstance(n, ast.Attribute) and n.attr in ('lines', '_lines') and isinstance(n.ctx, ast.Load)):
                continue
            t = strip_opt(env.type_of(n.value))
            ts = t[1] if t[0] == 'union' else [t]
            if not any(strip_opt(x) == ('cls', tb.fq) for x in ts):
                continue
            # test position?
            child, p, is_test = n, prog.parent(n), False
            while p is not None and not isinstance(p, ast.stmt):
                if (isinstance(p, ast.IfExp) and child is p.test) or isinstance(p, (ast.BoolOp, ast.Compare)) or \
                        (isinstance(p, ast.UnaryOp) and isinstance(p.op, ast.Not)) or \
                        (isinstance(p, ast.Call) and getattr(p.func, 'id', '') in ('len', 'bool', 'any', 'all')):
                    is_test = True
                    break
                child, p = p, prog.parent(p)
            if isinstance(p, (ast.If, ast.While, ast.Assert)) and child is p.test:
                is_test = True
            n_tests += 1
            one = prog.parent(n)
            if isinstance(one, ast.Subscript) and one.value is n and not isinstance(one.slice, ast.Slice) and isinstance(one.ctx, ast.Load):
                # one line is looked at (a title, a name): nothing is embedded in place of the block
                run.add('C20.whole-block', fn.module.name, fn.qualname, n, True, f'`{ast.unparse(one)}` reads a single line of the block')
                continue
            if not is_test and _headerless_block(ctx, fn, n.value):
                run.add('C20.whole-block', fn.module.name, fn.qualname, n, True,
                        f'`{ast.unparse(n)[:60]}`: the block is built right there (by a function of the package) without a header - its lines '
                        f'are all of it')
                continue
            run.add('C20.whole-block', fn.module.name, fn.qualname, n, is_test,
                    f'`{ast.unparse(n)}` is only tested for emptiness' if is_test else
                    f'`{ast.unparse(n)}` takes the content lines out of a text block: a header given to that block '
                    f'(TextBlock(content, header=...)) is not rendered - the block has to be embedded as a whole', node=n)
    run.floor('C20.whole-block', 2)


def _balanced(ctx, where: str, t: TStr, require_contents: Tuple[str, ...], closing: Optional[List[str]] = None):
    run = ctx.run
    problems = []
    n = 0
    for c, v in variants(t):
        n += 1
        toks = lex(v)
        txt = [tok_text(x) for x in toks]
        for o, cl in (('{', '}'), ('(', ')')):
            depth = 0
            for x in txt:
                if x == o:
                    depth += 1
                elif x == cl:
                    depth -= 1
                    if depth < 0:
                        break
            if depth != 0:
                problems.append(f'unbalanced `{o}{cl}` in variant {sorted(k for k, b in c.items() if b)}')
        if require_contents and txt:
            # when contents are rendered they sit between the outermost braces
            idx = [i for i, x in enumerate(toks) if x[0] == 'hole' and x[1].sym.path[-1:] and x[1].sym.path[-1] in require_contents]
            for i in idx:
                before = txt[:i]
                if before.count('{') - before.count('}') < 1 and '{' in txt:
                    problems.append('contents are rendered outside the braces')
        if closing and txt and txt[-len(closing):] != closing:
            problems.append(f'does not end with `{" ".join(closing)}` (ends with `{" ".join(txt[-3:])}`)')
    run.add('C20.balanced', MOD, where, f'{n} variants', not problems,
            f'balanced in all {n} variants' if not problems else '; '.join(sorted(set(problems))[:3]))


def _validators(ctx):
    run, prog = ctx.run, ctx.prog
    wants = [
        ('Constructor', lambda t: 'self.initialization' in t and 'self.member_initlist' in t,
         'an initialised constructor (= default/delete) with a member-init list is rejected'),
        ('Constructor', lambda t: 'isinstance(self.scope' in t, 'a constructor needs a struct/class scope'),
        ('Destructor', lambda t: 'isinstance(self.scope' in t, 'a destructor needs a struct/class scope'),
        ('Function', lambda t: 'self.name' in t and t.startswith('not'), 'a function needs a name'),
        ('Function', lambda t: "startswith('0')" in t and 'VIRTUAL' in t, '`= 0` requires the virtual prefix'),
        ('Function', lambda t: 'VIRTUAL' in t and 'self.scope is None' in t, 'a virtual function needs a scope'),
    ]
    for cname, pred, what in wants:
        cls = prog.cls('cpp_gen', cname)
        post = cls.methods.get('__post_init__')
        hit = None
        if post is not None:
            for s in post.node.body:
                if isinstance(s, ast.If) and always_raises(s.body) and pred(ast.unparse(s.test)):
                    r = next(x for x in ast.walk(s) if isinstance(x, ast.Raise))
                    if 'CppGenError' in ast.unparse(r.exc):
                        hit = s
        run.add('C20.validators', MOD, f'{cname}.__post_init__', hit if hit is not None else what, hit is not None,
                what if hit is not None else f'missing validation: {what}')
    run.floor('C20.validators', 6)
