"""C12 - building never alters its inputs and is independent of earlier builds.

Decides: C12.inputs (every mutation reachable from Builder.build / create_header hits an object
allocated by the build, never (part of) the configuration or the parsed model), C12.pure-render
(rendering functions do not mutate their receiver), C12.alias (text buffers never alias caller
data), C12.global (no module/class level mutable state), C12.builder (Builder keeps only _recipe,
assigned before it is read), C12.support (support files are the unmodified results of the six
stand-alone create_header calls with the same prefix).
"""
from __future__ import annotations

import ast
from typing import Dict, List, Optional, Set

from ..model import FuncInfo, ClassInfo, strip_opt, iter_own_nodes
from ..mutation import Mutations, FRESH, is_fresh
from .shared import entry_points_build, module_state_instances, SUPPORT_MODULES


def input_types(ctx) -> Set[str]:
    """Classes reachable through field annotations from Configuration (the build input): discovered, not
    listed."""
    prog = ctx.prog
    start = prog.cls('adv_shell.common', 'Configuration')
    seen: Set[str] = set()
    stack = [start]

    def types_in(t):
        t = strip_opt(t)
        if t[0] == 'cls':
            yield t[1]
        elif t[0] in ('list', 'set'):
            yield from types_in(t[1])
        elif t[0] == 'dict':
            yield from types_in(t[1])
            yield from types_in(t[2])
        elif t[0] in ('union', 'tuple'):
            for x in t[1]:
                yield from types_in(x)

    while stack:
        c = stack.pop()
        if c.fq in seen:
            continue
        seen.add(c.fq)
        for name, (ann, _d, owner) in prog.class_fields(c).items():
            for fq in types_in(prog.ann_to_type(owner.module, ann, owner)):
                if fq in prog.classes and fq not in seen:
                    stack.append(prog.classes[fq])
    # Types.elements is List[Any] holding Enum/SubInt; FileContents reaches them anyway.
    return seen


def check(ctx):
    run, prog, cg = ctx.run, ctx.prog, ctx.cg
    run.explanation = (
        'Decided: C12.inputs - ownership analysis (receiver roots by copy propagation, mutates-self / '
        'mutates-parameter / returns-alias summaries to a fixpoint) over every mutation site reachable from '
        'Builder.build and the six create_header: no mutation of (a part of) the configuration or the parsed '
        'model, no mutation of an object of unknown provenance whose static type is an input type; '
        'C12.pure-render, C12.alias, C12.global, C12.builder, C12.support as structural rules. Not decided: '
        'byte equality of outputs across processes (follows from these rules plus C08 only under the '
        'determinism assumption).')
    run.assume('Python evaluation is deterministic in the absence of shared mutable state and order taint (C08)')
    run.assume('strings, ints, enums and frozen-dataclass field rebinding are immutable (language semantics)')
    run.trusted = ['python ast module', 'dznverif E1 program model', 'dznverif E3c ownership analysis']

    entries = entry_points_build(ctx)
    reach = cg.reachable(entries)
    reach_fq = {f.fq for f in reach}
    entry_fq = {f.fq for f in entries}
    in_types = input_types(ctx)
    run.stats['input_types'] = sorted(t.split('.')[-1] for t in in_types)
    run.stats['reachable_functions'] = len(reach)
    if len(in_types) < 25:
        run.error('C12.inputs', '-', '-', 'input type closure', f'only {len(in_types)} input types discovered')

    mut = Mutations(prog, cg)
    iters = mut.solve()
    run.stats['ownership_fixpoint_iterations'] = iters
    run.stats['mutates_self_summaries'] = sorted(mut.mut_self)
    run.stats['mutates_param_summaries'] = sorted(f'{k}({",".join(v)})' for k, v in mut.mut_param.items())

    def type_is_input(t) -> Optional[str]:
        t = strip_opt(t)
        ts = t[1] if t[0] == 'union' else [t]
        for x in ts:
            x = strip_opt(x)
            if x[0] == 'cls' and x[1] in in_types:
                return x[1]
        return None

    n_sites = 0
    by_root: Dict[str, int] = {}
    for fn in reach:
        for ev in mut.events.get(fn.fq, []):
            n_sites += 1
            is_ctor = fn.name in ('__init__', '__post_init__')
            prefix_types = mut.static_prefix_types(fn, ev.receiver)
            input_prefix = next(((txt, type_is_input(t)) for txt, t in prefix_types if type_is_input(t)), None)
            verdicts = []
            for r in ev.roots:
                by_root[r[0]] = by_root.get(r[0], 0) + 1
                if is_fresh(r):
                    verdicts.append((True, 'receiver allocated in this function'))
                elif r[0] == 'global':
                    verdicts.append((False, f'mutates module-level object {r[1]}'))
                elif r[0] == 'param':
                    if fn.fq in entry_fq:
                        verdicts.append((False, f'mutates (part of) entry-point parameter `{r[1]}` '
                                                f'(path {".".join(r[2])})'))
                    else:
                        verdicts.append((True, f'mutates parameter `{r[1]}`: judged at the call sites '
                                               f'(summary propagated)'))
                elif r[0] == 'self':
                    if is_ctor:
                        verdicts.append((True, 'initialises the object under construction'))
                    elif fn.fq in entry_fq:
                        # Builder.build: only _recipe and what hangs below it (build-local)
                        own_state = {t.attr for st_ in fn.node.body if isinstance(st_, (ast.Assign, ast.AnnAssign))
                                     for t in (st_.targets if isinstance(st_, ast.Assign) else [st_.target])
                                     if isinstance(t, ast.Attribute) and isinstance(t.value, ast.Name) and t.value.id == 'self'}
                        if r[1] and (r[1][0] == '_recipe' or r[1][0] in own_state):
                            verdicts.append((True, f'Builder state {r[1][0]}, (re)assigned by every build (see C12.builder)'))
                        else:
                            verdicts.append((False, f'entry point mutates its receiver at {".".join(r[1])}'))
                    else:
                        # part of self that is an input object?
                        cls_is_input = fn.cls is not None and fn.cls.fq in in_types
                        verdicts.append((True, 'mutates its receiver: judged at the call sites'
                                               + (' (receiver class is an input type; every call site must own '
                                                  'the receiver)' if cls_is_input else '')))
                else:   # elem / unknown provenance
                    if input_prefix:
                        verdicts.append((False, f'object of unknown provenance with input type '
                                                f'{input_prefix[1].split(".")[-1]} (`{input_prefix[0]}`) is mutated'))
                    else:
                        verdicts.append((True, f'object of unknown provenance ({r[1]}) but not of an input type'))
            # a receiver chain through an input-typed prefix whose root is a parameter of a non-entry function is
            # judged here as well: input-typed objects are never owned by helper functions
            if input_prefix and not is_ctor:
                for r in ev.roots:
                    if r[0] == 'param' and fn.fq not in entry_fq:
                        verdicts.append((False, f'(part of) parameter `{r[1]}` of input type '
                                                f'{input_prefix[1].split(".")[-1]} is mutated in place'))
                    if r[0] == 'self' and fn.cls is not None and fn.cls.fq not in in_types and len(r[1]) > 1:
                        # e.g. self._recipe.configuration.ports_cfg....
                        verdicts.append((False, f'input-typed object `{input_prefix[0]}` reachable from self is '
                                                f'mutated'))
            bad = [m for ok, m in verdicts if not ok]
            if bad:
                run.violation('C12.inputs', fn.module.name, fn.qualname, ev.node,
                              f'{ev.how} on `{ast.unparse(ev.receiver)[:80]}`: ' + '; '.join(bad)
                              + ((' | via ' + ' <- '.join(ev.chain()[1:])) if ev.via else ''), node=ev.node,
                              roots=[str(r) for r in ev.roots])
            else:
                run.holds('C12.inputs', fn.module.name, fn.qualname, ev.node,
                          f'{ev.how} on `{ast.unparse(ev.receiver)[:60]}`: ' + '; '.join(sorted({m for _, m in verdicts})),
                          node=ev.node)
    run.stats['mutation_sites_reachable'] = n_sites
    run.stats['receiver_roots_by_kind'] = by_root
    run.floor('C12.inputs', 40)

    # entry-point parameter summaries (the decisive fact, stated explicitly)
    for fn in entries:
        mp = mut.mut_param.get(fn.fq, {})
        for a in fn.params():
            if a.arg in ('self', 'cls'):
                continue
            if a.arg in mp:
                ev = mp[a.arg]
                run.violation('C12.inputs', fn.module.name, fn.qualname, f'{fn.qualname}({a.arg})',
                              f'the entry point may mutate its input `{a.arg}`: ' + ' <- '.join(ev.chain()),
                              node=ev.node)
            else:
                run.holds('C12.inputs', fn.module.name, fn.qualname, f'{fn.qualname}({a.arg})',
                          f'no mutation of (anything reachable from) `{a.arg}` in {len(reach)} reachable functions')

    # ---- C12.pure-render: __str__/__repr__/as_decl/as_def/property getters do not mutate self -----------
    n_render = 0
    for fn in reach:
        if fn.cls is None or fn.is_setter:
            continue
        if fn.name in ('__str__', '__repr__') or fn.is_property:
            n_render += 1
            ms = mut.mut_self.get(fn.fq, {})
            if ms:
                path, ev = next(iter(ms.items()))
                run.violation('C12.pure-render', fn.module.name, fn.qualname, ev.node,
                              f'rendering function mutates its receiver at {".".join(path)}: '
                              + ' <- '.join(ev.chain()), node=ev.node)
            else:
                run.holds('C12.pure-render', fn.module.name, fn.qualname, fn.qualname,
                          'no mutation of self (works on fresh copies only)')
    run.floor('C12.pure-render', 30)

    # ---- C12.alias: list buffers of the text layer never alias caller data --------------------------
    tb = prog.cls('text_gen', 'TextBlock')
    n_alias = 0
    for m in list(tb.methods.values()) + list(tb.setters.values()):
        for n in iter_own_nodes(m.node):
            if isinstance(n, ast.Assign):
                for t in n.targets:
                    if isinstance(t, ast.Attribute) and isinstance(t.value, ast.Name) and t.value.id == 'self':
                        tt = strip_opt(prog.field_type(tb, t.attr) or ('any',))
                        if tt[0] != 'list':
                            continue
                        n_alias += 1
                        rs = mut.roots(m, n.value)
                        alias = [r for r in rs if r[0] == 'param' or (is_fresh(r) and False)]
                        if alias:
                            run.violation('C12.alias', m.module.name, m.qualname, n,
                                          f'buffer {t.attr} aliases caller data {alias} (no copy)', node=n)
                        else:
                            run.holds('C12.alias', m.module.name, m.qualname, n,
                                      f'buffer {t.attr} is assigned a fresh list', node=n)
    # TextBlock.__add__ returns a fresh block
    add = tb.methods.get('__add__')
    if add is not None:
        rs = mut.returns.get(add.fq, set())
        bad = [r for r in rs if not is_fresh(r)]
        run.add('C12.alias', add.module.name, add.qualname, '__add__ return', not bad,
                'returns a new block' if not bad else f'returns an alias {bad}')
    run.floor('C12.alias', 4)

    # ---- C12.global -------------------------------------------------------------------------------------
    for inst in module_state_instances(ctx):
        run.add('C12.global', *inst)
    # the overridable module constant is read through its accessor and never written by the package
    for fn in prog.all_functions():
        for n in iter_own_nodes(fn.node):
            if isinstance(n, ast.Name) and n.id == 'DEFAULT_INDENT_NR_SPACES' and isinstance(n.ctx, ast.Store):
                run.violation('C12.global', fn.module.name, fn.qualname, ctx.flow.enclosing_stmt(n),
                              'package code rebinds DEFAULT_INDENT_NR_SPACES', node=n)
    run.floor('C12.global', 10)

    # ---- C12.builder --------------------------------------------------------------------------------------
    _builder_rule(ctx)

    # ---- C12.support --------------------------------------------------------------------------------------
    _support_rule(ctx, mut)


def _builder_rule(ctx):
    run, prog = ctx.run, ctx.prog
    b = prog.cls('adv_shell', 'Builder')
    build = b.methods.get('build')
    if build is None:
        run.error('C12.builder', b.module.name, 'Builder', 'build', 'Builder.build vanished')
        return
    stores = []
    for m in b.methods.values():
        for n in iter_own_nodes(m.node):
            if isinstance(n, ast.Attribute) and isinstance(n.value, ast.Name) and n.value.id == 'self' \
                    and isinstance(n.ctx, (ast.Store, ast.Del)):
                stores.append((m, n))
    for m, n in stores:
        stmt = ctx.flow.enclosing_stmt(n)
        plain = isinstance(stmt, (ast.Assign, ast.AnnAssign))
        ok = plain and m is build and ctx.prog.parent(stmt) is build.node
        run.add('C12.builder', m.module.name, m.qualname, stmt, ok,
                'Builder state is (re)assigned unconditionally by a plain assignment in build()' if ok else
                'Builder state is accumulated / written outside build() or conditionally: a later build can '
                'observe an earlier one', node=stmt)
    # every read of self.<attr> in methods reachable from build is dominated by the store in build
    stored = {n.attr for m, n in stores if m is build}
    body = build.node.body
    store_idx = {n.attr: body.index(ctx.flow.enclosing_stmt(n)) for m, n in stores
                 if m is build and ctx.flow.enclosing_stmt(n) in body}
    for m in b.methods.values():
        for n in iter_own_nodes(m.node):
            if isinstance(n, ast.Attribute) and isinstance(n.value, ast.Name) and n.value.id == 'self' \
                    and isinstance(n.ctx, ast.Load) and prog.lookup_method(b, n.attr) is None:
                if n.attr not in stored:
                    run.violation('C12.builder', m.module.name, m.qualname, n,
                                  f'reads Builder state self.{n.attr} that build() never assigns', node=n)
                    continue
                if m is build:
                    st = ctx.flow.enclosing_stmt(n)
                    top = st
                    while prog.parent(top) is not build.node:
                        top = prog.parent(top)
                    ok = body.index(top) > store_idx.get(n.attr, 10 ** 6)
                else:
                    # helper method: all its call sites in build come after the store
                    ok = True
                    for k, stmt in enumerate(body):
                        for c in ast.walk(stmt):
                            if isinstance(c, ast.Call) and isinstance(c.func, ast.Attribute) and \
                                    isinstance(c.func.value, ast.Name) and c.func.value.id == 'self' and \
                                    c.func.attr in _callers_closure(b, m.name):
                                if k <= store_idx.get(n.attr, 10 ** 6):
                                    ok = False
                run.add('C12.builder', m.module.name, m.qualname, n, ok,
                        f'read of self.{n.attr} is preceded by its assignment in build()' if ok else
                        f'self.{n.attr} may be read before build() assigned it (stale recipe of an earlier build)',
                        node=n)
    if not stores and not any(isinstance(n, ast.Attribute) and isinstance(n.value, ast.Name) and n.value.id == 'self' and
                              isinstance(n.ctx, ast.Load) and prog.lookup_method(b, n.attr) is None
                              for m in b.methods.values() for n in iter_own_nodes(m.node)):
        run.holds('C12.builder', b.module.name, 'Builder', 'instance state', 'the Builder keeps no instance state at all')
        return
    run.floor('C12.builder', 4)


def _callers_closure(b: ClassInfo, name: str) -> Set[str]:
    """Method names of Builder through which `name` can be reached by self-calls (incl. itself)."""
    out = {name}
    changed = True
    while changed:
        changed = False
        for m in b.methods.values():
            if m.name in out:
                continue
            for c in ast.walk(m.node):
                if isinstance(c, ast.Call) and isinstance(c.func, ast.Attribute) and isinstance(c.func.value, ast.Name) \
                        and c.func.value.id == 'self' and c.func.attr in out:
                    out.add(m.name)
                    changed = True
                    break
    out.discard('build')
    return out


def _support_rule(ctx, mut: Mutations):
    run, prog = ctx.run, ctx.prog
    build = prog.func('adv_shell', 'Builder.build')
    # the function on the way from build() that puts the SupportFiles together (build itself, or a helper it delegates to)
    sf_cls = prog.cls('adv_shell.common', 'SupportFiles')
    site_fns = [f_ for f_ in [build] + list(ctx.cg.reachable([build]))
                if any(isinstance(n_, ast.Call) and isinstance(n_.func, (ast.Name, ast.Attribute)) and
                       prog.resolve_expr_symbol(f_.module, n_.func) is sf_cls for n_ in iter_own_nodes(f_.node))]
    entry_build = build
    if site_fns and build not in site_fns:
        build = site_fns[0]
    env = ctx.cg.env(build)
    calls = []
    for n in iter_own_nodes(build.node):
        if isinstance(n, ast.Call):
            for c in env.resolve_call(n):
                if isinstance(c, FuncInfo) and c.name == 'create_header' and c.module.name.startswith('dznpy.support_files.'):
                    calls.append((n, c))
    mods = [c.module.name.split('.')[-1] for _n, c in calls]
    ok = sorted(mods) == sorted(SUPPORT_MODULES) and len(set(mods)) == 6
    run.add('C12.support', build.module.name, build.qualname, 'create_header call set', ok,
            f'build() calls create_header of exactly the six support modules once each: {sorted(mods)}' if ok else
            f'build() calls create_header of {sorted(mods)}; expected each of {sorted(SUPPORT_MODULES)} once')

    # same argument everywhere, derived from cfg.support_files_ns_prefix
    def resolve_arg(e):
        seen = 0
        while isinstance(e, ast.Name) and seen < 5:
            defs = mut._defs[build.fq].get(e.id, [])
            if len(defs) != 1 or defs[0][0] != 'expr':
                break
            e = defs[0][1]
            seen += 1
        return e

    for n, c in calls:
        arg = n.args[0] if n.args else next((k.value for k in n.keywords if k.arg == 'ns_prefix'), None)
        a = resolve_arg(arg) if arg is not None else None

        def is_cfg_prefix(x) -> bool:
            return isinstance(x, ast.Attribute) and x.attr == 'support_files_ns_prefix' and isinstance(x.value, ast.Name) and \
                x.value.id == 'cfg'
        ok = a is not None and is_cfg_prefix(a)
        if not ok and isinstance(a, ast.Name) and a.id in [p_.arg for p_ in build.params()] and a.id not in env._assign_sites:
            # the helper is handed the prefix: every call of it passes cfg.support_files_ns_prefix
            sites_ = [(c_, n_) for c_, n_, _k in ctx.cg.callers(build) if isinstance(n_, ast.Call)]
            ok = bool(sites_) and all(is_cfg_prefix(prog.bind_call(c_.module, n_, build).get(a.id)) for c_, n_ in sites_)
        run.add('C12.support', build.module.name, build.qualname, n, ok,
                'prefix argument is cfg.support_files_ns_prefix' if ok else
                f'prefix argument is `{ast.unparse(arg) if arg is not None else "<default>"}`, not the configured '
                f'support_files_ns_prefix: the file differs from the stand-alone one', node=n)
        # result flows unmodified into the SupportFiles constructor
        p = prog.parent(n)
        into_ctor = isinstance(p, ast.keyword) or isinstance(p, ast.Call)
        ctor = prog.parent(p) if isinstance(p, ast.keyword) else p
        is_sf = False
        if isinstance(ctor, ast.Call):
            sym = prog.resolve_expr_symbol(build.module, ctor.func)
            is_sf = isinstance(sym, ClassInfo) and sym.name == 'SupportFiles'
        if into_ctor and is_sf:
            run.holds('C12.support', build.module.name, build.qualname, n,
                      'result handed directly to SupportFiles(...)', node=n, nontrivial=False)
        else:
            # allow a local variable that is only read
            tgt = p.targets[0].id if isinstance(p, ast.Assign) and isinstance(p.targets[0], ast.Name) else None
            if tgt and not any(ev for ev in mut.events.get(build.fq, []) if isinstance(ev.receiver, ast.Name)
                               and ev.receiver.id == tgt):
                run.holds('C12.support', build.module.name, build.qualname, n,
                          f'result bound to `{tgt}` which is never mutated', node=n)
            else:
                run.violation('C12.support', build.module.name, build.qualname, n,
                              'create_header result does not flow unmodified into SupportFiles', node=n)
    # GeneratedContent is frozen and as_list returns every field (shared with C13.complete / C06.closure)
    gc = prog.cls('text_gen', 'GeneratedContent')
    run.add('C12.support', gc.module.name, gc.name, 'GeneratedContent frozen', gc.is_dataclass and gc.frozen,
            'GeneratedContent is a frozen dataclass' if gc.frozen else 'GeneratedContent is not frozen: contents of '
            'a support file can be altered after generation')
    sf = prog.cls('adv_shell.common', 'SupportFiles')
    as_list = sf.methods.get('as_list')
    fields = list(prog.class_fields(sf).keys())
    listed = []
    if as_list is not None:
        for n in iter_own_nodes(as_list.node):
            if isinstance(n, ast.Return) and isinstance(n.value, ast.List):
                listed = [e.attr for e in n.value.elts if isinstance(e, ast.Attribute)
                          and isinstance(e.value, ast.Name) and e.value.id == 'self']
    ok = sorted(listed) == sorted(fields) and len(fields) == 6
    run.add('C12.support', sf.module.name, 'SupportFiles.as_list', 'as_list field set', ok,
            f'as_list returns all {len(fields)} fields once' if ok else
            f'as_list returns {listed}, fields are {fields}')
    # create_header depends only on its parameter: no reads of names other than locals/params/imports/constants
    for n, c in calls:
        frees = []
        for x in iter_own_nodes(c.node):
            if isinstance(x, ast.Name) and isinstance(x.ctx, ast.Load):
                env_c = ctx.cg.env(c)
                if x.id in env_c.vars or x.id in env_c._assign_sites:
                    continue
                sym = prog.resolve_name(c.module, x.id)
                if isinstance(sym, tuple) and sym[0] == 'const':
                    from .shared import is_immutable_value
                    if not is_immutable_value(prog, sym[2], sym[1]):
                        frees.append(x.id)
        run.add('C12.support', c.module.name, c.qualname, c.qualname, not frees,
                'depends only on its parameter and immutable module constants' if not frees else
                f'reads mutable module state {frees}')
    run.floor('C12.support', 15)
