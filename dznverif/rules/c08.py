"""C08 - output is a pure function of model and configuration.

Decides (DESIGN section 3, C08): C08.order (no hash-order dependent value reaches an order-sensitive
sink), C08.ambient (no ambient nondeterminism: id/hash/time/random/uuid/environment; no default
object repr formatted), C08.hash (md5 over utf-8 contents, hex), C08.state (no module/class level
mutable state).  Does not decide byte equality across processes as a value-level fact; it decides
the absence of every source of variation the analysis enumerates.
"""
from __future__ import annotations

import ast
from typing import List, Optional

from ..model import FuncInfo, ClassInfo, strip_opt, iter_own_nodes
from ..ordertaint import OrderTaint
from ..flow import always_raises
from .shared import alpha_text, entry_points_build, module_state_instances

FORBIDDEN_MODULES = {'time', 'datetime', 'random', 'uuid', 'secrets', 'socket', 'platform', 'getpass',
                     'tempfile', 'threading', 'multiprocessing', 'subprocess', 'locale', 'pwd'}
FORBIDDEN_OS = {'environ', 'getenv', 'getpid', 'getcwd', 'urandom', 'times', 'uname', 'getlogin', 'cpu_count',
                'listdir', 'scandir', 'walk', 'stat', 'getppid', 'getuid'}
# os.path functions that consult the file system, the working directory or the environment
FORBIDDEN_OS_PATH = {'abspath', 'realpath', 'relpath', 'expanduser', 'expandvars', 'exists', 'lexists', 'isfile', 'isdir', 'islink',
                     'ismount', 'getmtime', 'getatime', 'getctime', 'getsize', 'samefile', 'sameopenfile', 'samestat'}
# methods / properties of pathlib paths that do (the pure ones - name, stem, suffix, parent, parts, with_suffix ... - are fine)
PATH_FS_MEMBERS = {'resolve', 'absolute', 'cwd', 'home', 'expanduser', 'exists', 'is_file', 'is_dir', 'is_symlink', 'is_mount',
                   'stat', 'lstat', 'iterdir', 'glob', 'rglob', 'samefile', 'owner', 'group', 'readlink', 'read_text',
                   'read_bytes', 'open', 'walk', 'is_absolute_'}
# external modules whose functions are deterministic in their arguments (anything else that is neither here nor forbidden
# is answered ANALYSIS-ERROR: the rule does not guess)
PURE_MODULES = {'typing', 'typing_extensions', 'dataclasses', 'enum', 'abc', 'copy', 're', 'itertools', 'functools', 'collections',
                'operator', 'string', 'textwrap', 'hashlib', 'json', 'orjson', 'math', 'io', 'pathlib', 'os', 'posixpath', 'ntpath',
                'types', 'numbers', 'contextlib', 'warnings', 'logging', 'keyword', 'bisect', 'heapq', 'struct', 'base64',
                'binascii', 'unicodedata', 'fnmatch', 'shlex', 'pprint', 'reprlib', 'decimal', 'fractions', 'statistics',
                'builtins', '__future__', 'inspect', 'traceback', 'sys'}
FORBIDDEN_SYS = {'argv', 'path', 'modules', 'flags', 'hash_info', 'executable', 'platform', 'version', 'version_info', 'stdin',
                 'getrefcount', 'getsizeof', 'maxsize', 'prefix', 'implementation', 'getrecursionlimit'}
FORBIDDEN_BUILTINS = {'id', 'hash', 'vars', 'globals', 'locals', 'input', 'dir', 'object'}


def check(ctx):
    run, prog, cg = ctx.run, ctx.prog, ctx.cg
    run.explanation = (
        'Decided: C08.order - interprocedural order-taint (sets, dicts/lists built by iterating sets) over the '
        'whole package, sinks reported in functions reachable from Builder.build, the six create_header, '
        'GeneratedContent.hash and the configuration __str__ methods; C08.ambient - no reachable use of id/hash/'
        'time/random/uuid/os.environ..., no object with default repr formatted; C08.hash - md5(utf-8) hexdigest; '
        'C08.state - no module-level or class-level mutable state. Not decided: byte-equality of outputs as a '
        'value-level fact (follows only under the assumption that CPython evaluation is deterministic in the '
        'absence of the enumerated sources).')
    run.assume('CPython evaluation is deterministic apart from set iteration order, id()/hash() of objects, and '
               'the ambient sources enumerated in C08.ambient')
    run.assume('type inference of E1 (annotations of the repository) identifies every set-typed expression; '
               'values typed Any are followed through parameter/return/field taint only')
    run.trusted = ['python ast module', 'dznverif E1 program model / type inference', 'dznverif E3d order taint']

    entries = entry_points_build(ctx, extra=[('text_gen', 'GeneratedContent.hash'),
                                             ('adv_shell.port_selection', 'PortsCfg.__str__'),
                                             ('adv_shell.port_selection', 'PortsSemanticsCfg.__str__'),
                                             ('adv_shell.port_selection', 'MultiClientPortCfg.__str__')])
    reach = cg.reachable(entries)
    reach_fq = {f.fq for f in reach}
    run.stats['entry_points'] = [f.fq for f in entries]
    run.stats['reachable_functions'] = len(reach)

    # ---------------- C08.order ---------------------------------------------------------------
    ot = OrderTaint(prog, cg)
    ot.justify = lambda fn, node: _justify_pop(ctx, fn, node)
    iters = ot.solve()
    run.stats['taint_fixpoint_iterations'] = iters
    run.stats['tainted_params'] = sorted(f'{k[0]}({k[1]})={v}' for k, v in ot.param_taint.items())
    run.stats['tainted_returns'] = sorted(f'{k}={v}' for k, v in ot.ret_taint.items())
    run.stats['tainted_fields'] = sorted(f'{k[0]}.{k[1]}={v}' for k, v in ot.field_taint.items())
    n_src = 0
    for fn, node, kind, why in ot.consumers:
        if fn.fq in reach_fq:
            run.holds('C08.order', fn.module.name, fn.qualname, node,
                      f'{kind} value consumed harmlessly: {why}', node=node)
            n_src += 1
    for fn, node, reason in ot.justified:
        run.holds('C08.order', fn.module.name, fn.qualname, node, f'reasoned exception: {reason}', node=node)
    for fn, node, kind, why in ot.sinks:
        if fn.fq in reach_fq:
            stmt = ctx.flow.enclosing_stmt(node)
            run.violation('C08.order', fn.module.name, fn.qualname, stmt if stmt is not None else node,
                          f'order-dependent value `{ast.unparse(node)}` ({kind}) {why}; iteration order of a set '
                          f'depends on PYTHONHASHSEED and insertion history - sanitise with sorted()', node=node)
    for fn, node, why in ot.diagnostics:
        if fn.fq in reach_fq:
            run.remark(f'{fn.fq}:{getattr(node, "lineno", 0)} order-dependent value only reaches a diagnostic '
                       f'(exception text / print): {why}')
    run.floor('C08.order', 12)

    # ---------------- C08.ambient -------------------------------------------------------------
    _ambient(ctx, reach)

    # ---------------- C08.hash ----------------------------------------------------------------
    _hash_rule(ctx)

    # ---------------- C08.state ---------------------------------------------------------------
    for inst in module_state_instances(ctx):
        run.add('C08.state', *inst)
    run.floor('C08.state', 10)


def _justify_pop(ctx, fn: FuncInfo, call: ast.Call) -> Optional[str]:
    """`<set>.pop()` is harmless when the class invariant bounds the set to <= 1 element: the same set
    expression is guarded by `if len(<expr>) > 1: raise` in __post_init__ of the same class."""
    if fn.cls is None or not isinstance(call.func, ast.Attribute) or not isinstance(call.func.value, ast.Name):
        return None
    var = call.func.value.id
    defs = [n for n in iter_own_nodes(fn.node) if isinstance(n, ast.Assign) and len(n.targets) == 1
            and isinstance(n.targets[0], ast.Name) and n.targets[0].id == var]
    if len(defs) != 1:
        return None
    expr = defs[0].value
    post = ctx.prog.lookup_method(fn.cls, '__post_init__')
    if post is None:
        return None
    want = alpha_text(expr)
    for n in iter_own_nodes(post.node):
        if isinstance(n, ast.If) and always_raises(n.body) and isinstance(n.test, ast.Compare) \
                and len(n.test.ops) == 1:
            left, op, right = n.test.left, n.test.ops[0], n.test.comparators[0]
            if isinstance(left, ast.Call) and isinstance(left.func, ast.Name) and left.func.id == 'len' \
                    and left.args and alpha_text(left.args[0]) == want and isinstance(right, ast.Constant):
                if (isinstance(op, ast.Gt) and right.value == 1) or (isinstance(op, ast.GtE) and right.value == 2) \
                        or (isinstance(op, ast.NotEq) and right.value in (0, 1)):
                    return (f'{fn.cls.name}.__post_init__ rejects more than one element of the same set '
                            f'expression `{ast.unparse(expr)}` (guard verified on this run)')
    return None


def _identity_bookkeeping(ctx, fn: FuncInfo) -> bool:
    """Every value derived from an id() call in `fn` stays identity bookkeeping: it is compared (`in`, `==`), put into / taken
    out of local containers (also as one component of a tuple) and assigned to locals - and neither it nor a container
    holding it is iterated, formatted, returned, yielded, stored in an object or passed to another function.  (The number an
    object gets differs from run to run; whether two objects are the same one does not.)"""
    prog = ctx.prog
    T = 'T'
    taint: Dict[str, object] = {}          # local name -> 'T' | ('tuple', positions) | ('C', positions or None)

    def of(e):
        if isinstance(e, ast.Call) and isinstance(e.func, ast.Name) and e.func.id == 'id' and prog.resolve_name(fn.module, 'id') is None:
            return T
        if isinstance(e, ast.Name):
            return taint.get(e.id)
        if isinstance(e, ast.Tuple):
            pos = {i for i, x in enumerate(e.elts) if of(x) == T}
            return ('tuple', frozenset(pos)) if pos else None
        if isinstance(e, ast.Subscript) and isinstance(e.value, ast.Name) and isinstance(taint.get(e.value.id), tuple) and \
                taint[e.value.id][0] == 'C':
            p = taint[e.value.id][1]
            return T if p is None else ('tuple', p)
        if isinstance(e, ast.Call) and isinstance(e.func, ast.Attribute) and e.func.attr == 'pop' and isinstance(e.func.value, ast.Name) and \
                isinstance(taint.get(e.func.value.id), tuple) and taint[e.func.value.id][0] == 'C':
            p = taint[e.func.value.id][1]
            return T if p is None else ('tuple', p)
        return None
    nodes = list(iter_own_nodes(fn.node))
    for _round in range(4):
        before = dict(taint)
        for n in nodes:
            if isinstance(n, ast.Assign) and len(n.targets) == 1:
                t, v = n.targets[0], of(n.value)
                if isinstance(t, ast.Name) and v is not None:
                    taint[t.id] = v
                elif isinstance(t, (ast.Tuple, ast.List)) and isinstance(v, tuple) and v[0] == 'tuple':
                    for i, x in enumerate(t.elts):
                        if i in v[1] and isinstance(x, ast.Name):
                            taint[x.id] = T
            elif isinstance(n, ast.Call) and isinstance(n.func, ast.Attribute) and n.func.attr in ('add', 'append') and \
                    isinstance(n.func.value, ast.Name) and len(n.args) == 1:
                v = of(n.args[0])
                if v == T:
                    taint[n.func.value.id] = ('C', None)
                elif isinstance(v, tuple) and v[0] == 'tuple':
                    taint[n.func.value.id] = ('C', v[1])
        if taint == before:
            break
    if not any(isinstance(n, ast.Call) and of(n) == T for n in nodes):
        return False

    def tainted(e) -> bool:
        return of(e) is not None
    for n in nodes:
        if not ((isinstance(n, ast.Name) and isinstance(n.ctx, ast.Load) and n.id in taint) or
                (isinstance(n, ast.Call) and of(n) == T and isinstance(n.func, ast.Name))):
            continue
        par = prog.parent(n)
        v = of(n)
        if isinstance(par, ast.Compare):
            continue
        if isinstance(par, ast.Tuple) and isinstance(par.ctx, ast.Load):
            gp = prog.parent(par)
            if isinstance(gp, ast.Call) and isinstance(gp.func, ast.Attribute) and gp.func.attr in ('add', 'append') and par in gp.args:
                continue
            if isinstance(gp, ast.Assign) and gp.value is par:
                continue
            return False
        if isinstance(par, ast.Call) and n in par.args and isinstance(par.func, ast.Attribute) and \
                par.func.attr in ('add', 'append', 'discard', 'remove') and isinstance(par.func.value, ast.Name):
            continue
        if isinstance(par, ast.Assign) and par.value is n:
            continue
        if isinstance(v, tuple) and v[0] == 'C':
            # the container itself: method calls that do not iterate, subscripts, truth tests, len()
            if isinstance(par, ast.Attribute) and par.value is n and par.attr in ('add', 'append', 'discard', 'remove', 'pop', 'clear'):
                continue
            if isinstance(par, ast.Subscript) and par.value is n:
                continue
            if isinstance(par, (ast.While, ast.If, ast.IfExp)) and par.test is n:
                continue
            if isinstance(par, ast.UnaryOp) and isinstance(par.op, ast.Not):
                continue
            if isinstance(par, ast.Call) and isinstance(par.func, ast.Name) and par.func.id in ('len', 'bool'):
                continue
            return False
        if isinstance(v, tuple) and v[0] == 'tuple' and isinstance(par, ast.Assign):
            continue
        return False
    return True


def _ambient(ctx, reach: List[FuncInfo]):
    run, prog, cg = ctx.run, ctx.prog, ctx.cg
    n_checked = 0
    for fn in reach:
        env = cg.env(fn)
        for n in iter_own_nodes(fn.node):
            # calls of forbidden builtins
            if isinstance(n, ast.Call) and isinstance(n.func, ast.Name):
                nm = n.func.id
                if nm in FORBIDDEN_BUILTINS and prog.resolve_name(fn.module, nm) is None and nm not in env.vars \
                        and nm not in env._assign_sites:
                    if nm == 'id' and _identity_bookkeeping(ctx, fn):
                        run.holds('C08.ambient', fn.module.name, fn.qualname, n,
                                  'id() is only used to recognise an object met before: the identities are stored in local containers, '
                                  'compared and discarded - never iterated, formatted or handed on', node=n)
                        continue
                    run.violation('C08.ambient', fn.module.name, fn.qualname, n,
                                  f'builtin {nm}() is process/seed dependent and is reachable from the generator',
                                  node=n)
            # references into forbidden external modules
            if isinstance(n, (ast.Attribute, ast.Name)) and isinstance(getattr(n, 'ctx', None), ast.Load):
                if isinstance(prog.parent(n), ast.Attribute) and prog.parent(n).value is n:
                    continue   # judge the outermost dotted expression only
                sym = prog.resolve_expr_symbol(fn.module, n)
                if isinstance(sym, tuple) and sym[0] == 'ext':
                    parts = sym[1].split('.')
                    n_checked += 1
                    members = {p_.replace('()', '') for p_ in parts[1:]}
                    if parts[0] in FORBIDDEN_MODULES or (parts[0] == 'os' and len(parts) > 1 and parts[1] in FORBIDDEN_OS) or \
                            (parts[:2] == ['os', 'path'] and members & FORBIDDEN_OS_PATH) or \
                            (parts[0] in ('posixpath', 'ntpath') and members & FORBIDDEN_OS_PATH) or \
                            (parts[0] == 'pathlib' and members & PATH_FS_MEMBERS) or \
                            (parts[0] == 'sys' and members & FORBIDDEN_SYS):
                        run.violation('C08.ambient', fn.module.name, fn.qualname, n,
                                      f'ambient source {sym[1]} (process, working directory, file system or environment '
                                      f'dependent) is reachable from the generator', node=n)
                    elif parts[0] not in PURE_MODULES:
                        run.error('C08.ambient', fn.module.name, fn.qualname, n,
                                  f'external symbol {sym[1]} is neither in the table of deterministic library modules nor in the '
                                  f'table of ambient sources: classify it', node=n)
                    else:
                        run.holds('C08.ambient', fn.module.name, fn.qualname, n,
                                  f'external symbol {sym[1]} is not an ambient source', node=n, nontrivial=False)
            # members of path objects that consult the working directory / file system (`Path(x).resolve().stem`)
            if isinstance(n, ast.Attribute) and n.attr in PATH_FS_MEMBERS and _is_path_object(ctx, fn, env, n.value):
                run.violation('C08.ambient', fn.module.name, fn.qualname, n,
                              f'`{ast.unparse(n)}` consults the working directory / file system: the result depends on the '
                              f'process the generator runs in', node=n)
            # f-string holes: no default object repr
            if isinstance(n, ast.FormattedValue):
                t = strip_opt(env.type_of(n.value))
                ts = t[1] if t[0] == 'union' else [t]
                for x in ts:
                    x = strip_opt(x)
                    if x[0] == 'cls' and x[1] in prog.classes:
                        c = prog.classes[x[1]]
                        if _has_stable_str(prog, c):
                            run.holds('C08.ambient', fn.module.name, fn.qualname, n,
                                      f'hole of type {c.name} renders through __str__/dataclass repr/enum', node=n)
                        else:
                            run.violation('C08.ambient', fn.module.name, fn.qualname, n,
                                          f'hole of type {c.name} would render the default object repr (address)',
                                          node=n)
                    elif x[0] == 'func':
                        run.violation('C08.ambient', fn.module.name, fn.qualname, n,
                                      'a function object is formatted (repr contains an address)', node=n)
    # imports of forbidden modules anywhere in the package are noted
    for mod in prog.modules.values():
        for local, (target, sym) in mod.imports.items():
            top = target.split('.')[0]
            if top in FORBIDDEN_MODULES:
                run.remark(f'{mod.name} imports {target}{"." + sym if sym else ""} (uses are judged by reachability)')
    run.stats['external_symbol_uses_checked'] = n_checked
    run.floor('C08.ambient', 5)


def _has_stable_str(prog, c: ClassInfo) -> bool:
    for a in prog.ancestors(c):
        if isinstance(a, ClassInfo):
            if '__str__' in a.methods or '__repr__' in a.methods or a.is_dataclass or a.is_enum or a.is_exception:
                return True
        elif isinstance(a, str) and (a.endswith('Enum') or a.endswith('Exception') or a.endswith('Error')):
            return True
    return False


def _hash_rule(ctx):
    run, prog = ctx.run, ctx.prog
    gc = prog.cls('text_gen', 'GeneratedContent')
    fn = gc.methods.get('hash')
    if fn is None or not fn.is_property:
        run.error('C08.hash', gc.module.name, 'GeneratedContent', 'hash', 'property GeneratedContent.hash vanished')
        return
    rets = [n for n in iter_own_nodes(fn.node) if isinstance(n, ast.Return)]
    if len(rets) != 1 or rets[0].value is None:
        run.error('C08.hash', fn.module.name, fn.qualname, fn.node.name, 'expected a single return expression')
        return
    # local single-assignment copy propagation
    assigns = {}
    for n in iter_own_nodes(fn.node):
        if isinstance(n, ast.Assign) and len(n.targets) == 1 and isinstance(n.targets[0], ast.Name):
            assigns.setdefault(n.targets[0].id, []).append(n.value)

    def subst(e):
        while isinstance(e, ast.Name) and e.id in assigns and len(assigns[e.id]) == 1:
            e = assigns[e.id][0]
        return e

    e = subst(rets[0].value)
    # strip idempotent post-processing of a hex string
    while isinstance(e, ast.Call) and isinstance(e.func, ast.Attribute) and e.func.attr in ('lower', 'strip') \
            and not e.args:
        e = subst(e.func.value)
    ok_shape = isinstance(e, ast.Call) and isinstance(e.func, ast.Attribute) and e.func.attr == 'hexdigest' \
        and not e.args
    if not ok_shape:
        run.violation('C08.hash', fn.module.name, fn.qualname, rets[0],
                      'the hash is not the hexdigest() of a hashlib object', node=rets[0])
        return
    h = subst(e.func.value)
    algo_ok = False
    data = None
    if isinstance(h, ast.Call):
        sym = prog.resolve_expr_symbol(fn.module, h.func)
        if isinstance(sym, tuple) and sym[0] == 'ext' and sym[1] == 'hashlib.md5':
            algo_ok = True
            data = h.args[0] if h.args else None
        elif isinstance(sym, tuple) and sym[0] == 'ext' and sym[1] == 'hashlib.new' and h.args and \
                isinstance(h.args[0], ast.Constant) and str(h.args[0].value).lower() == 'md5':
            algo_ok = True
            data = h.args[1] if len(h.args) > 1 else None
        for kw in h.keywords:
            if kw.arg in ('string', 'data'):
                data = kw.value
    if not algo_ok:
        run.violation('C08.hash', fn.module.name, fn.qualname, rets[0],
                      f'hash algorithm is not hashlib.md5: `{ast.unparse(h)}`', node=rets[0])
        return
    data = subst(data) if data is not None else None
    enc_ok = False
    if isinstance(data, ast.Call) and isinstance(data.func, ast.Attribute) and data.func.attr == 'encode':
        enc = None
        if data.args:
            enc = data.args[0]
        for kw in data.keywords:
            if kw.arg == 'encoding':
                enc = kw.value
        errors_kw = [kw for kw in data.keywords if kw.arg == 'errors'] or data.args[1:2]
        if isinstance(enc, (ast.Name, ast.Attribute)):
            # a module-level constant that names the encoding
            sym_ = prog.resolve_expr_symbol(fn.module, enc)
            if isinstance(sym_, tuple) and sym_[0] == 'const' and isinstance(sym_[1], ast.Constant):
                enc = sym_[1]
        if enc is None:
            enc_ok = True       # str.encode() defaults to utf-8
        elif isinstance(enc, ast.Constant) and isinstance(enc.value, str) and \
                enc.value.lower().replace('_', '-') in ('utf-8', 'utf8', 'u8'):
            enc_ok = True
        if errors_kw:
            enc_ok = False
        operand = subst(data.func.value)
        src_ok = isinstance(operand, ast.Attribute) and isinstance(operand.value, ast.Name) and \
            operand.value.id == 'self' and operand.attr == 'contents'
        if not src_ok:
            run.violation('C08.hash', fn.module.name, fn.qualname, rets[0],
                          f'hash operand is `{ast.unparse(operand)}`, not self.contents', node=rets[0])
            return
    if not enc_ok:
        run.violation('C08.hash', fn.module.name, fn.qualname, rets[0],
                      'contents are not encoded as UTF-8 (strict) before hashing', node=rets[0])
        return
    run.holds('C08.hash', fn.module.name, fn.qualname, rets[0],
              'md5 over self.contents encoded as utf-8, hex digest', node=rets[0])


def _is_path_object(ctx, fn: FuncInfo, env, e: ast.AST, depth: int = 0) -> bool:
    """`e` evaluates to a pathlib path: typed so by E1, or a constructor call / `/` join / pure member of one."""
    if depth > 8:
        return False
    try:
        t = strip_opt(env.type_of(e))
    except Exception:   # noqa: BLE001 - typing is best effort here
        t = ('any',)
    if t[0] == 'extobj' and t[1].startswith('pathlib.'):
        return True
    if isinstance(e, ast.Call):
        sym = ctx.prog.resolve_expr_symbol(fn.module, e.func)
        if isinstance(sym, tuple) and sym[0] == 'ext' and sym[1].startswith('pathlib.'):
            return True
        if isinstance(e.func, ast.Attribute):
            return _is_path_object(ctx, fn, env, e.func.value, depth + 1)
        return False
    if isinstance(e, ast.Attribute):
        sym = ctx.prog.resolve_expr_symbol(fn.module, e)
        if isinstance(sym, tuple) and sym[0] == 'ext' and sym[1].startswith('pathlib.'):
            return True
        return _is_path_object(ctx, fn, env, e.value, depth + 1)
    if isinstance(e, ast.BinOp) and isinstance(e.op, ast.Div):
        return _is_path_object(ctx, fn, env, e.left, depth + 1) or _is_path_object(ctx, fn, env, e.right, depth + 1)
    if isinstance(e, ast.Name):
        sites = env._assign_sites.get(e.id, [])
        return any(k == 'expr' and _is_path_object(ctx, fn, env, v, depth + 1) for k, v, *_ in sites)
    return False
