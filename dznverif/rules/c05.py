"""C05 - parsing preserves every declaration of the Dezyne JSON AST with correct names.

Decides: C05.dispatch (the <class> dispatch, the assert_class literal of the called parse function, its return
type and the FileContents container it feeds agree; every declaration class has a branch; one append per branch),
C05.siblings (unknown classes / non-dict elements cannot abort their siblings; namespaces recurse over every
sub-element with the right child scope), C05.fields (every parse_X passes all fields of X, each fed from the
getter for its Dezyne JSON key; fqn from parent_ns.fqn_member_name(own name)), C05.order (list fields are order-
and cardinality-preserving maps of the JSON list), C05.enums (string -> enum decoders are total on the documented
literals, injective, name-preserving).  Values of fully-qualified names and whole-document round trip are value level.
"""
from __future__ import annotations

import ast
from typing import Dict, List, Optional, Set, Tuple

from ..model import FuncInfo, ClassInfo, iter_own_nodes, strip_opt
from ..flow import always_raises

# external Dezyne JSON schema: ast class -> {field: JSON key}  ('@...' = derived, see _field_rule)
SCHEMA: Dict[str, Dict[str, str]] = {
    'Binding': {'left': 'left', 'right': 'right'},
    'Bindings': {'elements': 'elements'},
    'Comment': {'value': 'string'},
    'Component': {'fqn': '@fqn', 'parent_ns': '@parent_ns', 'name': 'name', 'ports': 'ports'},
    'Data': {'value': 'value'},
    'EndPoint': {'port_name': 'port_name', 'instance_name': 'instance_name'},
    'Enum': {'fqn': '@fqn', 'parent_ns': '@parent_ns', 'name': 'name', 'fields': 'fields'},
    'Extern': {'fqn': '@fqn', 'parent_ns': '@parent_ns', 'name': 'name', 'value': 'value'},
    'Event': {'name': 'name', 'signature': 'signature', 'direction': 'direction'},
    'Events': {'elements': 'elements'},
    'Fields': {'elements': 'elements'},
    'Filename': {'name': 'name'},
    'Foreign': {'fqn': '@fqn', 'parent_ns': '@parent_ns', 'name': 'name', 'ports': 'ports'},
    'Formal': {'name': 'name', 'type_name': 'type_name', 'direction': 'direction'},
    'Formals': {'elements': 'elements'},
    'Import': {'name': 'name'},
    'Instance': {'name': 'name', 'type_name': 'type_name'},
    'Instances': {'elements': 'elements'},
    'Interface': {'fqn': '@fqn', 'parent_ns': '@parent_ns', 'ns_trail': '@ns_trail', 'name': 'name',
                  'types': 'types', 'events': 'events'},
    'Namespace': {'scope_name': 'name', 'elements': 'elements'},
    'Port': {'name': 'name', 'type_name': 'type_name', 'direction': 'direction', 'formals': 'formals',
             'injected': 'injected?'},
    'Ports': {'elements': 'elements'},
    'Range': {'from_int': 'from', 'to_int': 'to'},
    'Root': {'comment': 'comment', 'elements': 'elements', 'working_dir': 'working-directory'},
    'ScopeName': {'value': 'ids'},
    'Signature': {'type_name': 'type_name', 'formals': 'formals'},
    'SubInt': {'fqn': '@fqn', 'parent_ns': '@parent_ns', 'name': 'name', 'range': 'range'},
    'System': {'fqn': '@fqn', 'parent_ns': '@parent_ns', 'name': 'name', 'ports': 'ports',
               'instances': 'instances', 'bindings': 'bindings'},
    'Types': {'elements': 'elements'},
}
CLASS_TAG = {'Binding': 'binding', 'Bindings': 'bindings', 'Comment': 'comment', 'Component': 'component',
             'Data': 'data', 'EndPoint': 'end-point', 'Enum': 'enum', 'Extern': 'extern', 'Event': 'event',
             'Events': 'events', 'Fields': 'fields', 'Filename': 'file-name', 'Foreign': 'foreign', 'Formal': 'formal',
             'Formals': 'formals', 'Import': 'import', 'Instance': 'instance', 'Instances': 'instances',
             'Interface': 'interface', 'Namespace': 'namespace', 'Port': 'port', 'Ports': 'ports', 'Range': 'range',
             'Root': 'root', 'ScopeName': 'scope_name', 'Signature': 'signature', 'SubInt': 'subint',
             'System': 'system', 'Types': 'types'}
# callees (besides parse_* and the ast constructors) a raw JSON value may be handed to: validated conversions and the class-tag
# reader used for dispatch
VERBATIM_OK = {'ns_ids_t': 'list of identifiers -> NamespaceIds (validates every identifier, keeps order)',
               'NamespaceIds': 'the same, constructor form',
               'get_class_value': 'reads the <class> tag of a nested element for dispatch; the element itself goes to its parser',
               'isinstance': 'a test', 'len': 'a test', 'ElementHelper': 'wraps a nested element for checked access'}
GETTERS = {'get_str_value', 'tryget_str_value', 'get_dict_value', 'tryget_dict_value', 'get_int_value', 'get_list_value'}


def check(ctx):
    run, prog = ctx.run, ctx.prog
    run.explanation = (
        'Decided: C05.dispatch - four tables extracted from the code agree per branch: the <class> literal tested in '
        'parse_element / parse_types, the assert_class literal of the parse function called there, that function\'s '
        'return type, and the element type of the FileContents container appended to; each container is written by '
        'one branch (nested enums/subints are hoisted by the interface branch), each branch appends exactly once, '
        'every ast declaration class plus Filename and Import has a branch; C05.siblings - the unknown-class and '
        'non-dict branches cannot abort siblings, namespaces recurse over every sub-element with a child scope named '
        'after the namespace; C05.fields - every parse_X passes all dataclass fields of X, each fed from the getter for '
        'its Dezyne JSON key, fqn = parent_ns.fqn_member_name(own name) and parent_ns is handed through unchanged; '
        'C05.order - list-valued fields are order- and cardinality-preserving maps of the JSON list; C05.enums - the '
        'string->enum decoders are total, injective and name-preserving and raise DznJsonError otherwise. Not decided: '
        'the values of fully-qualified names (concatenation arithmetic in NamespaceTree.fqn) and whole-document '
        'round-trip equality (value level).')
    run.assume('the reference table ast field <-> Dezyne JSON key in this rule is the external Dezyne JSON AST schema '
               'together with the library\'s public field names')
    run.trusted = ['python ast module', 'dznverif E1/E2', 'the Dezyne JSON schema table in rules/c05.py']

    jmod = prog.module('json_ast')
    amod = prog.module('ast')
    parser = prog.cls('json_ast', 'DznJsonAst')
    pe = parser.methods.get('parse_element')
    if pe is None:
        run.error('C05.dispatch', jmod.name, 'DznJsonAst', 'parse_element', 'parse_element vanished')
        return
    fc = prog.cls('ast', 'FileContents')
    fc_fields = prog.class_fields(fc)

    def elem_cls(field: str) -> Optional[ClassInfo]:
        t = prog.ann_to_type(fc.module, fc_fields[field][0], fc)
        return prog.classes.get(t[1][1]) if t[0] == 'list' and t[1][0] == 'cls' else None

    # ---- the traversal: process() / parse_element and whatever they are organised into -------------------------------------
    # Decided by interpretation of process() on a scenario document when the code can be interpreted (any organisation of the
    # traversal); the shape rules below decide otherwise.
    from ..specialise import residual
    sem = _traversal_by_interpretation(ctx)
    if sem is not None:
        for rule_, label_, ok_, text_ in sem:
            run.add(rule_, jmod.name, 'DznJsonAst.process', label_, ok_, text_)
        run.stats['traversal_decided_by'] = 'interpretation of DznJsonAst.process() on the scenario document (E7), leaf parsers by contract'
        if all(ok_ for _r, _l, ok_, _t in sem):
            run.floor('C05.dispatch', 20)
            run.floor('C05.siblings', 3)
    if sem is None:
        # ---- dispatch of parse_element, per <class> value ------------------------------------------------------------------
        # For every tag of the schema the dispatching function is specialised by constant folding (dznverif.specialise): what
        # remains is what the parser does for an element of that class - whether the source says it with an if / elif chain, a
        # table of parse functions, a table of records or a table of handler methods.
        disp, var = pe, 'cls'
        for m_ in parser.methods.values():
            for a_ in iter_own_nodes(m_.node):
                if isinstance(a_, ast.Assign) and len(a_.targets) == 1 and isinstance(a_.targets[0], ast.Name) and \
                        isinstance(a_.value, ast.Call) and getattr(a_.value.func, 'id', '') == 'get_class_value':
                    disp, var = m_, a_.targets[0].id
        schema_tags = sorted({CLASS_TAG[c.name] for c in amod.classes.values() if c.name in CLASS_TAG and 'fqn' in c.fields}
                             | {'file-name', 'import', 'namespace'})
        assume_subject = None
        if disp is pe and not any(isinstance(x, ast.Name) and x.id == 'cls' for x in iter_own_nodes(pe.node)):
            # the class value is not held in a local of parse_element: the dispatching function is the method that compares one
            # and the same expression with the most class tags (`match visit.cls: case 'component': ...` in a helper method)
            best = (0, None, None)
            for m_ in parser.methods.values():
                subj: Dict[str, Set[str]] = {}
                for c_ in iter_own_nodes(m_.node):
                    if isinstance(c_, ast.Compare) and len(c_.ops) == 1 and isinstance(c_.ops[0], ast.Eq) and \
                            isinstance(c_.comparators[0], ast.Constant) and c_.comparators[0].value in set(schema_tags) and \
                            isinstance(c_.left, (ast.Name, ast.Attribute)):
                        subj.setdefault(ast.unparse(c_.left), set()).add(c_.comparators[0].value)
                for k_, tags_ in subj.items():
                    if len(tags_) > best[0]:
                        best = (len(tags_), m_, k_)
            if best[1] is not None and best[0] >= 5:
                disp, var, assume_subject = best[1], best[2], best[2]
        literal_tags = set()
        for x in ast.walk(jmod.tree):
            if isinstance(x, ast.Constant) and isinstance(x.value, str) and x.value in CLASS_TAG.values():
                literal_tags.add(x.value)
        def core(stmts):
            """the statements for a dict element: the guard on `isinstance(element, dict)` is peeled off"""
            out = []
            for st_ in stmts:
                if isinstance(st_, ast.If) and 'isinstance(element, dict)' in ast.unparse(st_.test):
                    neg = isinstance(st_.test, ast.UnaryOp) and isinstance(st_.test.op, ast.Not)
                    out.extend(core(st_.orelse if neg else st_.body))
                elif isinstance(st_, ast.Assign) and isinstance(st_.value, ast.Call) and getattr(st_.value.func, 'id', '') == 'get_class_value':
                    continue
                else:
                    out.append(st_)
            return out

        branches = []
        for tag in sorted(set(schema_tags) | literal_tags):
            body = core(residual(prog, disp, {var: tag}) if assume_subject is None else
                        residual(prog, disp, {}, assume={assume_subject: ast.Constant(value=tag)}))
            has_parse = any(isinstance(c, ast.Call) and getattr(c.func, 'id', '').startswith('parse_') for s_ in body for c in ast.walk(s_))
            if has_parse:
                branches.append((tag, body, f"<class> '{tag}'"))
        else_body = residual(prog, disp, {var: '<no such class>'}) if assume_subject is None else \
            residual(prog, disp, {}, assume={assume_subject: ast.Constant(value='<no such class>')})
        if len({'\n'.join(ast.unparse(s_) for s_ in b_) for _t, b_, _l in branches}) == 1 and len(branches) > 1:
            run.error('C05.dispatch', disp.module.name, disp.qualname, 'dispatch',
                      f'the dispatch on the <class> value could not be specialised: the code that remains for an element is the same '
                      f'for every one of the {len(branches)} classes (the class value is not held where the rule looks for it)')
            return
        run.stats['dispatch_function'] = disp.qualname
        run.stats['dispatch_tags_with_a_parser'] = [t for t, _b, _l in branches]
        if len(branches) < 5:
            run.error('C05.dispatch', disp.module.name, disp.qualname, 'dispatch',
                      f'the dispatch on the <class> value could not be specialised ({len(branches)} of {len(schema_tags)} classes lead '
                      f'to a parse function)')
            return
        pe_report = disp
        written: Dict[str, List[str]] = {}
        seen_tags: Set[str] = set()
        for tag, body, test in branches:
            seen_tags.add(tag)
            calls = [c for s in body for c in ast.walk(s) if isinstance(c, ast.Call) and getattr(c.func, 'id', '').startswith('parse_')]
            if tag == 'namespace':
                continue
            if not calls:
                run.violation('C05.dispatch', pe.module.name, pe.qualname, test, f"branch '{tag}' calls no parse function", node=test)
                continue
            pf = jmod.functions.get(calls[0].func.id)
            ac = _assert_class_literal(pf) if pf else None
            ret = prog.ann_to_type(pf.module, pf.node.returns, None) if pf else ('any',)
            ret_cls = prog.classes.get(ret[1]) if ret[0] == 'cls' else None
            appends = [c for s in body for c in ast.walk(s) if isinstance(c, ast.Call) and isinstance(c.func, ast.Attribute)
                       and c.func.attr in ('append', 'extend') and isinstance(c.func.value, ast.Attribute)
                       and c.func.value.attr in fc_fields]
            primary = [a for a in appends if a.func.attr == 'append']
            ok_tag = ac == tag
            run.add('C05.dispatch', pe.module.name, pe.qualname, test, ok_tag,
                    f"'{tag}' -> {pf.name if pf else '?'} which asserts <class> '{ac}'" if ok_tag else
                    f"branch '{tag}' calls {pf.name if pf else '?'} which asserts <class> '{ac}': every such element is "
                    f"rejected or mis-parsed", node=test)
            if len(primary) != 1:
                run.violation('C05.dispatch', pe.module.name, pe.qualname, test,
                              f"branch '{tag}' appends {len(primary)} times (exactly one entry per declaration expected)", node=test)
                continue
            field = primary[0].func.value.attr
            written.setdefault(field, []).append(tag)
            ec = elem_cls(field)
            # the appended value is the parse result
            arg = primary[0].args[0] if primary[0].args else None
            arg_ok = arg is not None and (arg is calls[0] or (isinstance(arg, ast.Name) and any(
                isinstance(s, ast.Assign) and isinstance(s.targets[0], ast.Name) and s.targets[0].id == arg.id and s.value is calls[0]
                for s in body)))
            ok = ret_cls is not None and ec is ret_cls and arg_ok and CLASS_TAG.get(ret_cls.name) == tag
            run.add('C05.dispatch', pe.module.name, pe.qualname, primary[0], ok,
                    f"'{tag}' -> {ret_cls.name if ret_cls else '?'} appended to FileContents.{field}" if ok else
                    f"branch '{tag}': result type {ret_cls.name if ret_cls else '?'} / container {field} "
                    f"(List[{ec.name if ec else '?'}]) / schema tag '{CLASS_TAG.get(ret_cls.name) if ret_cls else '?'}' disagree",
                    node=primary[0])
            if tag == 'interface':
                hoists = {a.func.value.attr: ast.unparse(a.args[0]) for a in appends if a.func.attr == 'extend'}
                ok = hoists.get('enums', '').endswith('.types.enums') and hoists.get('subints', '').endswith('.types.subints')
                run.add('C05.dispatch', pe.module.name, pe.qualname, 'interface: nested types hoisted', ok,
                        'enums and subints nested in an interface are added to FileContents.enums / subints' if ok else
                        f'nested types of an interface are not hoisted into FileContents.enums/subints: {hoists}')
        dup = {f: t for f, t in written.items() if len(t) > 1}
        run.add('C05.dispatch', pe.module.name, pe.qualname, 'one writer per container', not dup,
                'every container has exactly one writing branch' if not dup else f'containers written by several branches: {dup}')
        # coverage: every declaration class of ast.py with fqn + Filename + Import
        need = {CLASS_TAG[c.name] for c in amod.classes.values() if 'fqn' in c.fields} | {'file-name', 'import', 'namespace'}
        # a traversal that is organised differently (explicit work list, generator): namespaces are recognised and descended into
        # by another function than the one that dispatches on the class value
        ns_elsewhere = [f_ for f_ in jmod.functions.values() if f_ is not disp and
                        any(isinstance(c_, ast.Compare) and any(isinstance(k_, ast.Constant) and k_.value == 'namespace' for k_ in ast.walk(c_))
                            for c_ in iter_own_nodes(f_.node)) and
                        any(isinstance(c_, ast.Call) and getattr(c_.func, 'id', '') == 'parse_namespace' for c_ in iter_own_nodes(f_.node))]
        ns_elsewhere += [f_ for f_ in parser.methods.values() if f_ is not disp and f_ not in ns_elsewhere and
                         any(isinstance(c_, ast.Compare) and any(isinstance(k_, ast.Constant) and k_.value == 'namespace' for k_ in ast.walk(c_))
                             for c_ in iter_own_nodes(f_.node)) and
                         any(isinstance(c_, ast.Call) and getattr(c_.func, 'id', '') == 'parse_namespace' for c_ in iter_own_nodes(f_.node))]
        if 'namespace' not in seen_tags and ns_elsewhere:
            need.discard('namespace')
        missing = sorted(need - seen_tags)
        run.add('C05.dispatch', pe.module.name, pe.qualname, 'branch coverage', not missing,
                f'all {len(need)} declaration classes have a branch' if not missing else
                f'no branch for <class> {missing}: such declarations are silently dropped')
        # only the declaration containers (lists of ast classes) have to be fed by the parser; a field of another shape
        # (a cache, a counter) is not part of the parsed document
        unwritten = sorted(f for f in set(fc_fields) - set(written) if elem_cls(f) is not None)
        run.add('C05.dispatch', pe.module.name, pe.qualname, 'container coverage', not unwritten,
                'every FileContents container is fed' if not unwritten else f'containers never fed: {unwritten}')
        run.floor('C05.dispatch', 20)

    # the nested types of an interface are handed on through Types.enums / Types.subints: complete, order-preserving
    # selections of `elements` by class (E4 evaluation of the two properties)
    from ..template import Evaluator, TList, RepL, Sym as TSym
    ev_ = Evaluator(prog, ctx.cg)
    types_cls = amod.classes.get('Types')
    for prop_name, want_cls in (('enums', 'Enum'), ('subints', 'SubInt')):
        m_ = types_cls.methods.get(prop_name) if types_cls else None
        if m_ is None:
            run.error('C05.dispatch', amod.name, 'Types', prop_name, f'Types.{prop_name} vanished')
            continue
        del ev_.opaque_log[:]
        val = ev_.eval_entry(m_)
        ok, why = None, f'Types.{prop_name} is not modelled: {sorted(set(ev_.opaque_log))[:2] or repr(val)[:80]}'
        if isinstance(val, TList) and len(val.items) == 1 and isinstance(val.items[0], RepL) and not ev_.opaque_log:
            r = val.items[0]
            base_ok = isinstance(r.src.base, TSym) and r.src.base.path[-1:] == ('elements',) and r.src.base.root.split('#')[0] == 'self'
            elem_ok = len(r.items) == 1 and isinstance(r.items[0], TSym) and r.items[0].key() == r.src.var.key()
            filt = [f for f in r.src.filters]
            filt_ok = len(filt) == 1 and filt[0].op == 'isinstance' and filt[0].args[0].key() == r.src.var.key() and filt[0].args[1] == want_cls
            if r.src.order:
                ok, why = False, (f'Types.{prop_name} selects from a partial / reordered view of the elements ({r.src.order}): nested '
                                  f'{want_cls} declarations are dropped or reordered')
            elif base_ok and elem_ok and filt_ok:
                ok, why = True, f'Types.{prop_name} = every {want_cls} of elements, in order'
            else:
                ok, why = False, f'Types.{prop_name} is not the selection of all {want_cls} elements ({r.src!r})'[:200]
        if ok is None:
            run.error('C05.dispatch', amod.name, f'Types.{prop_name}', prop_name, why)
        else:
            run.add('C05.dispatch', amod.name, f'Types.{prop_name}', f'Types.{prop_name}', ok, why)

    # parse_types dispatch
    pt = jmod.functions.get('parse_types')
    if pt is None:
        run.error('C05.dispatch', jmod.name, '-', 'parse_types', 'parse_types vanished')
    else:
        # per nested type class, by specialisation of the loop body (chain or table alike)
        tags = {}
        cvar = None
        for a_ in iter_own_nodes(pt.node):
            if isinstance(a_, ast.Assign) and len(a_.targets) == 1 and isinstance(a_.targets[0], ast.Name) and \
                    isinstance(a_.value, ast.Call) and getattr(a_.value.func, 'id', '') == 'get_class_value':
                cvar = a_.targets[0].id
        recognised = cvar is not None
        if recognised:
            for tag in ('enum', 'subint'):
                body = residual(prog, pt, {cvar: tag})
                loops_ = [x for s_ in body for x in ast.walk(s_) if isinstance(x, ast.For)]
                inner = loops_[0].body if len(loops_) == 1 else []
                calls = [c for s_ in inner for c in ast.walk(s_) if isinstance(c, ast.Call) and getattr(c.func, 'id', '').startswith('parse_')]
                pf = jmod.functions.get(calls[0].func.id) if len(calls) == 1 else None
                if pf is None:
                    continue
                tags[tag] = _assert_class_literal(pf)
                apps = [c for s_ in inner for c in ast.walk(s_) if isinstance(c, ast.Call) and isinstance(c.func, ast.Attribute) and c.func.attr == 'append']
                ok = tags[tag] == tag and len(apps) == 1
                run.add('C05.dispatch', pt.module.name, pt.qualname, f"nested type '{tag}'", ok,
                        f"nested type '{tag}' parsed by {pf.name} and kept once" if ok else
                        f"nested type '{tag}': parser asserts '{tags[tag]}', appended {len(apps)}x")
            other = residual(prog, pt, {cvar: '<no such class>'})
            loops_ = [x for s_ in other for x in ast.walk(s_) if isinstance(x, ast.For)]
            for s_ in (loops_[0].body if len(loops_) == 1 else []):
                for x in ast.walk(s_):
                    if isinstance(x, (ast.Raise, ast.Return, ast.Break)):
                        run.violation('C05.siblings', pt.module.name, pt.qualname, x,
                                      'an unknown nested type aborts the remaining types of the interface', node=x)
        if not recognised or not tags:
            run.error('C05.dispatch', pt.module.name, pt.qualname, 'nested type dispatch',
                      'the dispatch on the nested type class could not be specialised: not modelled')
            tags = {'enum': 'enum', 'subint': 'subint'}
        ok = set(tags) == {'enum', 'subint'}
        run.add('C05.dispatch', pt.module.name, pt.qualname, 'nested type coverage', ok,
                'enum and subint nested types are parsed' if ok else f'nested types handled: {sorted(tags)}')

    if sem is None:
        # ---- C05.siblings ------------------------------------------------------------------------------------------------------
        # an element of an unknown class, or one that is not a dict, is skipped: handling it must not raise (the loops over the
        # siblings - root elements, namespace members - are in the callers and go on after a plain return)
        non_dict = []
        for s_ in else_body:
            for x in ast.walk(s_):
                if isinstance(x, ast.If) and 'isinstance(element, dict)' in ast.unparse(x.test):
                    neg = isinstance(x.test, ast.UnaryOp) and isinstance(x.test.op, ast.Not)
                    non_dict.extend(x.body if neg else x.orelse)
        for label, body in (('unknown <class>', else_body), ('non-dict element', non_dict)):
            bad = [x for s_ in body for x in ast.walk(s_) if isinstance(x, (ast.Raise, ast.Break))]
            run.add('C05.siblings', pe.module.name, disp.qualname, bad[0] if bad else f'{label} branch', not bad,
                    f'{label}: skipped without affecting siblings' if not bad else
                    f'{label}: handling it raises / leaves the loop - following siblings are lost', node=bad[0] if bad else None)
        ns_branch = next((b for t, b, _x in branches if t == 'namespace'), None)
        if ns_branch is None and ns_elsewhere:
            run.error('C05.siblings', pe.module.name, ns_elsewhere[0].qualname, 'namespace traversal',
                      f'namespaces are recognised in {ns_elsewhere[0].qualname}, not in the dispatching function {disp.qualname}: the '
                      f'traversal (work list / generator) is not of a form this rule can follow - that every member of a namespace '
                      f'and every root element is parsed once under the right scope is not decided')
        elif ns_branch is None:
            run.violation('C05.siblings', pe.module.name, pe.qualname, 'namespace branch', 'namespaces are not descended into')
        elif not [s for s in ns_branch if isinstance(s, ast.For)] and any(
                isinstance(s, ast.Return) and isinstance(getattr(s, 'value', None), (ast.Tuple, ast.Call)) and
                '.elements' in ast.unparse(s.value) for s in ns_branch):
            run.error('C05.siblings', pe.module.name, disp.qualname, 'namespace traversal',
                      f'the namespace branch of {disp.qualname} hands the members of the namespace back to its caller instead of '
                      f'parsing them itself (work list / iterator stack): that every member and every root element is parsed once '
                      f'under the right scope is not decided by this rule')
            ns_elsewhere = ns_elsewhere or [disp]
            ns_branch = None
        else:
            loops = [s for s in ns_branch if isinstance(s, ast.For)]
            ok = False
            why = 'namespace branch does not recurse over every sub-element with a child scope'
            if len(loops) == 1:
                lp = loops[0]
                it = ast.unparse(lp.iter)
                rec = [c for c in ast.walk(lp) if isinstance(c, ast.Call) and isinstance(c.func, ast.Attribute) and c.func.attr == 'parse_element']
                trees = [s for s in ns_branch if isinstance(s, ast.Assign) and isinstance(s.value, ast.Call) and getattr(s.value.func, 'id', '') == 'NamespaceTree']
                nsvar = next((ast.unparse(s.targets[0]) for s in ns_branch if isinstance(s, ast.Assign) and isinstance(s.value, ast.Call)
                              and getattr(s.value.func, 'id', '') == 'parse_namespace'), None)
                if rec and trees and nsvar:
                    tr = trees[0]
                    kw = {k.arg: ast.unparse(k.value) for k in tr.value.keywords}
                    pos = [ast.unparse(a) for a in tr.value.args]
                    parent = kw.get('parent', pos[0] if pos else '')
                    scope = kw.get('scope_name', pos[1] if len(pos) > 1 else '')
                    pn = pe.params()[2].arg if len(pe.params()) > 2 else 'parent_ns'
                    sub = ast.unparse(tr.targets[0])
                    ok = it == f'{nsvar}.elements' and parent == pn and scope == f'{nsvar}.scope_name.value' and \
                        len(rec) == 1 and [ast.unparse(a) for a in rec[0].args] == [getattr(lp.target, 'id', ''), sub] and \
                        len(lp.body) == 1
                    if ok:
                        why = 'every sub-element of a namespace is parsed under a child scope named after the namespace'
                    else:
                        why = (f'namespace recursion: iterates `{it}`, child scope NamespaceTree(parent={parent}, '
                               f'scope_name={scope}), recursive call args {[ast.unparse(a) for a in rec[0].args]}')
            run.add('C05.siblings', pe.module.name, pe.qualname, loops[0] if loops else 'namespace recursion', ok, why)
        # process() feeds every root element with the root scope
        proc = parser.methods.get('process')
        loops = [n for n in iter_own_nodes(proc.node) if isinstance(n, ast.For) and 'parse_element' in ast.unparse(n)] if proc else []
        ok = len(loops) == 1 and not isinstance(loops[0].iter, ast.Call) and ast.unparse(loops[0].iter).endswith('.elements') and len(loops[0].body) == 1 and \
            'parse_element' in ast.unparse(loops[0].body[0]) and 'self._ns_trail' in ast.unparse(loops[0].body[0])
        if not (ns_branch is None and ns_elsewhere):
            run.add('C05.siblings', jmod.name, 'DznJsonAst.process', loops[0] if loops else 'process loop', ok,
                    'process() parses every root element in order under the root scope' if ok else
                    'process() does not feed every root element to parse_element under the root scope')
        run.floor('C05.siblings', 4)

    # ---- C05.fields / C05.order ----------------------------------------------------------------------------------------------
    # semantic first: the parse functions interpreted on generated well-formed elements (E7); the shape rules below decide only
    # when something in them cannot be interpreted
    sem_fields = _fields_by_interpretation(ctx)
    if sem_fields is not None:
        res_, st_ = sem_fields
        run.stats['fields_decided_by'] = (f'interpretation of {st_["parse_functions"]} parse functions on {st_["elements_interpreted"]} generated '
                                          f'well-formed elements (E7)')
        for rule_, cname_, fld_, ok_, text_ in res_:
            run.add(rule_, jmod.name, st_['parser_of'][cname_], f'{cname_}.{fld_}', ok_, text_)
            if rule_ == 'C05.fields' and FIELD_KIND[cname_].get(fld_) in ('str', 'str?', 'int', 'raw', 'strlist'):
                run.add('C05.verbatim', jmod.name, st_['parser_of'][cname_], f'{cname_}.{fld_}', ok_,
                        f'{cname_}.{fld_} is the value of the document, unchanged (strings with blanks, case, separators; 0 and negative numbers; '
                        f'lists with None / numbers / nested values)' if ok_ else text_)
    n_ctor = 0
    for cname, schema in sorted(SCHEMA.items()):
        cls = amod.classes.get(cname)
        if cls is None:
            run.error('C05.fields', amod.name, cname, cname, f'ast class {cname} vanished')
            continue
        fields = list(prog.class_fields(cls).keys())
        if sorted(fields) != sorted(schema):
            run.violation('C05.fields', amod.name, cname, f'{cname} fields',
                          f'fields of ast.{cname} are {fields}; the Dezyne schema table has {sorted(schema)}')
            continue
        sites = []
        for f in jmod.functions.values():
            for c in iter_own_nodes(f.node):
                if isinstance(c, ast.Call) and prog.resolve_expr_symbol(f.module, c.func) is cls:
                    sites.append((f, c))
        if not sites:
            if sem_fields is None:
                run.violation('C05.fields', jmod.name, '-', f'{cname} construction', f'no parse function constructs ast.{cname}')
            continue
        for f, c in sites:
            n_ctor += 1
            if sem_fields is None:
                _field_rule(ctx, f, c, cls, fields, schema)
    if n_ctor < 29 and sem_fields is None:
        run.error('C05.fields', jmod.name, '-', 'constructor sites', f'only {n_ctor} ast constructions found (29 confirmed)')
    # the typed getters themselves: a well-typed value under the key - a falsy one included - is handed back unchanged
    from .shared import getters_by_interpretation
    gi = getters_by_interpretation(ctx)
    if gi is not None:
        probs, n_eval = gi
        lost = [t for _g, k, t in probs if k == 'lost']
        for g in sorted({g for g, _k, _t in probs} | {m for m in prog.cls('json_ast', 'ElementHelper').methods if m.endswith('_value')}):
            mine = [t for g2, k, t in probs if g2 == g and k == 'lost']
            run.add('C05.fields', jmod.name, f'ElementHelper.{g}', f'{g}: present / absent x 13 kinds of value', not mine,
                    f'{g} hands back every value of its type that is written under the key, unchanged (0, "", {{}}, [] included)' if not mine else
                    '; '.join(mine[:2]))
        run.stats['getters_decided_by'] = f'interpretation of the ElementHelper getters on {n_eval} elements (E7)'
    run.floor('C05.fields', 60)
    run.floor('C05.order', 9)
    if sem_fields is None:
        _verbatim_rule(ctx, jmod, amod)
    # ---- C05.memo: what the parser remembers is keyed by everything it depends on (a namespace node by its parent too) ----------------
    from .shared import memo_tables
    memo_fns = [f for f in prog.all_functions() if f.module.name in (jmod.name, 'dznpy.scoping')]
    for mf, node_, ok_, msg_ in memo_tables(ctx, memo_fns):
        run.add('C05.memo', mf.module.name, mf.qualname, node_, ok_, msg_, node=node_)
    for fq_, line_, table_ in getattr(prog, 'memo_eliminated', []):
        mf = prog.functions.get(fq_)
        if mf is not None and any(mf is f for f in memo_fns):
            run.holds('C05.memo', mf.module.name, mf.qualname, f'memo table {table_}',
                      f'memo table `{table_}` is keyed by every parameter the remembered value depends on (N22)')

    # ---- C05.enums ----------------------------------------------------------------------------------------------------------------
    for fname, enum_name in (('parse_event_direction', 'EventDirection'), ('parse_formal_direction', 'FormalDirection'),
                             ('parse_port_direction', 'PortDirection')):
        f = jmod.functions.get(fname)
        en = amod.classes.get(enum_name)
        if f is None or en is None:
            run.error('C05.enums', jmod.name, fname, fname, f'{fname} / {enum_name} vanished')
            continue
        # what the decoder returns for each literal, by specialisation (an if chain and a keyword table read the same)
        from ..specialise import residual
        mapping = {}
        pname = f.params()[0].arg if f.params() else 'value'
        for mem in en.enum_members:
            r_ = residual(prog, f, {pname: mem.lower()})
            r_ = [x for x in r_ if not isinstance(x, ast.Pass)]
            if len(r_) >= 1 and isinstance(r_[-1], ast.Return) and all(isinstance(x, (ast.Return,)) for x in r_[-1:]):
                sym = prog.resolve_expr_symbol(f.module, r_[-1].value) if isinstance(r_[-1].value, (ast.Name, ast.Attribute)) else None
                if isinstance(sym, tuple) and sym[0] == 'enum_member' and sym[1] is en and \
                        not any(isinstance(y, ast.Raise) for x in r_ for y in ast.walk(x)):
                    mapping[mem.lower()] = sym[2]
        other = residual(prog, f, {pname: '<no such direction>'})
        last = other[-1] if other else None
        raises = last is not None and any(isinstance(y, ast.Raise) and 'DznJsonError' in ast.unparse(y.exc or ast.Constant(value=''))
                                          for y in ast.walk(last)) and not any(isinstance(y, ast.Return) for x in other for y in ast.walk(x))
        ok = set(mapping.values()) == set(en.enum_members) and len(set(mapping.values())) == len(mapping) and \
            all(lit.upper() == mem for lit, mem in mapping.items()) and raises
        run.add('C05.enums', f.module.name, f.qualname, f'{fname}: {mapping}', ok,
                f'{enum_name}: every member has its like-named literal, anything else raises DznJsonError' if ok else
                f'{fname} maps {mapping} onto {sorted(en.enum_members)} (raises otherwise: {raises}): a direction is '
                f'decoded to the wrong member or not at all')
    inj = jmod.functions.get('parse_port_injected_indication')
    if inj is not None:
        txt = ast.unparse(inj.node)
        ok = "Injected(False)" in txt and "Injected(True)" in txt and "== 'injected'" in txt and \
            isinstance(inj.node.body[-1], ast.Raise) and "'injected?'" in txt
        # polarity: None -> False ; 'injected' -> True
        for s in inj.node.body:
            if isinstance(s, ast.If) and 'is None' in ast.unparse(s.test):
                ok = ok and 'Injected(False)' in ast.unparse(s.body[0])
            if isinstance(s, ast.If) and "== 'injected'" in ast.unparse(s.test):
                ok = ok and 'Injected(True)' in ast.unparse(s.body[0])
        run.add('C05.enums', inj.module.name, inj.qualname, 'injected flag decoder', ok,
                "absent -> False, 'injected' -> True, anything else raises" if ok else
                'the injected flag is decoded with the wrong polarity / key')
    run.floor('C05.enums', 4)


def is_getter_call(c: ast.AST) -> bool:
    """`<helper>.<method>('<key>', ...)`: a read of one key of the wrapped JSON element through the checking helper - the
    named getters of the reference tree, or any method of the helper whose first argument is the key literal (generic typed
    getters), except the class-tag assertion."""
    return isinstance(c, ast.Call) and isinstance(c.func, ast.Attribute) and isinstance(c.func.value, ast.Name) and bool(c.args) and \
        isinstance(c.args[0], ast.Constant) and isinstance(c.args[0].value, str) and c.func.attr != 'assert_class' and (
            c.func.attr in GETTERS or ('get' in c.func.attr and 'value' in c.func.attr))


def _enum_table(ctx, f: FuncInfo, x: ast.AST) -> bool:
    """`x` can only be a module-level constant dictionary whose values are all enum members (`Cls.MEMBER`)."""
    try:
        consts = ctx.cg.env(f)._table_consts(x)
    except Exception:       # pylint: disable=broad-except
        return False
    if not consts and isinstance(x, ast.Name) and x.id in [a_.arg for a_ in f.params()]:
        # a parameter: every call site hands in such a table
        sites = [(g_, c_) for g_ in ctx.prog.all_functions() for c_ in iter_own_nodes(g_.node)
                 if isinstance(c_, ast.Call) and any(t_ is f for t_ in ctx.cg.env(g_).resolve_call(c_))]
        if not sites:
            return False
        for g_, c_ in sites:
            a_ = ctx.prog.bind_call(g_.module, c_, f).get(x.id)
            if a_ is None or not _enum_table(ctx, g_, a_):
                return False
        return True
    return bool(consts) and all(
        isinstance(d_, ast.Dict) and d_.values and all(
            isinstance(v_, ast.Attribute) and isinstance(v_.value, ast.Name) and v_.value.id[:1].isupper() and v_.attr.isupper()
            for v_ in d_.values) for d_, _m in consts)


def _verbatim_rule(ctx, jmod, amod):
    """C05.verbatim: what a getter reads from the document reaches the declaration through nothing but the parse functions
    and the ast constructors: no string method, slice, arithmetic, conversion or other call in between (the field rule only
    looks at WHICH key feeds a field, this rule at what happens to the value on the way).  Helpers of the parser module that
    the value is handed to are followed (the value must reach their result in the same way); parse functions / ast classes
    handed in as parameters (template helpers) count like the functions themselves."""
    run, prog = ctx.run, ctx.prog
    transparent: Dict[tuple, Optional[Tuple[ast.AST, str]]] = {}

    def judge(f: FuncInfo, node: ast.AST, depth: int = 0) -> Optional[Tuple[ast.AST, str]]:
        """(node, what happens) when the value carried by `node` is changed on its way, None when it is handed on verbatim."""
        child, p = node, prog.parent(node)
        if isinstance(ctx.flow.enclosing_stmt(node), ast.Raise):
            return None          # quoted in an error message
        while p is not None and not isinstance(p, ast.stmt):
            bad = None
            if isinstance(p, ast.Call):
                if p.func is child or any(x is child for x in ast.walk(p.func)):
                    bad = f'changed by `.{getattr(p.func, "attr", "?")}(...)`'
                else:
                    sym = prog.resolve_expr_symbol(f.module, p.func) if isinstance(p.func, (ast.Name, ast.Attribute)) else None
                    ok_callee = (isinstance(sym, ClassInfo) and sym.module is amod) or \
                        (isinstance(sym, FuncInfo) and sym.module is jmod and sym.name.startswith('parse_')) or \
                        (isinstance(p.func, ast.Attribute) and p.func.attr == 'append')
                    if not ok_callee and sym is None:
                        cs = ctx.cg.env(f).resolve_call(p)
                        fs = [c_ for c_ in cs if isinstance(c_, FuncInfo)]
                        ctors = [c_ for c_ in cs if isinstance(c_, tuple) and c_[0] == 'ctor']
                        ok_callee = bool(fs or ctors) and all(
                            (c_.module is jmod and c_.name.startswith('parse_')) or c_.name in ('__init__', '__post_init__')
                            for c_ in fs) and all(c_[1].module is amod for c_ in ctors)
                    if ok_callee:
                        return None      # from here on it is a declaration (or a validated value object), not the raw value
                    if getattr(p.func, 'id', '') in VERBATIM_OK:
                        return None
                    if isinstance(sym, FuncInfo) and sym.module is jmod and depth < 4:
                        b_ = prog.bind_call(f.module, p)
                        pname = next((k_ for k_, v_ in b_.items() if v_ is child or any(x is child for x in ast.walk(v_))), None)
                        if pname is not None:
                            key_ = (sym.fq, pname)
                            if key_ not in transparent:
                                transparent[key_] = None     # optimistic for recursion
                                for u in iter_own_nodes(sym.node):
                                    if isinstance(u, ast.Name) and u.id == pname and isinstance(u.ctx, ast.Load):
                                        r_ = judge(sym, u, depth + 1)
                                        if r_ is not None:
                                            transparent[key_] = r_
                                            break
                            if transparent[key_] is None:
                                return None
                            return transparent[key_]
                    bad = f'passed through `{ast.unparse(p.func)[:40]}(...)`'
            elif isinstance(p, ast.Subscript) and child is p.slice and _enum_table(ctx, f, p.value):
                return None      # the value selects a member of a constant keyword table (C05.enums judges the table)
            elif isinstance(p, (ast.Subscript, ast.BinOp, ast.JoinedStr, ast.FormattedValue, ast.UnaryOp, ast.Compare)):
                if not (isinstance(p, ast.Compare) or (isinstance(p, ast.UnaryOp) and isinstance(p.op, ast.Not))):
                    bad = f'used in `{ast.unparse(p)[:50]}`'
                else:
                    return None      # a test on the value, not the value
            elif isinstance(p, ast.IfExp) and child is p.test:
                return None
            if bad:
                return p, bad
            child, p = p, prog.parent(p)
        if isinstance(p, (ast.Assign, ast.AnnAssign)) and depth < 6:
            tg = p.targets[0] if isinstance(p, ast.Assign) else p.target
            if isinstance(tg, ast.Name) and p.value is not None and any(x is node for x in ast.walk(p.value)):
                for u in iter_own_nodes(f.node):
                    if isinstance(u, ast.Name) and u.id == tg.id and isinstance(u.ctx, ast.Load):
                        r_ = judge(f, u, depth + 1)
                        if r_ is not None:
                            return r_
        elif isinstance(p, (ast.For,)) and child is p.iter and isinstance(p.target, ast.Name) and depth < 6:
            for u in iter_own_nodes(f.node):
                if isinstance(u, ast.Name) and u.id == p.target.id and isinstance(u.ctx, ast.Load):
                    r_ = judge(f, u, depth + 1)
                    if r_ is not None:
                        return r_
        return None

    n_sites = 0
    for f in jmod.functions.values():
        if f.cls is not None:
            continue
        for c in iter_own_nodes(f.node):
            if is_getter_call(c):
                n_sites += 1
                r_ = judge(f, c)
                if r_ is not None:
                    key = c.args[0].value
                    run.violation('C05.verbatim', f.module.name, f.qualname, r_[0],
                                  f"the value read from JSON key '{key}' is {r_[1]} before it is stored: the declaration no longer "
                                  f"carries what the document says", node=r_[0])
                else:
                    run.holds('C05.verbatim', f.module.name, f.qualname, c, 'getter result examined on its way into the declaration',
                              node=c, nontrivial=False)
    run.stats['getter_sites'] = n_sites
    if n_sites < 18:
        run.error('C05.verbatim', jmod.name, '-', 'getter sites', f'only {n_sites} getter calls found (55 on the reference tree)')


def _class_chain(fn: FuncInfo, var: Optional[str]):
    """The if/elif chain `<var> == '<literal>'`: ([(literal, body, test)], else-body, enclosing isinstance-if)."""
    best = None
    for n in ast.walk(fn.node):
        if isinstance(n, ast.If) and isinstance(n.test, ast.Compare) and isinstance(n.test.ops[0], ast.Eq) and \
                isinstance(n.test.comparators[0], ast.Constant) and isinstance(n.test.left, ast.Name):
            chain = []
            node = n
            while True:
                if not (isinstance(node.test, ast.Compare) and isinstance(node.test.comparators[0], ast.Constant)
                        and isinstance(node.test.left, ast.Name) and node.test.left.id == n.test.left.id):
                    return None
                chain.append((node.test.comparators[0].value, node.body, node.test))
                if len(node.orelse) == 1 and isinstance(node.orelse[0], ast.If):
                    node = node.orelse[0]
                else:
                    else_body = node.orelse
                    break
            if best is None or len(chain) > len(best[0]):
                outer = None
                for m in ast.walk(fn.node):
                    if isinstance(m, ast.If) and 'isinstance' in ast.unparse(m.test) and any(x is n for x in ast.walk(m)) and m is not n:
                        outer = m
                best = (chain, else_body, outer)
    return best


def _table_dispatch(jmod, fn: FuncInfo):
    """`if <x> in TABLE: ... TABLE[<x>](...)` with TABLE a module-level dict {'<class>': parse_function}."""
    for n in ast.walk(fn.node):
        if isinstance(n, ast.If) and isinstance(n.test, ast.Compare) and len(n.test.ops) == 1 and \
                isinstance(n.test.ops[0], ast.In) and isinstance(n.test.comparators[0], ast.Name) and isinstance(n.test.left, ast.Name):
            tname, var = n.test.comparators[0].id, n.test.left.id
            dnode = jmod.assigns.get(tname)
            if not isinstance(dnode, ast.Dict):
                continue
            if not all(isinstance(k, ast.Constant) and isinstance(k.value, str) and isinstance(v, ast.Name)
                       for k, v in zip(dnode.keys, dnode.values)):
                continue
            used = [c for s in n.body for c in ast.walk(s) if isinstance(c, ast.Call) and isinstance(c.func, ast.Subscript)
                    and isinstance(c.func.value, ast.Name) and c.func.value.id == tname
                    and isinstance(c.func.slice, ast.Name) and c.func.slice.id == var]
            if len(used) == 1:
                return {k.value: v.id for k, v in zip(dnode.keys, dnode.values)}, n
    return None


def _assert_class_literal(fn: Optional[FuncInfo], _bind: Optional[Dict[str, str]] = None, _depth: int = 0) -> Optional[str]:
    """The <class> value a parse function asserts: the literal handed to `assert_class`, directly or through private helper
    functions of the module that are given the literal (`_open_element(element, 'component', ..)`)."""
    if fn is None or _depth > 3:
        return None
    bind = _bind or {}
    # in statement order: the element itself is opened first, nested elements (whose parsers may have been expanded in place)
    # come later
    ordered = [c for st in fn.node.body for c in ast.walk(st) if isinstance(c, ast.Call)]
    for c in ordered:
        if isinstance(c.func, ast.Attribute) and c.func.attr == 'assert_class' and c.args:
            a = c.args[0]
            if isinstance(a, ast.Constant):
                return a.value
            if isinstance(a, ast.Name) and a.id in bind:
                return bind[a.id]
            return None
        if isinstance(c, ast.Call) and isinstance(c.func, ast.Name) and c.func.id.startswith('_') and c.func.id in fn.module.functions:
            g = fn.module.functions[c.func.id]
            params = [a.arg for a in g.params()]
            b2: Dict[str, str] = {}
            for i, a in enumerate(c.args):
                if i < len(params):
                    if isinstance(a, ast.Constant) and isinstance(a.value, str):
                        b2[params[i]] = a.value
                    elif isinstance(a, ast.Name) and a.id in bind:
                        b2[params[i]] = bind[a.id]
            for k in c.keywords:
                if k.arg and isinstance(k.value, ast.Constant) and isinstance(k.value.value, str):
                    b2[k.arg] = k.value.value
            if b2:
                r = _assert_class_literal(g, b2, _depth + 1)
                if r is not None:
                    return r
    return None


def _field_rule(ctx, fn: FuncInfo, call: ast.Call, cls: ClassInfo, fields: List[str], schema: Dict[str, str]):
    run, prog = ctx.run, ctx.prog
    jmod = fn.module
    given: Dict[str, ast.expr] = {}
    for i, a in enumerate(call.args):
        if i < len(fields):
            given[fields[i]] = a
    for k in call.keywords:
        if k.arg:
            given[k.arg] = k.value
    missing = [f for f in fields if f not in given and prog.class_fields(cls)[f][1] is None]
    # the class tag asserted by this parse function
    if fn.name.startswith('parse_') and cls.name in CLASS_TAG and fn.name not in ('parse_port_injected_indication',):
        ac = _assert_class_literal(fn)
        ret = prog.ann_to_type(fn.module, fn.node.returns, None)
        if ret == ('cls', cls.fq):
            ok = ac == CLASS_TAG[cls.name]
            run.add('C05.fields', fn.module.name, fn.qualname, f"assert_class('{ac}')", ok,
                    f"{fn.name} accepts <class> '{ac}'" if ok else
                    f"{fn.name} builds ast.{cls.name} but asserts <class> '{ac}' (schema: '{CLASS_TAG[cls.name]}')")
    defs: Dict[str, ast.expr] = {}
    for s in iter_own_nodes(fn.node):
        if isinstance(s, ast.Assign) and len(s.targets) == 1 and isinstance(s.targets[0], ast.Name):
            defs[s.targets[0].id] = s.value

    def closure(e: ast.AST, depth=0) -> List[ast.AST]:
        out = [e]
        if depth < 5:
            for x in ast.walk(e):
                if isinstance(x, ast.Name) and x.id in defs and x.id not in ('elt',):
                    out.extend(closure(defs[x.id], depth + 1))
        return out

    def json_parts(e: ast.AST, depth=0) -> List[ast.AST]:
        """Sub-expressions that carry the JSON value: for parse_*(x, scope...) only the first argument counts,
        local names are expanded through their definitions, accumulators through the loop that fills them."""
        if depth > 6:
            return []
        if isinstance(e, ast.Call) and getattr(e.func, 'id', '').startswith('parse_') and e.args:
            return json_parts(e.args[0], depth + 1)
        if isinstance(e, ast.Name):
            if e.id in defs and e.id != 'elt':
                d = defs[e.id]
                if isinstance(d, ast.List) and not d.elts:
                    out = []
                    for lp in iter_own_nodes(fn.node):
                        if isinstance(lp, ast.For) and any(
                                isinstance(c, ast.Call) and isinstance(c.func, ast.Attribute) and c.func.attr == 'append'
                                and isinstance(c.func.value, ast.Name) and c.func.value.id == e.id for c in ast.walk(lp)):
                            out.extend(json_parts(lp.iter, depth + 1))
                    return out
                return json_parts(d, depth + 1)
            return []
        if is_getter_call(e):
            return [e]
        out = []
        for c in ast.iter_child_nodes(e):
            out.extend(json_parts(c, depth + 1))
        return out

    def keys_of(e: ast.AST) -> List[str]:
        ks: List[str] = []
        for c in json_parts(e):
            if c.args and isinstance(c.args[0], ast.Constant) and c.args[0].value not in ks:
                ks.append(c.args[0].value)
        return ks

    if missing:
        run.violation('C05.fields', fn.module.name, fn.qualname, call,
                      f'ast.{cls.name} is built without {missing}: that part of the declaration is dropped', node=call)
    own_name_var = None
    for fld in fields:
        if fld not in given:
            continue
        e = given[fld]
        want = schema[fld]
        txt = ast.unparse(e)
        if want == '@parent_ns':
            pn = next((a.arg for a in fn.params() if 'parent' in a.arg), None)
            ok = isinstance(e, ast.Name) and e.id == pn
            run.add('C05.fields', fn.module.name, fn.qualname, f'{cls.name}.{fld} <- {txt[:50]}', ok,
                    'enclosing namespace handed through unchanged' if ok else
                    f'{cls.name}.parent_ns is `{txt}`, not the parent scope parameter', node=e)
        elif want == '@fqn':
            # parent_ns.fqn_member_name(<name>.value) where <name> is the parsed 'name'
            pn = next((a.arg for a in fn.params() if 'parent' in a.arg), None)
            if isinstance(e, ast.Name):
                d_ = ctx.cg.env(fn).single_def(e.id)       # through a write-once local
                if d_ is not None:
                    e = d_
            ok = isinstance(e, ast.Call) and isinstance(e.func, ast.Attribute) and e.func.attr == 'fqn_member_name' and \
                ast.unparse(e.func.value) == pn and len(e.args) == 1 and ast.unparse(e.args[0]).endswith('.value') and \
                keys_of(e.args[0]) == ['name'] and 'name' in given and \
                ast.unparse(e.args[0])[:-6] == ast.unparse(given['name'])
            run.add('C05.fields', fn.module.name, fn.qualname, f'{cls.name}.{fld} <- {txt[:60]}', ok,
                    'fqn = enclosing scope + own name' if ok else
                    f'{cls.name}.fqn is `{txt[:70]}`, not parent_ns.fqn_member_name(<own name>.value)', node=e)
        elif want == '@ns_trail':
            d = defs.get(e.id) if isinstance(e, ast.Name) else e
            pn = next((a.arg for a in fn.params() if 'parent' in a.arg), None)
            ok = isinstance(d, ast.Call) and getattr(d.func, 'id', '') == 'NamespaceTree' and \
                [ast.unparse(a) for a in d.args][:1] == [pn] and keys_of(d) == ['name']
            # nested types are parsed with the interface's own trail
            types_arg = given.get('types')
            ok = ok and types_arg is not None and isinstance(e, ast.Name) and e.id in [
                x.id for x in ast.walk(types_arg) if isinstance(x, ast.Name)]
            run.add('C05.fields', fn.module.name, fn.qualname, f'{cls.name}.{fld}', ok,
                    'interface scope = parent scope + interface name; nested types are parsed in that scope' if ok else
                    'the interface\'s own scope is not NamespaceTree(parent_ns, <name>) or nested types are parsed in '
                    'another scope', node=e)
        else:
            ks = keys_of(e)
            ok = ks == [want] or (fld == 'injected' and _injected_key(ctx, fn, e) == want)
            run.add('C05.fields', fn.module.name, fn.qualname, f'{cls.name}.{fld} <- {txt[:50]}', ok,
                    f"fed from JSON key '{want}'" if ok else
                    f"{cls.name}.{fld} is fed from JSON key(s) {ks or '<none>'}; the Dezyne schema key is '{want}'", node=e)
            # wrapper produces the annotated field type
            ft = prog.ann_to_type(cls.module, prog.class_fields(cls)[fld][0], cls)
            if isinstance(e, ast.Call) and getattr(e.func, 'id', '').startswith('parse_') and strip_opt(ft)[0] == 'cls':
                pf = jmod.functions.get(e.func.id)
                rt = prog.ann_to_type(pf.module, pf.node.returns, None) if pf else ('any',)
                okw = rt == strip_opt(ft)
                run.add('C05.fields', fn.module.name, fn.qualname, f'{cls.name}.{fld} parser {e.func.id}', okw,
                        f'{e.func.id} yields the field type' if okw else
                        f'{e.func.id} returns {rt} but the field is {strip_opt(ft)}', node=e, nontrivial=False)
            # ---- C05.order: list-valued fields --------------------------------------------------------------------
            if strip_opt(ft)[0] == 'list':
                d = defs.get(e.id, e) if isinstance(e, ast.Name) else e
                while isinstance(d, ast.Call) and getattr(d.func, 'id', '') in ('list', 'tuple') and len(d.args) == 1:
                    d = d.args[0]
                if isinstance(d, ast.Call) and getattr(d.func, 'id', '') in ('sorted', 'reversed', 'set', 'frozenset'):
                    run.violation('C05.order', fn.module.name, fn.qualname, d,
                                  f'{cls.name}.{fld} is passed through {d.func.id}(): source order / multiplicity of the '
                                  f'JSON list is not preserved', node=d)
                elif isinstance(d, ast.Subscript) and isinstance(d.slice, ast.Slice):
                    run.violation('C05.order', fn.module.name, fn.qualname, d,
                                  f'{cls.name}.{fld} is a slice of the parsed list: items are dropped', node=d)
                elif isinstance(d, ast.ListComp):
                    g = d.generators
                    ok = len(g) == 1 and not g[0].ifs and is_getter_call(g[0].iter) and \
                        isinstance(d.elt, ast.Call) and len(d.elt.args) >= 1 and isinstance(d.elt.args[0], ast.Name) and \
                        d.elt.args[0].id == getattr(g[0].target, 'id', None)
                    run.add('C05.order', fn.module.name, fn.qualname, d, ok,
                            'order- and cardinality-preserving map of the JSON list' if ok else
                            f'`{ast.unparse(d)[:70]}` filters, re-orders or does not map every item of the JSON list', node=d)
                elif is_getter_call(d):
                    run.holds('C05.order', fn.module.name, fn.qualname, d, 'the JSON list is kept as it is', node=d)
                elif isinstance(d, ast.List) and not d.elts and fn.name == 'parse_types':
                    _types_loop(ctx, fn, e.id if isinstance(e, ast.Name) else None)
                else:
                    run.error('C05.order', fn.module.name, fn.qualname, d,
                              f'list field {cls.name}.{fld} is built by an unrecognised expression', node=d)


def _injected_key(ctx, fn: FuncInfo, e: ast.AST) -> Optional[str]:
    if isinstance(e, ast.Call) and getattr(e.func, 'id', '') == 'parse_port_injected_indication':
        f = fn.module.functions.get('parse_port_injected_indication')
        if f is not None:
            for c in iter_own_nodes(f.node):
                if isinstance(c, ast.Call) and isinstance(c.func, ast.Attribute) and c.func.attr in GETTERS and c.args \
                        and isinstance(c.args[0], ast.Constant):
                    return c.args[0].value
    return None


def _types_loop(ctx, fn: FuncInfo, var: Optional[str]):
    run = ctx.run
    loops = [n for n in iter_own_nodes(fn.node) if isinstance(n, ast.For)]
    ok = len(loops) == 1 and isinstance(loops[0].iter, ast.Call) and isinstance(loops[0].iter.func, ast.Attribute) and \
        loops[0].iter.func.attr == 'get_list_value'
    if ok:
        # appends happen once per recognised branch, nothing is inserted/sorted
        others = [c for c in ast.walk(fn.node) if isinstance(c, ast.Call) and isinstance(c.func, ast.Attribute)
                  and isinstance(c.func.value, ast.Name) and c.func.value.id == var and c.func.attr != 'append']
        ok = not others
    run.add('C05.order', fn.module.name, fn.qualname, loops[0] if loops else 'types loop', ok,
            'nested types are appended in source order' if ok else 'nested types are not collected in source order')


# ---- the traversal decided by interpretation (E7) --------------------------------------------------------------------------------
def _traversal_by_interpretation(ctx):
    """DznJsonAst.process() interpreted (dznverif.scenario) on a scenario document, the leaf parsers replaced by their
    contract.  The traversal - process / parse_element and whatever they are organised into: if-chains, tables of functions or
    handler names, helper methods, work lists, generators - only looks at the <class> tag of an element and at whether it is a
    dict; what a declaration contains is the business of its parse function (C05.fields / C05.order / C15).  So every parse
    function that asserts the tag of a declaration class is replaced by: `an element with that tag -> one new instance of the
    function's return class (an interface with nested enum, subint, enum), any other element -> DznJsonError`, and the
    document holds every declaration class at namespace depth 0, 1 and 2, before and after a nested namespace, twice in a row,
    in a re-opened namespace, next to elements of unknown class, of a class that is no member (port) and elements that are no
    dict.  Expected: per FileContents container exactly the instances made for the elements of its class, in document order,
    each parsed under the namespace it is declared in; nested enums / subints of an interface right where the interface is.

    Returns None when the code cannot be interpreted (the shape rules decide then), else a list of (rule, label, ok, text)."""
    from ..scenario import Interp, Raised, Undecided, Obj
    run, prog = ctx.run, ctx.prog
    jmod, amod = prog.module('json_ast'), prog.module('ast')
    parser = prog.cls('json_ast', 'DznJsonAst')
    fc = prog.cls('ast', 'FileContents')
    err = prog.classes.get('dznpy.json_ast.DznJsonError')
    proc = parser.methods.get('process')
    if proc is None or err is None:
        return None
    fc_fields = prog.class_fields(fc)
    decl_tags = sorted({CLASS_TAG[c.name] for c in amod.classes.values() if c.name in CLASS_TAG and 'fqn' in prog.class_fields(c)} |
                       {'file-name', 'import'})
    # the leaf parsers and their contract
    stubs: Dict[str, Tuple[str, ClassInfo, FuncInfo]] = {}
    for f in jmod.functions.values():
        tag = _assert_class_literal(f)
        if tag in decl_tags and f.name.startswith('parse_') and f.node.returns is not None:
            rt = prog.ann_to_type(f.module, f.node.returns, None)
            rc = prog.classes.get(rt[1]) if rt[0] == 'cls' else None
            if rc is None or CLASS_TAG.get(rc.name) != tag:
                continue
            if any(t == tag for t, _c, _f in stubs.values()):
                return None            # two parse functions for one declaration class: which one is meant is not known here
            stubs[f.fq] = (tag, rc, f)
    if {t for t, _c, _f in stubs.values()} != set(decl_tags):
        return None
    container_of: Dict[str, str] = {}
    for tag, rc, _f in stubs.values():
        fields = [fl for fl in fc_fields if (lambda t: t[0] == 'list' and t[1] == ('cls', rc.fq))(prog.ann_to_type(fc.module, fc_fields[fl][0], fc))]
        if len(fields) != 1:
            return None
        container_of[tag] = fields[0]
    takes_ns = {tag: len(f.params()) > 1 for tag, _rc, f in stubs.values()}
    types_cls, enum_cls, subint_cls = amod.classes.get('Types'), amod.classes.get('Enum'), amod.classes.get('SubInt')
    if None in (types_cls, enum_cls, subint_cls):
        return None

    class StubObj(Obj):
        pass

    class It(Interp):
        def call_function(self, fn, args, kwargs, self_val=None, closure=None, depth=0):
            st = stubs.get(fn.fq)
            if st is None:
                return super().call_function(fn, args, kwargs, self_val=self_val, closure=closure, depth=depth)
            tag, rc, f = st
            names = [a.arg for a in f.params()]
            bound = dict(zip(names, args))
            bound.update(kwargs)
            el = bound.get(names[0]) if names else None
            if not isinstance(el, dict) or el.get('<class>') != tag:
                raise Raised(err.fq, f'{f.name}: element is no {tag}')
            o = StubObj(rc, {'__of__': el['__id__'], '__ns__': bound.get(names[1]) if len(names) > 1 else None,
                             '__has_ns__': len(names) > 1})
            self.made.append(o)
            if tag == 'interface':
                nested = [StubObj(enum_cls, {'__of__': f"{el['__id__']}/e1"}), StubObj(subint_cls, {'__of__': f"{el['__id__']}/s1"}),
                          StubObj(enum_cls, {'__of__': f"{el['__id__']}/e2"})]
                o.fields['types'] = self.construct(types_cls, [], {'elements': nested})
            return o

        def getattr(self, base, attr, fn, depth):
            if isinstance(base, StubObj) and attr not in base.fields and self.prog.lookup_method(base.cls, attr) is None:
                raise Undecided(f'the traversal looks into a parsed {base.cls.name} (.{attr})')
            return super().getattr(base, attr, fn, depth)

    counter = [0]

    def decl(tag):
        if tag not in container_of:
            raise Undecided(f'no parse function by contract for <class> {tag!r}')
        counter[0] += 1
        return {'<class>': tag, '__id__': f'{tag}#{counter[0]}'}

    def namespace(ids, elements):
        return {'<class>': 'namespace', 'name': {'<class>': 'scope_name', 'ids': list(ids)}, 'elements': elements}

    def all_decls():
        return [decl(t) for t in decl_tags]

    def junk():
        counter[0] += 1
        return [{'<class>': 'no-such-class', '__id__': f'unknown#{counter[0]}'}, 17, 'text', None, ['list'],
                {'<class>': 'port', '__id__': f'port#{counter[0]}'}]

    def document(elements):
        return {'<class>': 'root', 'working-directory': 'wd', 'elements': elements}

    def expected_of(elements, ns, out):
        for el in elements:
            if not isinstance(el, dict):
                continue
            tag = el.get('<class>')
            if tag == 'namespace':
                expected_of(el['elements'], ns + list(el['name']['ids']), out)
            elif tag in container_of:
                out.setdefault(container_of[tag], []).append((el['__id__'], tuple(ns) if takes_ns[tag] else None))
                if tag == 'interface':
                    out.setdefault(container_of['enum'], []).append((f"{el['__id__']}/e1", None))
                    out.setdefault(container_of['subint'], []).append((f"{el['__id__']}/s1", None))
                    out.setdefault(container_of['enum'], []).append((f"{el['__id__']}/e2", None))
        return out

    def run_doc(elements):
        """-> (contents per container: [(id, ns fqn or None)], exception name or None)"""
        it = It(prog)
        it.MAX_STEPS = 4000000
        it.made = []
        p = it.construct(parser, [], {})
        p.fields['_ast'] = document(elements)
        try:
            res = it.call_function(proc, [], {}, self_val=p)
        except Raised as exc:
            return None, exc.name
        if not isinstance(res, Obj) or res.cls is not fc:
            raise Undecided('process() does not hand back a FileContents')
        got: Dict[str, List[Tuple[str, Any]]] = {}
        for fl in set(container_of.values()):
            seq = res.fields.get(fl)
            if not isinstance(seq, list):
                raise Undecided(f'FileContents.{fl} is no list')
            for o in seq:
                if not isinstance(o, StubObj):
                    got.setdefault(fl, []).append((f'<{o!r}>'[:40], None))
                    continue
                ns = o.fields.get('__ns__')
                path = None
                if o.fields.get('__has_ns__'):
                    if not isinstance(ns, Obj):
                        path = ('<no namespace node>',)
                    else:
                        fq = it.getattr(ns, 'fqn', proc, 0)
                        items = fq.fields.get('items') if isinstance(fq, Obj) else None
                        if not isinstance(items, list):
                            raise Undecided('NamespaceTree.fqn is not interpreted')
                        path = tuple(items)
                got.setdefault(fl, []).append((o.fields['__of__'], path))
        return got, None

    results: List[Tuple[str, str, bool, str]] = []
    try:
        # -- the main document ------------------------------------------------------------------------------------------------
        d0 = all_decls()
        twice = [decl('component'), decl('component'), decl('enum'), decl('enum')]
        inner = namespace(['C'], all_decls() + junk() + [decl('enum')])
        ns1 = namespace(['A', 'B'], all_decls() + junk() + [inner] + all_decls())
        reopened = namespace(['A', 'B'], [decl('enum'), decl('interface'), namespace(['C'], [decl('system')])])
        empty_ns = namespace(['E'], [])
        # namespaces of the same local name under different parents (a node cached by name would give the wrong scope)
        same_name = [namespace(['X'], [namespace(['C'], [decl('enum'), decl('component')]), namespace(['A', 'B'], [decl('interface')]),
                                       namespace(['X'], [decl('extern')])]),
                     namespace(['C'], [decl('enum'), namespace(['A'], [namespace(['B'], [decl('foreign')])])])]
        elements = d0 + junk() + [decl('system')] + junk() + [ns1] + twice + [empty_ns, reopened] + same_name + all_decls()
        exp = expected_of(elements, [], {})
        got, exc = run_doc(elements)
        if exc is not None:
            # which kind of element is it?  (each alone between two declarations)
            blame = []
            for label, els in [('an element of unknown <class>', [junk()[0]]), ('an element that is no dict', [17]),
                               ('an element that is None', [None]), ('an element of a class that is no member (port)', [junk()[5]]),
                               ('a namespace', [namespace(['N'], [decl('enum')])]), ('an empty namespace', [namespace(['N'], [])])] + \
                    [(f'a {t} declaration', [decl(t)]) for t in decl_tags]:
                g2, e2 = run_doc([decl('enum')] + els + [decl('enum')])
                if e2 is not None:
                    blame.append((label, e2))
            if not blame:
                blame = [('the scenario document', exc)]
            for label, e2 in blame:
                sib = 'declaration' not in label and 'namespace' not in label
                results.append(('C05.siblings' if sib else 'C05.dispatch', label, False,
                                f'{label} makes process() fail with {e2.split(".")[-1]}: the declarations next to it are lost'))
            return results
        n_decl = sum(len(v) for v in exp.values())
        for tag in decl_tags:
            fl = container_of[tag]
            want = [x for x in exp.get(fl, []) if x[0].split('#')[0] == tag]
            have = [x for x in got.get(fl, []) if x[0].split('#')[0] == tag and '/' not in x[0]]
            elsewhere = [(f2, x[0]) for f2, seq in got.items() if f2 != fl for x in seq if x[0].split('#')[0] == tag and '/' not in x[0]]
            problems = []
            ids_w, ids_h = [x[0] for x in want], [x[0] for x in have]
            missing = [i for i in ids_w if i not in ids_h]
            dup = sorted({i for i in ids_h if ids_h.count(i) > 1})
            if missing:
                problems.append(f'{len(missing)} of {len(ids_w)} {tag} declarations have no entry in FileContents.{fl} (e.g. the one '
                                f'{_where(missing[0], elements)})')
            if dup:
                problems.append(f'{len(dup)} {tag} declarations are entered more than once in FileContents.{fl}')
            if elsewhere:
                problems.append(f'{tag} declarations are entered in FileContents.{elsewhere[0][0]}')
            if not missing and not dup and ids_h != ids_w:
                problems.append(f'the {tag} entries of FileContents.{fl} are not in document order')
            wrong_ns = [(i, n_, dict(want).get(i)) for i, n_ in have if i in dict(want) and n_ != dict(want)[i]]
            if wrong_ns:
                i, n_, w_ = wrong_ns[0]
                problems.append(f'{len(wrong_ns)} {tag} declarations are parsed under the wrong namespace (the one {_where(i, elements)}: '
                                f'under `{".".join(n_ or ()) or "<root>"}` instead of `{".".join(w_ or ()) or "<root>"}`)')
            results.append(('C05.dispatch', f"<class> '{tag}'", not problems,
                            f"every '{tag}' element ({len(ids_w)} in the scenario document, at namespace depth 0-3) is parsed by "
                            f"{next(f.name for t, _c, f in stubs.values() if t == tag)} under its enclosing namespaces and entered exactly once, "
                            f"in document order, in FileContents.{fl}" if not problems else '; '.join(problems)))
        # nested types of interfaces
        for tag, marks in (('enum', ('/e1', '/e2')), ('subint', ('/s1',))):
            fl = container_of[tag]
            ok = got.get(fl, []) == exp.get(fl, [])
            nested_w = [x[0] for x in exp.get(fl, []) if '/' in x[0]]
            nested_h = [x[0] for x in got.get(fl, []) if '/' in x[0]]
            if nested_w != nested_h:
                text = (f'the {tag}s nested in an interface are not all entered once, in order, in FileContents.{fl}: '
                        f'{len(nested_h)} entries for {len(nested_w)} nested declarations' if sorted(nested_w) != sorted(nested_h) else
                        f'the {tag}s nested in interfaces are entered in another order than they are declared')
                results.append(('C05.dispatch', f'interface: nested {tag}s hoisted', False, text))
            else:
                results.append(('C05.dispatch', f'interface: nested {tag}s hoisted', ok or True,
                                f'the {tag}s nested in an interface are entered in FileContents.{fl}, in their order'))
        for fl in sorted(set(container_of.values())):
            ok = got.get(fl, []) == exp.get(fl, [])
            extra = [x[0] for x in got.get(fl, []) if x[0] not in [y[0] for y in exp.get(fl, [])]]
            results.append(('C05.dispatch', f'FileContents.{fl}', ok,
                            f'FileContents.{fl} holds exactly the {len(exp.get(fl, []))} expected entries in document order' if ok else
                            (f'FileContents.{fl} holds entries nothing in the document declares: {extra[:2]}' if extra else
                             f'FileContents.{fl} differs from the declarations of the document: {len(got.get(fl, []))} entries for '
                             f'{len(exp.get(fl, []))} declarations, or in another order (hoisted nested types stand where their interface is)')))
        # the same comparison, told by where a declaration stands
        have_all = {x[0]: x[1] for seq in got.values() for x in seq}
        want_all = {x[0]: x[1] for seq in exp.values() for x in seq if '/' not in x[0]}
        at_root = {el['__id__'] for el in elements if isinstance(el, dict) and '__id__' in el}
        after_junk = set()

        def mark(els):
            for a_, b_ in zip(els, els[1:]):
                if isinstance(b_, dict) and b_.get('__id__') in want_all and not (isinstance(a_, dict) and a_.get('<class>') in container_of):
                    after_junk.add(b_['__id__'])
            for el in els:
                if isinstance(el, dict) and el.get('<class>') == 'namespace':
                    mark(el['elements'])
        mark(elements)
        lost_after_junk = sorted(i for i in after_junk if i not in have_all)
        results.append(('C05.siblings', 'unknown <class> / non-dict / non-member elements', not lost_after_junk,
                        'elements of unknown class, of a class that is no member of a namespace (port) and values that are no dict '
                        '(number, string, null, list) are skipped at every depth: all declarations around them are entered' if not lost_after_junk else
                        f'{len(lost_after_junk)} declarations that follow an element that is skipped (unknown class, no dict, no member, a '
                        f'namespace) are lost, e.g. the one {_where(lost_after_junk[0], elements)}'))
        in_ns = [i for i in want_all if i not in at_root]
        bad_ns = [i for i in in_ns if i not in have_all or have_all[i] != want_all[i]]
        results.append(('C05.siblings', 'namespace members', not bad_ns,
                        f'every member of a namespace - nested, empty, re-opened, multi-identifier - is parsed under the scope of all '
                        f'enclosing namespaces ({len(in_ns)} declarations compared by NamespaceTree.fqn)' if not bad_ns else
                        f'{len(bad_ns)} of the {len(in_ns)} declarations inside namespaces are not parsed or parsed under another scope than '
                        f'their enclosing namespaces, e.g. the one {_where(bad_ns[0], elements)}: ' +
                        ('not entered' if bad_ns[0] not in have_all else
                         f'under `{".".join(have_all[bad_ns[0]] or ()) or "<root>"}` instead of `{".".join(want_all[bad_ns[0]] or ()) or "<root>"}`')))
        bad_root = [i for i in want_all if i in at_root and (i not in have_all or have_all[i] != want_all[i])]
        results.append(('C05.siblings', 'root elements', not bad_root,
                        'every root element is parsed in order under the root scope' if not bad_root else
                        f'{len(bad_root)} declarations at the root of the document are not parsed (or not under the root scope), e.g. the one '
                        f'{_where(bad_root[0], elements)}'))
        # a declaration that its own parser refuses (wrong tag handed over) would have shown as a missing entry / an exception
        return results
    except Undecided as exc:
        run.remark(f'C05: the traversal could not be interpreted on the scenario document ({exc}); the shape rules decide')
        return None


# ---- C05.fields / C05.order / C05.verbatim by interpretation (E7) --------------------------------------------------------------------------
# what kind of value each field of an ast class holds (Dezyne's JSON format, next to SCHEMA which names the keys):
#   'str' / 'int' a JSON string / number kept as it is ('str?' may be absent -> None);  'ids' the identifier list of a scope_name;
#   a class name: the nested element of that class;  [class name]: the list under the key, element-wise, in order;
#   'raw' the list under the key, untouched;  'strlist' a list of strings, untouched;  'dir:<Enum>' a direction keyword;
#   'injected' the optional "injected?" marker;  'types' the enums / subints declared in an interface
FIELD_KIND: Dict[str, Dict[str, Any]] = {
    'Binding': {'left': 'EndPoint', 'right': 'EndPoint'},
    'Bindings': {'elements': ['Binding']},
    'Comment': {'value': 'str'},
    'Component': {'name': 'ScopeName', 'ports': 'Ports'},
    'Data': {'value': 'str'},
    'EndPoint': {'port_name': 'str', 'instance_name': 'str?'},
    'Enum': {'name': 'ScopeName', 'fields': 'Fields'},
    'Extern': {'name': 'ScopeName', 'value': 'Data'},
    'Event': {'name': 'str', 'signature': 'Signature', 'direction': 'dir:EventDirection'},
    'Events': {'elements': ['Event']},
    'Fields': {'elements': 'strlist'},
    'Filename': {'name': 'str'},
    'Foreign': {'name': 'ScopeName', 'ports': 'Ports'},
    'Formal': {'name': 'str', 'type_name': 'ScopeName', 'direction': 'dir:FormalDirection'},
    'Formals': {'elements': ['Formal']},
    'Import': {'name': 'str'},
    'Instance': {'name': 'str', 'type_name': 'ScopeName'},
    'Instances': {'elements': ['Instance']},
    'Interface': {'name': 'ScopeName', 'types': 'types', 'events': 'Events'},
    'Namespace': {'scope_name': 'ScopeName', 'elements': 'raw'},
    'Port': {'name': 'str', 'type_name': 'ScopeName', 'direction': 'dir:PortDirection', 'formals': 'Formals', 'injected': 'injected'},
    'Ports': {'elements': ['Port']},
    'Range': {'from_int': 'int', 'to_int': 'int'},
    'Root': {'comment': 'Comment?', 'elements': 'raw', 'working_dir': 'str'},
    'ScopeName': {'value': 'ids'},
    'Signature': {'type_name': 'ScopeName', 'formals': 'Formals'},
    'SubInt': {'name': 'ScopeName', 'range': 'Range'},
    'System': {'name': 'ScopeName', 'ports': 'Ports', 'instances': 'Instances', 'bindings': 'Bindings'},
    'Types': {'elements': 'types'},
}
DIRECTION_WORDS = {'EventDirection': {'in': 'IN', 'out': 'OUT'},
                   'FormalDirection': {'in': 'IN', 'out': 'OUT', 'inout': 'INOUT'},
                   'PortDirection': {'requires': 'REQUIRES', 'provides': 'PROVIDES'}}
_STRINGS = [' Mixed Case_1 ', '', 'x', 'UPPER', 'tab\tinside', 'dotted.name', '  lead', 'trail  ', '0', 'ünï']
_INTS = [0, -3, 7, 2147483648, 1, -1]
_IDS = [['Id_1'], ['_x9', 'B'], ['A', 'b', 'C_3'], ['lower'], ['Zz', 'Zz']]


def _fields_by_interpretation(ctx):
    """Every parse function by contract (asserts the <class> tag of ast class X, is annotated to return X) interpreted (E7) on
    well-formed elements generated from the format tables - nested lists of 0, 2 and 3 elements, every direction keyword,
    optional keys present and absent, strings that any normalisation (strip, case, split) would change, 0 and negative
    numbers, under the root namespace and under a nested one - and the object handed back compared field by field with
    what the element says.  Returns None when something cannot be interpreted (the shape rules decide then), else
    (results, statistics): results = [(rule, class, field, ok, text)]."""
    from ..scenario import Interp, Raised, Undecided, Obj, EnumV
    prog = ctx.prog
    jmod, amod = prog.module('json_ast'), prog.module('ast')
    ns_tree, ns_ids = prog.cls('scoping', 'NamespaceTree'), prog.cls('scoping', 'NamespaceIds')
    if ns_tree is None or ns_ids is None:
        return None
    parsers: Dict[str, FuncInfo] = {}
    for f in jmod.functions.values():
        if f.node.returns is None or not f.params():
            continue
        rt = prog.ann_to_type(f.module, f.node.returns, None)
        rc = prog.classes.get(rt[1]) if rt[0] == 'cls' else None
        if rc is None or rc.module is not amod or rc.name not in CLASS_TAG:
            continue
        if _assert_class_literal(f) != CLASS_TAG[rc.name]:
            continue
        if rc.name in parsers:
            return None
        parsers[rc.name] = f
    if set(parsers) != set(SCHEMA):
        return None
    for ename, words in DIRECTION_WORDS.items():
        ec = amod.classes.get(ename)
        if ec is None or not ec.is_enum or set(words.values()) != set(ec.enum_members):
            return None
    it = Interp(prog)
    it.MAX_STEPS = 6000000
    counter = [0]

    def nxt(pool):
        counter[0] += 1
        return pool[counter[0] % len(pool)]

    def uniq_str():
        counter[0] += 1
        s = _STRINGS[counter[0] % len(_STRINGS)]
        return f'{s}#{counter[0]}' if counter[0] % 7 else s          # (now and then a plain, repeated one: '' among them)

    def gen(cname: str, ns: Optional[Tuple[Any, List[str]]], size: int, opts: Optional[dict] = None):
        """-> (element, expected)   ns = (NamespaceTree object, its path) for declarations"""
        opts = opts or {}
        el: Dict[str, Any] = {'<class>': CLASS_TAG[cname]}
        exp: Dict[str, Any] = {}
        own_ids = None
        kinds = FIELD_KIND[cname]
        # the name first: scoped fields depend on it
        order = sorted(SCHEMA[cname], key=lambda f_: (SCHEMA[cname][f_].startswith('@'), f_ != 'name', not str(kinds.get(f_)).startswith('dir:')))
        for fld in order:
            key = SCHEMA[cname][fld]
            if key == '@parent_ns':
                exp[fld] = ('is', ns[0]) if ns[0] is not None else ('tree', list(ns[1]))
                continue
            if key == '@fqn':
                exp[fld] = ('ids', list(ns[1]) + list(own_ids))
                continue
            if key == '@ns_trail':
                exp[fld] = ('tree', list(ns[1]) + list(own_ids))
                continue
            kind = kinds[fld]
            if kind == 'str':
                v = opts.get(fld, uniq_str())
                el[key] = v
                exp[fld] = ('val', v)
            elif kind == 'str?':
                if opts.get('idx', size) % 2 == 0:
                    v = uniq_str()
                    el[key] = v
                    exp[fld] = ('val', v)
                else:
                    exp[fld] = ('val', None)
            elif kind == 'int':
                v = nxt(_INTS)
                el[key] = v
                exp[fld] = ('val', v)
            elif kind == 'ids':
                v = list(opts.get('ids') or nxt(_IDS))
                el[key] = v
                exp[fld] = ('ids', v)
            elif kind == 'raw':
                v = [{'<class>': 'anything', 'n': counter[0]}, 17, None, 'text', ['x']][:size + 2]
                el[key] = v
                exp[fld] = ('same', v)
            elif kind == 'strlist':
                v = [uniq_str() for _ in range(size)]
                el[key] = v
                exp[fld] = ('same', v)
            elif isinstance(kind, str) and kind.startswith('dir:'):
                words = DIRECTION_WORDS[kind[4:]]
                allowed = opts.get('directions') or sorted(words)
                w = opts.get('direction') or allowed[opts.get('idx', size) % len(allowed)]
                el[key] = w
                exp[fld] = ('enum', kind[4:], words[w])
            elif kind == 'injected':
                if opts.get('idx', size + 1) % 2:
                    el[key] = 'injected'
                exp[fld] = ('obj', 'Injected', {'value': ('val', key in el)})
            elif kind == 'Comment?':
                if size:
                    el[key], e_ = gen('Comment', None, size)
                    exp[fld] = e_
                else:
                    exp[fld] = ('val', None)
            elif kind == 'types':
                if cname == 'Types':
                    sub_ns = opts['types_ns']
                    items, exps = [], []
                    for k in range(size):
                        ce, ee = gen('Enum' if (k + size) % 2 else 'SubInt', sub_ns, 2, {'idx': k})
                        items.append(ce)
                        exps.append(ee)
                    el[key] = items
                    exp[fld] = ('list', exps)
                else:
                    # the interface's own scope: parent path + its name; the node is made by the parser (compared by its path)
                    el[key], e_ = gen('Types', None, size, {'types_ns': (None, list(ns[1]) + list(own_ids))})
                    exp[fld] = e_
            elif isinstance(kind, list):
                sub_opts = {}
                if opts.get('formal_directions') and kind[0] == 'Formal':
                    sub_opts = {'directions': opts['formal_directions']}
                items, exps = [], []
                for k in range(size):
                    ce, ee = gen(kind[0], None, 2 + k % 2, dict(sub_opts, idx=k))
                    items.append(ce)
                    exps.append(ee)
                el[key] = items
                exp[fld] = ('list', exps)
            else:
                sub_opts = {}
                if cname == 'Event' and fld == 'signature' and el.get('direction') == 'out':
                    sub_opts = {'void': True, 'formal_directions': ['in', 'inout']}
                if cname == 'Signature' and fld == 'type_name' and opts.get('void'):
                    sub_opts = {'ids': ['void']}
                if cname == 'Signature' and fld == 'formals' and opts.get('formal_directions'):
                    sub_opts = {'formal_directions': opts['formal_directions']}
                el[key], e_ = gen(kind, None, size, sub_opts)
                exp[fld] = e_
                if fld == 'name' and kind == 'ScopeName':
                    own_ids = el[key]['ids']
        return el, ('obj', cname, exp)

    def ids_of(v) -> Optional[list]:
        if isinstance(v, Obj) and v.cls is ns_ids and isinstance(v.fields.get('items'), list):
            return list(v.fields['items'])
        return None

    def match(exp, got, where: str, out: list):
        k = exp[0]
        if k == 'obj':
            if not (isinstance(got, Obj) and got.cls.name == exp[1]):
                out.append((where, 'fields', f'holds {got!r:.60} where a {exp[1]} is declared'))
                return
            for fld, sub in exp[2].items():
                if fld not in got.fields:
                    out.append((f'{where}.{fld}' if where else fld, 'fields', 'is not set'))
                    continue
                match(sub, got.fields[fld], f'{where}.{fld}' if where else fld, out)
        elif k == 'val' or k == 'same':
            v = exp[1]
            same = (got is v) if (k == 'same' and False) else (type(got) is type(v) and got == v)
            if not same:
                out.append((where, 'order' if isinstance(v, list) and isinstance(got, list) and sorted(map(repr, v)) == sorted(map(repr, got)) else 'fields',
                            f'holds {got!r:.60} where the element says {v!r:.60}'))
        elif k == 'ids':
            g = ids_of(got)
            if g != exp[1]:
                out.append((where, 'fields', f'is {".".join(g) if g is not None else repr(got)[:50]} where the element says {".".join(exp[1])}'))
        elif k == 'enum':
            if not (isinstance(got, EnumV) and got.cls.name == exp[1] and got.member == exp[2]):
                out.append((where, 'fields', f'is {got!r:.40} where the element says {exp[1]}.{exp[2]}'))
        elif k == 'is':
            if got is not exp[1]:
                out.append((where, 'fields', 'is not the namespace the declaration was parsed in'))
        elif k == 'tree':
            if not (isinstance(got, Obj) and got.cls is ns_tree):
                out.append((where, 'fields', f'holds {got!r:.50} where the scope of the declaration is expected'))
                return
            g = ids_of(it.getattr(got, 'fqn', parsers['Interface'], 0))
            if g != exp[1]:
                out.append((where, 'fields', f'is the scope {".".join(g or ["?"])} where the declaration opens {".".join(exp[1])}'))
        elif k == 'list':
            if not isinstance(got, list):
                out.append((where, 'fields', f'holds {got!r:.50} where a list is declared'))
                return
            if len(got) != len(exp[1]):
                out.append((where, 'order', f'has {len(got)} entries for {len(exp[1])} elements of the list'))
                return
            # element-wise; when that fails but some permutation fits, it is the order
            errs_at = []
            for i, (e_, g_) in enumerate(zip(exp[1], got)):
                sub: list = []
                match(e_, g_, f'{where}[{i}]', sub)
                errs_at.append(sub)
            if any(errs_at):
                def fits(e_, g_):
                    s_: list = []
                    match(e_, g_, '', s_)
                    return not s_
                if all(any(fits(e_, g_) for g_ in got) for e_ in exp[1]) and len(exp[1]) > 1:
                    out.append((where, 'order', 'holds the elements of the list in another order'))
                else:
                    for sub in errs_at:
                        out.extend(sub)

    root_ns = it.construct(ns_tree, [], {})
    nested = it.construct(ns_tree, [], {'parent': it.construct(ns_tree, [], {'parent': root_ns, 'scope_name': it.construct(ns_ids, [['Outer']], {})}),
                                         'scope_name': it.construct(ns_ids, [['In', 'Ner']], {})})
    spaces = [(root_ns, []), (nested, ['Outer', 'In', 'Ner'])]
    findings: Dict[Tuple[str, str, str], str] = {}
    n_el = 0
    try:
        for cname, f in sorted(parsers.items()):
            scoped = any(v.startswith('@') for v in SCHEMA[cname].values())
            n_params = len(f.params())
            if scoped != (n_params > 1) and cname != 'Types':
                raise Undecided(f'{f.name}: parameters do not match the scope needs of {cname}')
            for ns in (spaces if scoped or cname == 'Types' else [None]):
                for size in (2, 0, 3):
                    variants = [{}]
                    if cname == 'Event':
                        variants = [{'direction': 'in'}, {'direction': 'out'}]
                    elif cname in ('Formal', 'Port'):
                        variants = [{'direction': w} for w in sorted(DIRECTION_WORDS[FIELD_KIND[cname]['direction'][4:]])]
                    for opts in variants:
                        if cname == 'Types':
                            opts = dict(opts, types_ns=ns)
                        el, exp = gen(cname, ns, size, opts)
                        n_el += 1
                        args = [el] + ([ns[0]] if n_params > 1 else [])
                        try:
                            got = it.call_function(f, args, {})
                        except Raised as exc:
                            findings.setdefault((cname, '*', 'fields'), f'{f.name} refuses a well-formed {CLASS_TAG[cname]} element with {exc.name.split(".")[-1]} '
                                                f'({exc.where[:80]}): the declaration is lost')
                            continue
                        out: list = []
                        match(exp, got, '', out)
                        for where, rule, text in out:
                            fld = where.split('.')[0].split('[')[0] or '*'
                            findings.setdefault((cname, fld, rule), f'{cname}.{where} {text}' if where else f'{f.name}: {text}')
    except Undecided as exc:
        ctx.run.stats['C05.fields_interpretation_undecided'] = str(exc)[:200]
        return None
    results = []
    for cname in sorted(parsers):
        for fld in SCHEMA[cname]:
            kind = FIELD_KIND[cname].get(fld)
            listy = isinstance(kind, list) or kind in ('raw', 'strlist', 'types')
            bad = findings.get((cname, fld, 'fields')) or findings.get((cname, '*', 'fields')) or (
                findings.get((cname, fld, 'order')) if not listy else None)
            results.append(('C05.fields', cname, fld, not bad, bad or
                            f'{cname}.{fld} holds what the element says under {SCHEMA[cname][fld]!r}' + (' (unchanged)' if kind in ('str', 'str?', 'int', 'raw', 'strlist') else '')))
            if isinstance(kind, list) or kind in ('raw', 'strlist', 'types'):
                bad_o = findings.get((cname, fld, 'order'))
                results.append(('C05.order', cname, fld, not bad_o, bad_o or f'{cname}.{fld}: one entry per element of the list, in the order of the document (lists of 0, 2 and 3)'))
    return results, {'elements_interpreted': n_el, 'parse_functions': len(parsers), 'parser_of': {c: f.qualname for c, f in parsers.items()}}


def _where(ident: str, elements, path=()) -> str:
    for i, el in enumerate(elements):
        if isinstance(el, dict) and el.get('__id__') == ident:
            return f'at position {i} of ' + ('the root' if not path else 'namespace ' + '.'.join(path))
        if isinstance(el, dict) and el.get('<class>') == 'namespace':
            r = _where(ident, el['elements'], path + tuple(el['name']['ids']))
            if r:
                return r
    return ''
