"""C15 - the parser rejects malformed input only with its documented errors.

Decides: C15.typestate (no operation other than comparison / isinstance / formatting / storing / handing to
checking code is applied to an unchecked JSON value), C15.escape (exceptions escaping process() and the
parse_* functions are DznJsonError or NamespaceIdsTypeError), C15.ids (identifier lists become NamespaceIds
only through the validating constructor path; empty lists are refused first), C15.outevent (both out-event
rejections dominate the only construction of Event), C15.terminates.
"""
from __future__ import annotations

import ast
from typing import List, Optional

from ..model import FuncInfo, ClassInfo, iter_own_nodes, strip_opt
from ..absval import Abs
from ..exceptions import ExcAnalysis
from ..mutation import Mutations
from ..termination import Termination
from ..jsonstate import JsonTypestate, U
from ..flow import always_raises, atomic_facts
from .shared import install_find_hooks


def parser_entries(ctx) -> List[FuncInfo]:
    prog = ctx.prog
    jmod = prog.module('json_ast')
    parser = prog.cls('json_ast', 'DznJsonAst')
    out = [m for n, m in parser.methods.items() if n in ('process', 'parse_element')]
    if len(out) != 2:
        from ..report import AnalysisError
        raise AnalysisError('DznJsonAst.process / parse_element vanished')
    out += [f for n, f in jmod.functions.items() if n.startswith('parse_') or n == 'get_class_value']
    return out


def check(ctx):
    run, prog, cg = ctx.run, ctx.prog, ctx.cg
    run.explanation = (
        'Decided: C15.typestate - typestate of decoded JSON values over json_ast.py: a value is unchecked until a '
        'dominating isinstance test; children of checked containers are unchecked again; only comparison, isinstance, '
        'truthiness, formatting, storing and handing to checking code are allowed on unchecked values; C15.escape - '
        'exception-escape analysis (E3a) from process(), parse_element and every parse_* function: escaping classes '
        'are the documented pair; C15.ids - ScopeName values come only from the validating NamespaceIds constructor '
        'path and empty identifier lists are refused first; C15.outevent - the two out-event rejections dominate the '
        'only construction of Event, with the right polarity; C15.terminates - recursion only on sub-elements. Not '
        'decided: RecursionError on very deep (finite) nesting (orjson admits 1024 levels, the interpreter limit can '
        'be hit near 500 nested namespaces); non-JSON bytes (orjson.JSONDecodeError) are outside the statement.')
    run.assume('input model: any value orjson.loads can return (dict, list, str, int, float, bool, None, nested)')
    run.assume('formatting an arbitrary value into the message of an exception that is being raised does not itself raise')
    run.assume('dict keys produced by orjson are str; str / int / bool / None values support ==, truthiness and '
               'formatting without raising')
    run.trusted = ['python ast module', 'dznverif E1/E2', 'dznverif E3a exception escape', 'dznverif E3e JSON typestate']

    entries = parser_entries(ctx)
    abs_ = Abs(prog, cg, ctx.flow)
    install_find_hooks(ctx, abs_)
    ex = ExcAnalysis(prog, cg, ctx.flow, abs_)
    ex.trust_untyped = False      # the parser's input is untrusted: an unknown static type proves nothing
    ex.entry_fqs = {e.fq for e in entries}
    reach = cg.reachable(entries)
    js = JsonTypestate(prog, cg, ctx.flow, abs_)
    run.stats['typestate_iterations'] = js.solve()

    def json_formatted(fn, _callee, cnode, kind):
        # str(x) / f'{x}' of a value of unknown static type reaches every __str__ of the package - unless x is a decoded
        # JSON value (dict / list / str / number / bool / None): those are formatted by the builtins
        if not kind.endswith('-any'):
            return False
        e = cnode.value if isinstance(cnode, ast.FormattedValue) else cnode.args[0] if isinstance(cnode, ast.Call) and cnode.args \
            else None
        return e is not None and fn.module is js.mod and js.state(fn, e, cnode) is not None

    ex.skip_edge = json_formatted
    iters = ex.solve(reach)
    run.stats['entry_points'] = len(entries)
    run.stats['reachable_functions'] = len(reach)
    run.stats['escape_fixpoint_iterations'] = iters

    # the documented pair: exception classes defined in json_ast and scoping
    documented = sorted(c.fq for c in prog.classes.values() if c.is_exception and
                        c.module.name in ('dznpy.json_ast', 'dznpy.scoping'))
    run.stats['documented_errors'] = [d.split('.')[-1] for d in documented]
    if len(documented) != 2:
        run.error('C15.escape', '-', '-', 'documented error pair', f'expected 2 exception classes, found {documented}')

    def allowed(exc: str) -> bool:
        return any(ex.is_sub(exc, d) for d in documented)

    # ---- C15.escape -------------------------------------------------------------------------------------------------
    escaping = {}
    for e in entries:
        for (exc, oid), (o, chain) in ex.escapes[e.fq].items():
            escaping.setdefault(oid, (exc, o, chain, e))
        for cr in ex.cond[e.fq]:
            escaping.setdefault(cr.origin.ident, (cr.exc, cr.origin, cr.chain, e))
    n_ob = 0
    for fq, obs in ex.obligations.items():
        for o in obs:
            n_ob += 1
            fn = o.fn
            if o.explicit and allowed(o.exc):
                run.holds('C15.escape', fn.module.name, fn.qualname, o.node,
                          f'raises documented error {o.exc.split(".")[-1]}', node=o.node, nontrivial=False)
            elif o.discharged:
                run.holds('C15.escape', fn.module.name, fn.qualname, o.node, f'{o.kind} ({o.exc}): {o.discharged}',
                          node=o.node)
            elif o.ident in escaping and not allowed(escaping[o.ident][0]):
                exc, _o, chain, entry = escaping[o.ident]
                # typed validators on entry parameters: the annotation of a public parse function is the caller's
                # obligation only for non-JSON parameters (parent_ns); JSON parameters are judged by the typestate
                run.violation('C15.escape', fn.module.name, fn.qualname, o.node,
                              f'{exc} may escape {entry.qualname} - not a documented parser error: {o.text} | path: '
                              + ' => '.join(chain[:6]), node=o.node)
            else:
                run.holds('C15.escape', fn.module.name, fn.qualname, o.node,
                          f'{o.kind} ({o.exc}): refuted at every call site / caught / documented', node=o.node)
    for f, n, nm in ex.unresolved_calls:
        run.error('C15.escape', f.module.name, f.qualname, n, f'call of `{nm}` could not be resolved', node=n)
    run.stats['obligations_total'] = n_ob
    run.floor('C15.escape', 40)

    # ---- C15.typestate ------------------------------------------------------------------------------------------------
    run.stats['json_param_sources'] = sorted(f'{k[0].split(":")[-1]}({k[1]})' for k, v in js.param_state.items() if v == U)
    run.stats['getter_result_states'] = {k.split(':')[-1]: v for k, v in sorted(js.ret_state.items())}
    run.stats['raw_json_fields'] = {f'{k[0].split(".")[-1]}.{k[1]}': v for k, v in sorted(js.field_state.items())}
    for fn, node, op, st, ok, why in js.uses:
        run.add('C15.typestate', fn.module.name, fn.qualname, node, ok,
                f'[{st}] {op}: {why}', node=node, nontrivial=(op != 'benign'))
    # the typed getters themselves, by interpretation (E7): whatever is not a value of the requested type is refused with
    # DznJsonError - null, a fraction, a container of the other kind - and never handed back to the caller
    from .shared import getters_by_interpretation
    gi = getters_by_interpretation(ctx)
    if gi is not None:
        probs, n_eval = gi
        eh_ = prog.cls('json_ast', 'ElementHelper')
        for g in sorted({g for g, _k, _t in probs} | {m for m in eh_.methods if m.endswith('_value')}):
            mine = [t for g2, k, t in probs if g2 == g and k == 'leak']
            run.add('C15.typestate', eh_.module.name, f'ElementHelper.{g}', f'{g}: present / absent x 13 kinds of value', not mine,
                    f'{g} refuses every value that is not of its type (null included) with DznJsonError' if not mine else '; '.join(mine[:2]))
        run.stats['getters_decided_by'] = f'interpretation of the ElementHelper getters on {n_eval} elements (E7)'
    run.floor('C15.typestate', 60)
    # the getters really check before returning: their result states must be the checked ones
    eh = prog.cls('json_ast', 'ElementHelper')
    want = {'tryget_str_value': 'S', 'get_str_value': 'S', 'tryget_dict_value': 'D', 'get_dict_value': 'D',
            'get_int_value': 'I', 'get_list_value': 'L'}
    for name, st in want.items():
        m = eh.methods.get(name)
        if m is None:
            run.error('C15.typestate', eh.module.name, 'ElementHelper', name, f'getter {name} vanished')
            continue
        got = js.ret_state.get(m.fq)
        run.add('C15.typestate', m.module.name, m.qualname, f'{name} result state', got == st,
                f'{name} returns a value checked as {st}' if got == st else
                f'{name} returns a value in state {got}: the type test before the return is missing or wrong')

    # ---- C15.ids ---------------------------------------------------------------------------------------------------------
    _ids_rule(ctx, abs_)

    # ---- C15.outevent ------------------------------------------------------------------------------------------------------
    if not _outevent_by_interpretation(ctx):
        _outevent_rule(ctx, abs_)

    # ---- C15.terminates ----------------------------------------------------------------------------------------------------
    mut = Mutations(prog, cg)
    mut.solve()
    term = Termination(prog, cg, ctx.flow, mut, abs_)
    for fn, node, callee, ok, msg in term.recursion_instances(reach):
        run.add('C15.terminates', fn.module.name, fn.qualname, node, ok, f'recursive call of {callee.qualname}: {msg}',
                node=node)
    for fn, node, kind, ok, msg in term.loop_instances(reach):
        run.add('C15.terminates', fn.module.name, fn.qualname, node if kind != 'for' else node.iter, ok, msg,
                node=node, nontrivial=(kind != 'for'))
    run.floor('C15.terminates', 5)


def _outevent_by_interpretation(ctx) -> bool:
    """parse_event interpreted (dznverif.scenario, E7) on every event element shape that matters for the two refusals:
    direction in / out  x  reply type void / a named type  x  formals: none, in, out, inout, in + out, inout + in.  An out
    event must be refused with DznJsonError exactly when its reply is not void or one of its formals is `out`; everything
    else must parse.  The element is well-formed JSON in every other respect (malformed elements are the business of
    C15.escape / C15.typestate).  False when parse_event cannot be interpreted: the guard-shape rule decides then."""
    from ..scenario import Interp, Raised, Undecided, Obj
    run, prog = ctx.run, ctx.prog
    pe = prog.func('json_ast', 'parse_event')
    err = prog.classes.get('dznpy.json_ast.DznJsonError')
    # who may construct an Event: only parse_event (and what it calls) - another construction site in the parser is judged by
    # the guard-shape rule, which wants the two refusals after every construction
    evc = prog.cls('ast', 'Event')
    allowed = {pe.fq} | {c.fq for c in ctx.cg.reachable([pe])}
    for f_ in prog.all_functions():
        if f_.module is pe.module and f_.fq not in allowed:
            for c_ in iter_own_nodes(f_.node):
                if isinstance(c_, ast.Call) and isinstance(c_.func, (ast.Name, ast.Attribute)) and \
                        prog.resolve_expr_symbol(f_.module, c_.func) is evc:
                    return False

    def scope_name(ids):
        return {'<class>': 'scope_name', 'ids': list(ids)}

    def formal(name, direction):
        return {'<class>': 'formal', 'name': name, 'type_name': scope_name(['int']), 'direction': direction}
    bad: List[str] = []
    n = 0
    try:
        for direction in ('in', 'out'):
            for reply in (['void'], ['Result'], ['My', 'Result']):
                for fdirs in ((), ('in',), ('out',), ('inout',), ('in', 'out'), ('inout', 'in'), ('out', 'out')):
                    el = {'<class>': 'event', 'name': 'Ev', 'direction': direction,
                          'signature': {'<class>': 'signature', 'type_name': scope_name(reply),
                                        'formals': {'<class>': 'formals', 'elements': [formal(f'p{i}', d_) for i, d_ in enumerate(fdirs)]}}}
                    n += 1
                    must_refuse = direction == 'out' and (reply != ['void'] or 'out' in fdirs)
                    label = f'{direction} event, reply {".".join(reply)}, formals {list(fdirs)}'
                    try:
                        res = Interp(prog).call_function(pe, [el], {})
                        if must_refuse:
                            bad.append(f'{label}: accepted')
                        elif not isinstance(res, Obj):
                            raise Undecided('parse_event does not return an Event')
                    except Raised as exc:
                        c = prog.classes.get(exc.name)
                        is_doc = c is not None and err is not None and (c is err or prog.is_subclass(c.fq, err.fq))
                        if not must_refuse:
                            bad.append(f'{label}: refused with {exc.name.split(".")[-1]} although it is valid')
                        elif not is_doc:
                            bad.append(f'{label}: refused with {exc.name.split(".")[-1]}, not DznJsonError')
    except Undecided as exc:
        run.remark(f'C15: parse_event could not be interpreted on the out-event scenarios ({exc}); the guard-shape rule decides')
        return False
    voids = [b for b in bad if 'reply void' not in b and 'accepted' in b]
    run.add('C15.outevent', pe.module.name, pe.qualname, f'{n} event shapes: valued out events', not [b for b in bad if 'reply void' not in b],
            'an out event whose reply is not void is refused with DznJsonError; in events with a reply parse' if not [b for b in bad if 'reply void' not in b]
            else 'out event with a non-void reply: ' + '; '.join([b for b in bad if 'reply void' not in b][:2]))
    rest = [b for b in bad if 'reply void' in b]
    run.add('C15.outevent', pe.module.name, pe.qualname, f'{n} event shapes: out parameters of out events', not rest,
            'an out event with an out parameter is refused with DznJsonError; in / inout parameters and in events parse' if not rest else
            'out event with an out parameter: ' + '; '.join(rest[:2]))
    return True


def _ids_by_interpretation(ctx) -> bool:
    """parse_scope_name interpreted (dznverif.scenario, E7) on a scope_name element whose `ids` are: absent, no list, an empty
    list, valid identifiers, a list with an invalid identifier / a non-string.  An empty list and a value that is no list are
    refused with DznJsonError, an invalid identifier with NamespaceIdsTypeError (or DznJsonError), valid lists give a
    ScopeName with exactly those identifiers.  False when not interpretable (the dominance rule decides then)."""
    from ..scenario import Interp, Obj, Raised, Undecided
    run, prog = ctx.run, ctx.prog
    ps = prog.try_func('json_ast', 'parse_scope_name')
    err = prog.classes.get('dznpy.json_ast.DznJsonError')
    ide = prog.classes.get('dznpy.scoping.NamespaceIdsTypeError')
    if ps is None or err is None or ide is None:
        return False
    bad: List[str] = []
    cases = [('no ids key', NotImplemented, 'json'), ('ids null', None, 'json'), ('ids a string', 'a', 'json'), ('ids an object', {'a': 1}, 'json'),
             ('an empty list', [], 'json'), ('one identifier', ['a'], ['a']), ('three identifiers', ['a', 'b2', '_c'], ['a', 'b2', '_c']),
             ('an invalid identifier', ['a', '1b'], 'id'), ('an identifier with a dot', ['a.b'], 'id'), ('an empty identifier', ['a', ''], 'id'),
             ('a number among the identifiers', ['a', 5], 'id'), ('null among the identifiers', [None], 'id')]
    try:
        for label, ids, want in cases:
            el = {'<class>': 'scope_name'}
            if ids is not NotImplemented:
                el['ids'] = ids
            try:
                res = Interp(prog).call_function(ps, [el], {})
                raised = None
            except Raised as exc:
                res, raised = None, exc.name
            is_json = raised is not None and raised in prog.classes and prog.is_subclass(raised, err.fq)
            is_id = raised is not None and raised in prog.classes and prog.is_subclass(raised, ide.fq)
            if want == 'json':
                if not is_json:
                    bad.append(f'{label}: ' + ('accepted' if raised is None else f'raises {raised.split(".")[-1]}') + ', DznJsonError expected')
            elif want == 'id':
                if not (is_id or is_json):
                    bad.append(f'{label}: ' + ('accepted' if raised is None else f'raises {raised.split(".")[-1]}') +
                               ', the identifier-validation error expected')
            else:
                v = res.fields.get('value') if isinstance(res, Obj) else None
                items = v.fields.get('items') if isinstance(v, Obj) else None
                if raised is not None or items != want:
                    bad.append(f'{label}: ' + (f'raises {raised.split(".")[-1]}' if raised else f'parsed as {items!r}'))
    except Undecided as exc:
        run.remark(f'C15: parse_scope_name could not be interpreted ({exc}); the dominance rule decides')
        return False
    for k, what in enumerate(('empty / missing / mistyped identifier lists are refused with DznJsonError',
                              'invalid identifiers are refused by the identifier validation',
                              'valid identifier lists are kept as they are')):
        run.add('C15.ids', ps.module.name, ps.qualname, f'{len(cases)} scope_name elements ({k + 1})', not bad,
                what + ' (parse_scope_name interpreted, E7)' if not bad else '; '.join(bad[:3]))
    return True


def _ids_rule(ctx, abs_):
    run, prog = ctx.run, ctx.prog
    if _ids_by_interpretation(ctx):
        return
    jmod = prog.module('json_ast')
    sn = prog.cls('ast', 'ScopeName')
    nids = prog.cls('scoping', 'NamespaceIds')
    n = 0
    for fn in prog.all_functions():
        if fn.module is not jmod:
            continue
        env = ctx.cg.env(fn)
        for c in iter_own_nodes(fn.node):
            if isinstance(c, ast.Call) and prog.resolve_expr_symbol(fn.module, c.func) is sn:
                n += 1
                arg = c.args[0] if c.args else next((k.value for k in c.keywords if k.arg == 'value'), None)
                ok = False
                why = 'ScopeName value is not produced by the validating NamespaceIds path'
                if isinstance(arg, ast.Call):
                    callees = env.resolve_call(arg)
                    names = {x.qualname for x in callees if isinstance(x, FuncInfo)}
                    ctor = any(isinstance(x, tuple) and x[0] == 'ctor' and x[1] is nids for x in callees)
                    if names & {'ns_ids_t', 'namespaceids_t'} or ctor:
                        ok, why = True, 'identifier list goes through namespaceids_t / NamespaceIds (validated, C14.valid-ids)'
                # empty list refused before
                if ok:
                    src = arg.args[0] if arg.args else None
                    refused = False
                    if src is not None:
                        for cond, pol in abs_.facts_at(c):
                            if pol and ast.dump(cond) == ast.dump(src):
                                refused = True
                    if not refused:
                        ok, why = False, 'an empty identifier list is not refused before the ScopeName is built'
                run.add('C15.ids', fn.module.name, fn.qualname, c, ok, why, node=c)
    # no bypass of the validating constructor anywhere in the package
    for fn in prog.all_functions():
        for c in iter_own_nodes(fn.node):
            if isinstance(c, ast.Call):
                txt = ast.unparse(c.func)
                if txt in ('object.__new__', 'dataclasses.replace', 'replace', 'copy.copy') and c.args:
                    t = strip_opt(ctx.cg.env(fn).type_of(c.args[0]))
                    if t == ('cls', nids.fq) or txt == 'object.__new__':
                        run.violation('C15.ids', fn.module.name, fn.qualname, c,
                                      'NamespaceIds created without running its validating __post_init__', node=c)
    if n == 0:
        run.error('C15.ids', jmod.name, '-', 'ScopeName constructions', 'no ScopeName construction found in the parser')
    # __post_init__ of NamespaceIds validates every identifier (details: C14.valid-ids)
    post = nids.methods.get('__post_init__')
    # a regular-expression test (re.<fn>(pattern, id) or <compiled pattern>.<fn>(id)) guarding a raise; the language of
    # the pattern and its anchoring are judged by C14.valid-ids
    has_re = False
    if post is not None:
        for x in ast.walk(post.node):
            if isinstance(x, ast.Call) and isinstance(x.func, ast.Attribute) and x.func.attr in ('fullmatch', 'match'):
                recv = ctx.cg.env(post).type_of(x.func.value)
                if ast.unparse(x.func.value) == 're' or recv[0] == 'extobj':
                    has_re = True
    run.add('C15.ids', nids.module.name, 'NamespaceIds.__post_init__', 'identifier validation', has_re,
            'NamespaceIds.__post_init__ validates each identifier with a regular expression' if has_re else
            'NamespaceIds no longer validates its identifiers')


def _outevent_rule(ctx, abs_):
    run, prog = ctx.run, ctx.prog
    ev = prog.cls('ast', 'Event')
    sites = []
    for fn in prog.all_functions():
        for c in iter_own_nodes(fn.node):
            if isinstance(c, ast.Call) and prog.resolve_expr_symbol(fn.module, c.func) is ev:
                sites.append((fn, c))
    if len(sites) != 1 or sites[0][0].qualname != 'parse_event':
        for fn, c in sites or [(prog.func('json_ast', 'parse_event'), 'Event construction')]:
            run.violation('C15.outevent', fn.module.name, fn.qualname, c,
                          f'Event is constructed in {len(sites)} places; the out-event rejections guard only '
                          f'parse_event', node=c if isinstance(c, ast.AST) else None)
        if not sites:
            return
    fn, ctor = next(((f, c) for f, c in sites if f.qualname == 'parse_event'), sites[0])
    stmt = ctx.flow.enclosing_stmt(ctor)
    var = stmt.targets[0].id if isinstance(stmt, ast.Assign) and isinstance(stmt.targets[0], ast.Name) else None
    rets = [n for n in iter_own_nodes(fn.node) if isinstance(n, ast.Return) and n.value is not None]
    if var is None or not rets or any(not (isinstance(r.value, ast.Name) and r.value.id == var) for r in rets):
        run.error('C15.outevent', fn.module.name, fn.qualname, stmt,
                  'expected `evt = Event(...)` and returns of that variable only', node=stmt)
        return

    def top_of(n):
        while prog.parent(n) is not fn.node:
            n = prog.parent(n)
        return n

    def enclosing_loops(n):
        out, p_ = [], prog.parent(n)
        while p_ is not None and p_ is not fn.node:
            if isinstance(p_, (ast.For, ast.While, ast.Try, ast.With)):
                out.append(p_)
            p_ = prog.parent(p_)
        return out

    def classify(node):
        """(is_out, is_not_out, valued_test, outparam_test, extra facts) of the conditions under which node is reached."""
        is_out = is_not_out = valued = outparam = False
        extra = []
        loops = enclosing_loops(node)
        loop_vars = {l.target.id for l in loops if isinstance(l, ast.For) and isinstance(l.target, ast.Name)
                     and ast.unparse(l.iter) == f'{var}.signature.formals.elements'}
        for c, pol in atomic_facts(ctx.flow.path_conditions(node)):
            t = ast.unparse(c)
            cmp_eq = isinstance(c, ast.Compare) and isinstance(c.ops[0], (ast.Eq, ast.Is))
            cmp_ne = isinstance(c, ast.Compare) and isinstance(c.ops[0], (ast.NotEq, ast.IsNot))
            if f'{var}.direction' in t and 'EventDirection.OUT' in t and (cmp_eq or cmp_ne):
                if cmp_eq == pol:
                    is_out = True
                else:
                    is_not_out = True
                continue
            if f'{var}.direction' in t and 'EventDirection.IN' in t and (cmp_eq or cmp_ne):
                if cmp_eq == pol:
                    is_not_out = True
                else:
                    is_out = True
                continue
            if 'type_name' in t and "'void'" in t and (cmp_eq or cmp_ne):
                if cmp_ne == pol:
                    valued = True
                    continue
            if 'FormalDirection.OUT' in t and pol and any(
                    isinstance(x, ast.Compare) and isinstance(x.ops[0], (ast.Eq, ast.Is)) and 'FormalDirection.OUT' in ast.unparse(x)
                    for x in ast.walk(c)) and ('formals' in t or any(t.startswith(f'{v}.direction') for v in loop_vars)):
                outparam = True
                continue
            # the negation of an earlier rejection (we only get here when that one did not fire) weakens nothing
            if any(isinstance(g, ast.If) and always_raises(g.body) and any(x is c for x in ast.walk(g.test))
                   for g in ast.walk(fn.node)) and not any(x is node for g in ast.walk(fn.node) if isinstance(g, ast.If)
                                                            and any(y is c for y in ast.walk(g.test)) for x in ast.walk(g)):
                continue
            if isinstance(c, ast.Constant) and bool(c.value) == pol:
                continue
            extra.append((t, pol))
        return is_out, is_not_out, valued, outparam, extra, loops

    ex_name = lambda r: ast.unparse(r.exc.func if isinstance(r.exc, ast.Call) else r.exc) if r.exc else ''
    rejections = []
    for r in [n for n in iter_own_nodes(fn.node) if isinstance(n, ast.Raise) and 'DznJsonError' in ex_name(n)]:
        if r.lineno < stmt.lineno:
            continue
        rejections.append((r, classify(r)))
    n_checked = 0
    for ret in rets:
        r_out, r_not_out, _v, _o, _extra, r_loops = classify(ret)
        if r_not_out and not r_out:
            run.holds('C15.outevent', fn.module.name, fn.qualname, ret, 'return of an event known not to be an out event',
                      node=ret, nontrivial=False)
            continue
        for key, label in (('valued', 'out event with a non-void reply'), ('outparam', 'out event with an out parameter')):
            n_checked += 1
            good = None
            near = None
            for r, (is_out, _n, valued, outparam, extra, loops) in rejections:
                test = valued if key == 'valued' else outparam
                if not test:
                    continue
                near = near or r
                in_scope = is_out or r_out          # the direction is established at the raise or already at this return
                dominates = fn.node.body.index(top_of(r)) < fn.node.body.index(top_of(ret))
                loops_ok = not loops or (key == 'outparam' and all(
                    isinstance(l, ast.For) and ast.unparse(l.iter) == f'{var}.signature.formals.elements' for l in loops))
                if in_scope and dominates and loops_ok and not extra:
                    good = r
                    break
            if good is not None:
                run.holds('C15.outevent', fn.module.name, fn.qualname, top_of(good),
                          f'{label} is refused with DznJsonError before the event is returned', node=good)
            elif near is not None:
                _io, _n, _v, _o, extra, loops = dict((id(r), c) for r, c in rejections)[id(near)]
                why = ('the test is only evaluated inside a loop / handler that may not run at all (e.g. no parameters)' if loops else
                       f'the rejection additionally depends on {extra[0][0]!r}' if extra else
                       'the rejection does not precede this return')
                run.violation('C15.outevent', fn.module.name, fn.qualname, top_of(near),
                              f'the rejection of an {label} does not guard every returned out event: {why}', node=near)
            else:
                run.violation('C15.outevent', fn.module.name, fn.qualname, f'rejection: {label}',
                              f'{label} is not refused: no `raise DznJsonError` with that test between the Event construction '
                              f'and the return', node=stmt)
    if n_checked == 0:
        run.error('C15.outevent', fn.module.name, fn.qualname, 'returns', 'no return of a possibly-out event found')
    run.floor('C15.outevent', 2)
