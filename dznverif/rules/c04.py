"""C04 - a multi-client port delivers out-events only to the client holding the claim.

Decides the per-step transition shapes on the generator templates and the validation of the settings:
C04.names, C04.grant (Select only under the granting reply), C04.release (Deselect after the forwarded release),
C04.deliver (delivery under has_value() of the value obtained from CurrentClient()), C04.through-dispatcher,
C04.validate (every configuration field is consumed and each failed lookup raises MultiClientCfgError; multi-client
is restricted to MTS).  C04.selector (thorough): shapes of Select / Deselect / CurrentClient in the support header.
Behaviour over histories (sequences of claim / release / out-events) is a run-time trace property and not decided.
"""
from __future__ import annotations

import ast
from typing import Any, Dict, List, Optional

from ..model import iter_own_nodes, FuncInfo
from ..template import TStr, Hole, FqnS, Sym, Cond, TRUE
from ..links import PORT_KINDS, lex, toks_text, tok_text, find_member_calls, split_statements, match_close, selection_alias
from ..flow import always_raises
from .wiring import build_wiring, PROC
from .c01 import all_links

MOD = 'dznpy.adv_shell.core.processing'


def check(ctx):
    run, prog = ctx.run, ctx.prog
    run.explanation = (
        'Decided on the generator templates (E4) and on check_multiclient_cfg: C04.names - claim / release links are '
        'keyed by the fixture\'s events and the fixture takes them from the configured event names; C04.grant - in the '
        'claim link Select(identifier) is control-dependent on `r == <granting reply>` where r is the result of the '
        'forwarded call and the reply is the resolved enum\'s root-qualified name, Select is reached on no other path, r is '
        'returned; C04.release - Deselect(identifier) follows the forwarded release call; C04.deliver - the component\'s '
        'out-event is delivered under has_value() of the value obtained from CurrentClient() of the same port, on that '
        'value\'s port; C04.through-dispatcher - every client in-event reaches the component through the arbitered port, '
        'whose in-events are dzn::shell links; C04.validate - check_multiclient_cfg consumes every field of '
        'MultiClientPortCfg, each failed lookup raises MultiClientCfgError, a configuration that matches no port is '
        'rejected, multi-client is restricted to MTS ports. Not decided: behaviour over histories of claim / release / '
        'out-events (trace property); the static rules fix the per-step transition shapes only.')
    run.trusted = ['python ast module', 'dznverif E4 template evaluator / scenario evaluation / C++ token patterns']
    w = build_wiring(ctx)
    links, _problems = all_links(w)
    mc = [(e, k, d, r, l) for e, k, d, r, l in links if k == 'P-MTS-multiclient']
    by = {}
    for e, k, d, r, l in mc:
        by.setdefault((e, d, r), []).append(l)

    # ---- C04.names ------------------------------------------------------------------------------------------------------
    for role in ('claim', 'release-void', 'release-valued'):
        ls = by.get(('create_cpp_port_helpers', 'IN', role), [])
        base = role.split('-')[0]
        for ln in ls:
            toks = [ln.lhs.event] + [mp.event for mp, _a, _i in find_member_calls(ln.closure.body)] if ln.closure else [ln.lhs.event]
            ok = all(t[0] == 'hole' and t[1].sym.path[-2:] == (f'{base}_event', 'name') for t in toks) and len(toks) >= 2
            run.add('C04.names', MOD, f'initialize_port_{base}_snippet', f'{role}: {[tok_text(t) for t in toks]}', ok,
                    f'{base} link is keyed by the configured {base} event on both sides' if ok else
                    f'{base} link uses {[tok_text(t) for t in toks]}: the {base} event is not (only) the configured one')
        if not ls:
            run.violation('C04.names', MOD, 'initialize_port_impl', f'{role} link', f'no {role} link is generated')
    _fixture_provenance(ctx)

    # ---- C04.grant ------------------------------------------------------------------------------------------------------------
    for ln in by.get(('create_cpp_port_helpers', 'IN', 'claim'), []):
        body = ln.closure.body
        stmts = split_statements(body)
        calls = find_member_calls(body)
        problems = []
        # statement 0:  const auto r = <call>
        rvar = None
        if stmts and [tok_text(t) for t in stmts[0][:2]] == ['const', 'auto'] and ('p', '=') in stmts[0]:
            eq = stmts[0].index(('p', '='))
            rvar = stmts[0][eq - 1]
            if len(find_member_calls(stmts[0])) != 1:
                problems.append('the claim result is not the result of the forwarded call')
        else:
            problems.append('the result of the forwarded claim is not kept')
        selects = [i for i, st in enumerate(stmts) if any(t == ('id', 'Select') for t in st)]
        if len(selects) != 1:
            problems.append(f'Select is called in {len(selects)} statements')
        else:
            st = stmts[selects[0]]
            txt = [tok_text(t) for t in st]
            if txt[:2] != ['if', '(']:
                problems.append('Select(identifier) is unconditional: a refused claim still selects the client')
            else:
                close = match_close(st, 1)
                cond = st[2:close]
                ctxt = [tok_text(t) for t in cond]
                fq = [t for t in cond if t[0] == 'fqn']
                ok_cond = len(cond) == 3 and rvar is not None and cond[0] == rvar and ctxt[1] == '==' and len(fq) == 1
                if not ok_cond:
                    problems.append(f'Select is guarded by `{" ".join(ctxt)}`, not `r == <granting reply>`')
                else:
                    f: FqnS = fq[0][1]
                    if not (isinstance(f.ns, Sym) and f.ns.path[-1:] == ('claim_granting_reply',)):
                        problems.append('the compared value is not the fixture\'s granting reply')
                    if f.root != TRUE:
                        problems.append('the granting reply is not root-qualified')
                rest = st[close + 1:]
                rtxt = [tok_text(t) for t in rest]
                if not (rest and rest[0][0] == 'hole' and rest[0][1].sym.path[-1:] == ('accessor_target',) and
                        rtxt[1:] == ['.', 'Select', '(', 'identifier', ')']):
                    problems.append(f'the guarded statement is `{" ".join(rtxt)}`, not <selector>.Select(identifier)')
        last = [tok_text(t) for t in stmts[-1]] if stmts else []
        if not (rvar is not None and last == ['return', tok_text(rvar)]):
            problems.append('the claim reply is not returned unchanged to the client')
        if selects and calls and not (selects[0] > 0):
            problems.append('Select precedes the forwarded claim')
        # nothing else in the claim lambda may change who is selected: the only selector members used are Arbitered() (the
        # forwarded call) and the guarded Select()
        for k_, t_ in enumerate(body):
            if t_[0] == 'hole' and t_[1].sym.path[-1:] == ('accessor_target',) and k_ + 3 < len(body) and \
                    body[k_ + 1] == ('p', '.') and body[k_ + 2][0] == 'id' and body[k_ + 3] == ('p', '('):
                member = tok_text(body[k_ + 2])
                if member not in ('Arbitered', 'Select'):
                    problems.append(f'the claim lambda also calls {member}() on the selector: a claim that is not granted changes '
                                    f'the selection of the client that holds the claim')
        run.add('C04.grant', MOD, 'initialize_port_claim_snippet', 'claim link: ' + toks_text(body)[:100], not problems,
                'Select(identifier) only when the forwarded claim returned the granting reply; reply returned'
                if not problems else '; '.join(problems))
    run.floor('C04.grant', 1)

    # ---- C04.release -------------------------------------------------------------------------------------------------------------
    for role in ('release-void', 'release-valued'):
        for ln in by.get(('create_cpp_port_helpers', 'IN', role), []):
            stmts = split_statements(ln.closure.body)
            call_i = next((i for i, st in enumerate(stmts) if find_member_calls(st)), None)
            des_i = [i for i, st in enumerate(stmts) if any(t == ('id', 'Deselect') for t in st)]
            ok = call_i is not None and len(des_i) == 1 and des_i[0] > call_i
            why = 'Deselect(identifier) does not follow the forwarded release call (or is missing / conditional)'
            if ok:
                st = stmts[des_i[0]]
                txt = [tok_text(t) for t in st]
                ok = st[0][0] == 'hole' and st[0][1].sym.path[-1:] == ('accessor_target',) and \
                    txt[1:] == ['.', 'Deselect', '(', 'identifier', ')']
            if ok:
                # the Deselect must be reached: no return / throw statement in front of it
                leaving = [i for i, st in enumerate(stmts[:des_i[0]]) if st and st[0] in (('id', 'return'), ('id', 'throw'))]
                if leaving:
                    ok = False
                    why = ('the lambda returns before Deselect(identifier): the statement is unreachable, a client that released '
                           'stays selected and keeps receiving the out-events')
            run.add('C04.release', MOD, 'initialize_port_release_snippet', f'{role}: ' + toks_text(ln.closure.body)[:100], ok,
                    'the client is deselected after the release was forwarded' if ok else why)
    run.floor('C04.release', 2)

    # ---- C04.deliver -------------------------------------------------------------------------------------------------------------
    outs = [l for l in by.get(('create_constructor', 'OUT', 'other'), []) if l.style == 'closure']
    for ln in outs:
        stmts = split_statements(ln.closure.body)
        problems = []
        # auto <x> = <target> . CurrentClient ( )   (whether the lock outlives the declaration is C11.deliver-under-lock)
        al = selection_alias(stmts)
        var, arrow = None, '->'
        if al is None:
            problems.append('the selection is not obtained from CurrentClient() first')
        else:
            var, akind, target = al
            arrow = '->' if akind == 'holder' else '.'
            if target[1].sym.path[-1:] != ('accessor_target',):
                problems.append(f'the current selection is read from `{tok_text(target)}`')
            elif ln.lhs.port is not None and (target[1].sym.root, target[1].sym.path[:-1]) != (ln.lhs.port.root, ln.lhs.port.path):
                problems.append('the selection is read from another port\'s selector')
        deliver = [st for st in stmts if find_member_calls(st)]
        if len(deliver) != 1:
            problems.append(f'{len(deliver)} delivering statements')
        elif var is not None:
            st = deliver[0]
            txt = [tok_text(t) for t in st]
            want = ['if', '(', var, arrow, 'has_value', '(', ')', ')']
            if txt[:8] != want:
                problems.append('the out-event is delivered without testing that a client holds the claim (has_value())')
            mp = find_member_calls(st)[0][0]
            if toks_text(mp.obj).replace(' ', '') != f'{var}{arrow}value().get().dznPort':
                problems.append(f'the out-event is delivered on `{toks_text(mp.obj)}`, not on the selected client\'s port')
        if any(any(tok_text(t) == 'reset' for t in st) for st in stmts[:-1]):
            problems.append('the lock is released before the delivery')
        run.add('C04.deliver', MOD, 'reroute_multiclient_out_events', toks_text(ln.closure.body)[:110], not problems,
                'out-events go to the selected client only, under the selection lock' if not problems else '; '.join(problems))
    run.floor('C04.deliver', 1)

    # ---- C04.through-dispatcher -------------------------------------------------------------------------------------------------------
    arb = [l for l in by.get(('create_constructor', 'IN', 'other'), []) if l.lhs.side == 'arbitered']
    ok = len(arb) == 1 and arb[0].style == 'closure' and [tok_text(t) for t in arb[0].closure.body[:4]] == ['return', 'dzn', '::', 'shell']
    run.add('C04.through-dispatcher', MOD, 'reroute_in_events', 'arbitered in-event link', ok,
            'in-events of the arbitered port run through dzn::shell(dispatcher, ...)' if ok else
            'the arbitered port\'s in-events are not dzn::shell links')
    for role, want in (('claim', 'arbitered-ro'), ('release-void', 'arbitered-ro'), ('release-valued', 'arbitered-ro'), ('other', 'arbitered')):
        for ln in by.get(('create_cpp_port_helpers', 'IN', role), []):
            if ln.style == 'ref':
                side = ln.rhs.side if ln.rhs else '?'
            else:
                calls = find_member_calls(ln.closure.body)
                side = calls[0][0].side if calls else '?'
            run.add('C04.through-dispatcher', MOD, 'initialize_port_impl', f'client {role} in-event -> {side}', side == want,
                    f'client {role} in-event reaches the component through the arbitered port' if side == want else
                    f'client {role} in-event is forwarded to `{side}` instead of the arbitered port')
    run.floor('C04.through-dispatcher', 4)

    # ---- C04.validate ---------------------------------------------------------------------------------------------------------------------
    _validate(ctx)

    # ---- C04.selector (clang AST of the instantiated support header) -------------------------------------------------------------------
    from ..embedded_cxx import selector_rules
    selector_rules(ctx, 'C04')


def _fixture_provenance(ctx):
    """MultiClientPortCfgFixture(claim_event=<event with name == cfg.claim_event_name>, release_event=<... release ...>)"""
    run, prog = ctx.run, ctx.prog
    cmc = prog.func(PROC, 'check_multiclient_cfg')
    # semantic first: create_dzn_elements interpreted on the scenario models (E7) - the fixture of the configured port holds the very
    # events of the port's interface that carry the configured claim / release names
    from .shared import dzn_elements_by_interpretation
    sem = dzn_elements_by_interpretation(ctx)
    if sem is not None:
        mine = [p_ for p_ in sem['C04.validate'] if 'fixture does not hold' in p_ or 'is refused' in p_]
        for fld in ('claim_event', 'release_event'):
            run.add('C04.names', MOD, cmc.qualname, f'fixture.{fld}', not mine,
                    f'{fld} of the fixture is the event of the port\'s interface that carries the configured name (create_dzn_elements interpreted, E7)'
                    if not mine else '; '.join(mine[:2]))
        return
    defs = {n.targets[0].id: n.value for n in iter_own_nodes(cmc.node)
            if isinstance(n, ast.Assign) and isinstance(n.targets[0], ast.Name)}
    ctor = next((c for c in iter_own_nodes(cmc.node) if isinstance(c, ast.Call) and
                 getattr(c.func, 'id', '') == 'MultiClientPortCfgFixture'), None)
    if ctor is None:
        run.error('C04.names', MOD, cmc.qualname, 'fixture', 'MultiClientPortCfgFixture construction vanished')
        return
    kw = {k.arg: k.value for k in ctor.keywords}
    fields = list(prog.class_fields(prog.cls('adv_shell.common', 'MultiClientPortCfgFixture')).keys())
    for i, a in enumerate(ctor.args):
        kw[fields[i]] = a
    cfgp = cmc.params()[0].arg
    for fld, cfgname in (('claim_event', 'claim_event_name'), ('release_event', 'release_event_name')):
        from .shared import first_match
        fm = first_match(ctx, cmc, kw.get(fld)) if kw.get(fld) is not None else None
        ok = False
        if fm is not None:
            seq, var, cnd, _rej = fm
            cond = ast.unparse(cnd)
            ok = ast.unparse(seq).endswith('.events.elements') and \
                cond in (f'{var}.name == {cfgp}.{cfgname}', f'{cfgp}.{cfgname} == {var}.name')
        run.add('C04.names', MOD, cmc.qualname, f'fixture.{fld}', ok,
                f'{fld} is the interface event named {cfgname}' if ok else
                f'{fld} is not the interface event whose name equals the configured {cfgname}')


def _validate(ctx):
    run, prog = ctx.run, ctx.prog
    cmc = prog.func(PROC, 'check_multiclient_cfg')
    # decided on scenario models when create_dzn_elements (with check_multiclient_cfg and whatever helpers it is organised
    # into) can be interpreted; the shape rules below decide otherwise
    from .shared import dzn_elements_by_interpretation
    sem = dzn_elements_by_interpretation(ctx)
    if sem is not None:
        probs = sem['C04.validate'] + sem['C13.rejects']
        aspects = [('a valid multi-client configuration', ('a valid multi-client configuration', 'the fixture does not hold', 'gets no fixture')),
                   ('names the requires port', ('names the requires port',)), ('names a port that does not exist', ('names a port that does not exist',)),
                   ('unknown claim event', ('names a claim event the interface does not have',)),
                   ('unknown release event', ('names a release event the interface does not have',)),
                   ('granting value not in the enum', ('names a granting value',)), ('claim event replying void', ('replies void',)),
                   ('ambiguous reply enum', ('two enums on the scope chain',)),
                   ('multi-client on an STS port', ('STS semantics',)),
                   ('fixture only on the named provides port', ('does not name gets', 'requires port gets', 'although none is configured'))]
        for label, keys in aspects:
            mine = [p_ for p_ in probs if any(k in p_ for k in keys)]
            run.add('C04.validate', MOD, 'create_dzn_elements', label, not mine,
                    f'{label}: decided by interpretation of create_dzn_elements on the scenario models - accepted with the configured events / '
                    f'refused with the documented error' if not mine else '; '.join(mine[:2]))
        run.stats['validate_decided_by'] = f'interpretation of create_dzn_elements on {sem["#"][0]} scenario models (E7)'
        run.floor('C04.validate', 8)
        return
    cfg_cls = prog.cls('adv_shell.port_selection', 'MultiClientPortCfg')
    fields = set(prog.class_fields(cfg_cls).keys())
    cfgp = cmc.params()[0].arg
    used = {n.attr for n in iter_own_nodes(cmc.node) if isinstance(n, ast.Attribute) and isinstance(n.value, ast.Name)
            and n.value.id == cfgp}
    missing = sorted(fields - used)
    run.add('C04.validate', MOD, cmc.qualname, f'fields consumed {sorted(used & fields)}', not missing,
            'every field of MultiClientPortCfg is validated against the interface' if not missing else
            f'configuration fields {missing} are never looked at')
    # every failed lookup raises MultiClientCfgError
    from ..exceptions import ExcAnalysis
    from ..absval import Abs
    ex = ExcAnalysis(prog, ctx.cg, ctx.flow, Abs(prog, ctx.cg, ctx.flow))
    mce = prog.cls('adv_shell.types', 'MultiClientCfgError')
    raises = [n for n in ast.walk(cmc.node) if isinstance(n, ast.Raise)]
    n_ok = 0
    for r in raises:
        exc = ex.exc_name(cmc, r.exc)
        ok = ex.is_sub(exc, mce.fq)
        n_ok += ok
        run.add('C04.validate', MOD, cmc.qualname, r, ok,
                'invalid setting rejected with MultiClientCfgError' if ok else f'invalid setting raises {exc}', node=r)
    # the four lookups: claim event, reply type, reply value, release event
    txt = ast.unparse(cmc.node)
    wants = {'claim event not found': 'not matched_claim_events', 'release event not found': 'not matched_release_events',
             'reply value not in enum': 'not in enum_instance.fields.elements', 'reply type not an enum': 'except FindError'}
    guards = [ast.unparse(n.test) for n in ast.walk(cmc.node) if isinstance(n, ast.If) and always_raises(n.body)]
    handlers = [n for n in ast.walk(cmc.node) if isinstance(n, ast.ExceptHandler) and always_raises(n.body)]
    from .shared import rejecting_calls
    helper_rej = rejecting_calls(ctx, cmc)
    for c_, h_, r_ in helper_rej:
        exc = ex.exc_name(h_, r_.exc)
        run.add('C04.validate', MOD, cmc.qualname, c_, ex.is_sub(exc, mce.fq),
                f'invalid setting rejected with MultiClientCfgError (in {h_.qualname})' if ex.is_sub(exc, mce.fq) else
                f'invalid setting raises {exc} (in {h_.qualname})', node=c_)
    n_rej = len(guards) + len(handlers) + len(helper_rej)
    run.add('C04.validate', MOD, cmc.qualname, f'{n_rej} rejections', n_rej >= 4,
            'claim event, reply type, reply value and release event are each validated' if n_rej >= 4 else
            f'only {n_rej} of the four validations (claim event, reply type, reply value, release event) are present')
    # reply type looked up as an Enum (kind hint), reply value membership in its fields
    ok = any(isinstance(c, ast.Call) and isinstance(c.func, ast.Attribute) and c.func.attr == 'get_single_instance' and c.args
             and ast.unparse(c.args[0]).endswith('Enum') for c in iter_own_nodes(cmc.node))
    run.add('C04.validate', MOD, cmc.qualname, 'reply type kind', ok,
            'the claim reply type must resolve to an Enum' if ok else 'the claim reply type is not required to be an Enum')
    # restricted to MTS
    dpi = prog.cls('adv_shell.common', 'DznPortItf')
    post = dpi.methods.get('__post_init__')
    ok = False
    if post is not None:
        for n in post.node.body:
            if isinstance(n, ast.If) and always_raises(n.body):
                t = ast.unparse(n.test)
                r = next(x for x in ast.walk(n) if isinstance(x, ast.Raise))
                if 'multiclient' in t and 'RuntimeSemantics.MTS' in t and '!=' in t:
                    ok = ex.is_library_error(ex.exc_name(post, r.exc))
    run.add('C04.validate', dpi.module.name, 'DznPortItf.__post_init__', 'multi-client restricted to MTS', ok,
            'a multi-client fixture on a non-MTS port is rejected with a library error' if ok else
            'multi-client on an STS port is not rejected (or not with a library error)')
    cde = prog.func(PROC, 'create_dzn_elements')
    post = [s for s in cde.node.body if isinstance(s, ast.If) and 'multiclient' in ast.unparse(s.test)
            and any(isinstance(x, ast.Raise) for x in ast.walk(s))]
    run.add('C04.validate', MOD, cde.qualname, post[0] if post else 'post-check', bool(post),
            'a multi-client configuration that matches no provides port is rejected' if post else
            'a multi-client configuration naming an unknown port is silently ignored')
    run.floor('C04.validate', 8)


def check_thorough(ctx):
    pass
