"""C14 - name lookup returns exactly the declarations on the scope chain.

Decides: C14.containers (find_fqn / find_any scan exactly the declaration containers; valid_types is the same
class set), C14.once (at-most-once append, whole-name equality / tail-slice equality), C14.order (resolution
order only appended, starts with the full calling scope, calling scope not mutated), C14.valid-ids (regex
language is a subset of [A-Za-z_][A-Za-z0-9_]*, applied to every identifier with fullmatch; no constructor
bypass; who-may-write .items), C14.notation (separators of writers and reader agree and cannot occur in
identifiers).  The set equalities themselves (soundness / completeness of the returned set) are value level.
"""
from __future__ import annotations

import ast
import re
from typing import Dict, List, Optional, Set, Tuple

from ..model import FuncInfo, ClassInfo, iter_own_nodes, strip_opt
from ..mutation import Mutations, is_fresh
from ..flow import atomic_facts, always_raises, same_expr
from .shared import find_containers, valid_types_table
from .c18 import const_str

try:
    import re._parser as sre_parse        # python >= 3.11
    import re._constants as sre_c
except ImportError:  # pragma: no cover
    import sre_parse
    import sre_constants as sre_c

ID_FIRST = set('abcdefghijklmnopqrstuvwxyzABCDEFGHIJKLMNOPQRSTUVWXYZ_')
ID_REST = ID_FIRST | set('0123456789')


def check(ctx):
    run, prog, cg = ctx.run, ctx.prog, ctx.cg
    run.explanation = (
        'Decided: C14.containers - the containers scanned by find_fqn and find_any are exactly the FileContents fields '
        'whose element class has an fqn field, each once, and equal the valid_types table; C14.once - an element is '
        'appended at most once (append followed by break) and matches by whole-NamespaceIds equality / tail-slice '
        'equality; C14.order - the resolution order is only appended to and starts with calling scope + name, the '
        'calling scope is popped on a deep copy; C14.valid-ids - the validation regex (parsed with re._parser) denotes a '
        'subset of [A-Za-z_][A-Za-z0-9_]* and is applied with fullmatch to every identifier, NamespaceIds is created '
        'only through its constructor, .items is written only by __iadd__ and by scope_resolution_order on its copy; '
        'C14.notation - separators used by the writers are the ones the reader splits on and cannot occur in an '
        'identifier. Not decided: the set equalities (soundness/completeness, innermost-to-outermost order, lossless '
        'round trip) - value-level facts over all declaration sets.')
    run.assume('a caller-owned list handed to NamespaceIds is not mutated by the caller afterwards (observation O3)')
    run.trusted = ['python ast module', 'python re._parser', 'dznverif E1/E2/E3c']

    # ---- C14.containers ---------------------------------------------------------------------------------------------
    fc = prog.cls('ast', 'FileContents')
    fields = prog.class_fields(fc)
    decl_fields = []
    for name, (ann, _d, owner) in fields.items():
        t = prog.ann_to_type(owner.module, ann, owner)
        if t[0] == 'list' and t[1][0] == 'cls' and t[1][1] in prog.classes and 'fqn' in prog.classes[t[1][1]].fields:
            decl_fields.append(name)
    valid = valid_types_table(ctx)
    valid_names = sorted(c.name for c in valid)
    if len(decl_fields) < 7:
        run.error('C14.containers', fc.module.name, 'FileContents', 'declaration containers',
                  f'only {len(decl_fields)} declaration containers found in FileContents (7 confirmed)')
    semantic = _lookup_semantics(ctx, decl_fields)
    for fname in ('find_fqn', 'find_any'):
        if fname in semantic:
            continue            # decided on the whole small universe by interpretation (below)
        conts, loop = find_containers(ctx, fname)
        names = [c[0] for c in conts]
        fn = prog.func('ast_view', fname)
        ok = sorted(names) == sorted(decl_fields) and len(set(names)) == len(names)
        run.add('C14.containers', fn.module.name, fn.qualname, loop.iter, ok,
                f'scans each of the {len(decl_fields)} declaration containers exactly once' if ok else
                f'scans {sorted(names)}; the declaration containers are {sorted(decl_fields)} '
                f'(missing {sorted(set(decl_fields) - set(names))}, extra/duplicate '
                f'{sorted(set(names) - set(decl_fields)) + [n for n in set(names) if names.count(n) > 1]})', node=loop)
        elems = sorted(c[1].name for c in conts if c[1] is not None)
        ok2 = sorted(set(elems)) == valid_names
        run.add('C14.containers', fn.module.name, fn.qualname, f'{fname} element classes vs valid_types', ok2,
                'element classes of the scanned containers equal FindResult.valid_types' if ok2 else
                f'scanned element classes {sorted(set(elems))} differ from valid_types {valid_names}')
    decl_classes = sorted(c.name for c in prog.classes.values() if c.module.name == 'dznpy.ast' and 'fqn' in c.fields)
    run.add('C14.containers', 'dznpy.ast_view', 'FindResult.valid_types', 'valid_types vs ast declarations',
            decl_classes == valid_names,
            'valid_types lists every ast class with an fqn field' if decl_classes == valid_names else
            f'valid_types {valid_names} differs from the ast declaration classes {decl_classes}')

    # ---- C14.once ----------------------------------------------------------------------------------------------------------
    if 'find_fqn' not in semantic:
        _once_rule(ctx)

    # ---- C14.order -----------------------------------------------------------------------------------------------------------
    mut = Mutations(prog, cg)
    mut.solve()
    _order_rule(ctx, mut)

    # ---- C14.valid-ids ---------------------------------------------------------------------------------------------------------
    charset = _valid_ids_rule(ctx, mut)

    # ---- C14.notation ----------------------------------------------------------------------------------------------------------
    _notation_rule(ctx, charset)


def _every_identifier_checked(ctx, nids: ClassInfo) -> Optional[List[str]]:
    from ..scenario import Interp, Raised, Undecided
    import itertools
    prog = ctx.prog
    err = prog.classes.get('dznpy.scoping.NamespaceIdsTypeError')
    good = ['ok', 'x1', '_y']
    bad = ['', '1a', 'a b', 'a-b', 'a\n', '\u00e9', 'a.b', 'a::b', ' a']
    problems: List[str] = []
    try:
        for n in (1, 2, 3):
            for pos in range(n):
                for b in bad:
                    items = [good[i % len(good)] for i in range(n)]
                    items[pos] = b
                    try:
                        Interp(prog).construct(nids, [list(items)], {})
                        problems.append(f'{items!r} is accepted')
                    except Raised as exc:
                        c = prog.classes.get(exc.name)
                        if not (c is not None and err is not None and (c is err or prog.is_subclass(c.fq, err.fq))):
                            problems.append(f'{items!r} raises {exc.name.split(".")[-1]}, not NamespaceIdsTypeError')
            items = [good[i % len(good)] for i in range(n)]
            try:
                Interp(prog).construct(nids, [list(items)], {})
            except Raised as exc:
                problems.append(f'the well-formed {items!r} is refused ({exc.name.split(".")[-1]})')
        try:
            Interp(prog).construct(nids, [[]], {})
        except Raised as exc:
            problems.append(f'the empty list is refused ({exc.name.split(".")[-1]})')
    except Undecided:
        return None
    return problems


def _lookup_semantics(ctx, decl_fields: List[str], rules: tuple = ('C14.containers', 'C14.once'), only: Optional[tuple] = None) -> Set[str]:
    """find_fqn / find_any interpreted (dznverif.scenario, E7) on a small universe: a FileContents that holds, spread over its
    declaration containers (and, as decoys, over filenames / imports), one declaration for every fully qualified name of one
    to three identifiers over {a, b} - two of them twice, in different containers - looked up with every name of one or two
    identifiers from every calling scope of zero to two identifiers (none as well).  Expected (the statement of C14):
      find_fqn   exactly the declarations whose fqn is scope[:k] + name for some k, each once, never a file name / import
      find_any   exactly the declarations whose fqn ends with the given identifiers, each once
    The functions look at identifiers only through equality of identifier lists, so every pattern of equal / different
    names that can occur along a scope chain of this depth occurs here.  Returns the names of the functions that were decided
    this way (their findings are recorded); a function that cannot be interpreted is left to the shape rules."""
    from ..scenario import Interp, Obj, Raised, Undecided
    import itertools
    run, prog = ctx.run, ctx.prog
    nids = prog.cls('scoping', 'NamespaceIds')
    fc = prog.cls('ast', 'FileContents')
    fields = prog.class_fields(fc)
    decided: Set[str] = set()
    it = Interp(prog)
    it.MAX_STEPS = 4000000

    def ids(seq):
        return it.construct(nids, [list(seq)], {})

    def elem_cls(field: str):
        t = prog.ann_to_type(fc.module, fields[field][0], fc)
        return prog.classes.get(t[1][1]) if t[0] == 'list' and t[1][0] == 'cls' else None
    fqns = [seq for n in (1, 2, 3) for seq in itertools.product(('a', 'ab'), repeat=n)]

    def build(layout: str):
        """-> (FileContents object, [(declaration, fqn)]).  Layouts: the declarations spread over the containers in turn, or all of
        them in one container (several matches of one lookup within ONE container - and none in the others - occur only there)."""
        contents: Dict[str, list] = {f: [] for f in fields}
        decls_ = []          # (Obj, fqn tuple)
        order = sorted(decl_fields)
        cyc = itertools.cycle(order if layout == 'spread' else [order[0]] if layout == 'first' else [order[-1]])
        for seq in fqns + [('a', 'b'), ('b',)]:
            f = next(cyc)
            c = elem_cls(f)
            if c is None:
                raise Undecided(f'element class of FileContents.{f}')
            o = Obj(c, {'fqn': ids(seq)})
            contents[f].append(o)
            decls_.append((o, seq))
        for f in fields:
            if f not in decl_fields:
                c = elem_cls(f)
                if c is not None:
                    contents[f].append(Obj(c, {'name': 'decoy.dzn', 'fqn': ids(('a',))}))
        fct_ = it.construct(fc, [], {})          # every field by its declared default ...
        for k, v in contents.items():
            if isinstance(fct_.fields.get(k), list) or k not in fct_.fields:
                fct_.fields[k] = v               # ... the containers filled with the universe
        return fct_, decls_
    try:
        worlds = [(lay, ) + build(lay) for lay in ('spread', 'first', 'last')]
    except (Raised, Undecided):
        return decided
    names = [seq for n in (1, 2) for seq in itertools.product(('a', 'ab'), repeat=n)]
    scopes = [None] + [seq for n in (0, 1, 2) for seq in itertools.product(('a', 'ab'), repeat=n)]

    def judge(fname: str, calls, expect) -> None:
        fn = prog.func('ast_view', fname)
        bad: List[str] = []
        n = 0
        try:
            for (lay, fct, decls), (args, label) in itertools.product(worlds, calls):
                n += 1
                label = label if lay == 'spread' else f'{label}, all declarations in the {lay} container'
                try:
                    res = it.call_function(fn, [fct] + args, {})
                except Raised as exc:
                    bad.append(f'{label}: raises {exc.name.split(".")[-1]}')
                    continue
                items = res.fields.get('items') if isinstance(res, Obj) else None
                if not isinstance(items, list):
                    raise Undecided('result is not a FindResult with items')
                want = expect(decls, *args)
                got_ids = [id(x) for x in items]
                want_ids = [id(o) for o, _s in want]
                if sorted(got_ids) != sorted(want_ids):
                    def show(objs):
                        return sorted('.'.join(s_) for o_, s_ in decls if id(o_) in objs)
                    extra = [x for x in items if id(x) not in want_ids]
                    dup = len(got_ids) != len(set(got_ids))
                    bad.append(f'{label}: returns {show(got_ids)}' + (' (a declaration twice)' if dup else '') +
                               (f' and {len([x for x in extra if not any(x is o for o, _ in decls)])} file name / import entries'
                                if any(not any(x is o for o, _ in decls) for x in extra) else '') + f', expected {show(want_ids)}')
        except Undecided as exc:
            run.remark(f'C14: {fname} could not be interpreted on the lookup scenarios ({exc}); the shape rules decide')
            return
        decided.add(fname)
        for rule_ in rules:
          run.add(rule_, fn.module.name, fn.qualname, f'{fname}: {n} lookups over {len(worlds[0][2])} declarations in {len(worlds)} layouts', not bad,
                (f'{fname} returns exactly the declarations on the scope chain, each once, never a file name or import '
                 f'(interpreted on {n} lookups)' if fname == 'find_fqn' else
                 f'{fname} returns exactly the declarations whose name ends with the identifiers, each once ({n} lookups)') if not bad
                else f'{len(bad)} of {n} lookups disagree, e.g. ' + '; '.join(bad[:2]))
        run.stats.setdefault('lookup_scenarios', {})[fname] = n

    def chain_expect(decls, name_obj, scope_obj=None):
        nm = tuple(name_obj.fields['items'])
        sc = tuple(scope_obj.fields['items']) if scope_obj is not None else ()
        cands = {sc[:k] + nm for k in range(len(sc), -1, -1)}
        return [(o, s_) for o, s_ in decls if s_ in cands]

    def suffix_expect(decls, suffix_obj):
        sf = tuple(suffix_obj.fields['items'])
        return [(o, s_) for o, s_ in decls if len(s_) >= len(sf) and s_[len(s_) - len(sf):] == sf]
    try:
        calls = []
        for nm in names:
            for sc in scopes:
                args = [ids(nm)] + ([ids(sc)] if sc is not None else [])
                calls.append((args, f"find_fqn('{'.'.join(nm)}', from {('.'.join(sc) or '<global>') if sc is not None else None})"))
        if only is None or 'find_fqn' in only:
            judge('find_fqn', calls, chain_expect)
        calls = [([ids(nm)], f"find_any('{'.'.join(nm)}')") for nm in names + [('a', 'b', 'a')]]
        if only is None or 'find_any' in only:
            judge('find_any', calls, suffix_expect)
    except (Raised, Undecided):
        pass
    return decided


def _once_rule(ctx):
    run, prog = ctx.run, ctx.prog
    ff = prog.func('ast_view', 'find_fqn')
    # the innermost loop over the resolution order
    inner = None
    for n in iter_own_nodes(ff.node):
        if isinstance(n, ast.For) and isinstance(n.iter, ast.Name):
            d = [x for x in iter_own_nodes(ff.node) if isinstance(x, ast.Assign) and isinstance(x.targets[0], ast.Name)
                 and x.targets[0].id == n.iter.id and isinstance(x.value, ast.Call)
                 and getattr(x.value.func, 'id', '') == 'scope_resolution_order']
            if d:
                inner = n
    from .shared import fqn_match_form
    okf, whyf, nodef = fqn_match_form(ctx, ff) if inner is None else (None, '', None)
    if okf is not None:
        run.add('C14.once', ff.module.name, ff.qualname, nodef if nodef is not None else 'match', okf, whyf, node=nodef)
    elif inner is None:
        run.error('C14.once', ff.module.name, ff.qualname, 'resolution-order loop',
                  'no loop over the result of scope_resolution_order found in find_fqn')
    else:
        appends = [c for c in ast.walk(inner) if isinstance(c, ast.Call) and isinstance(c.func, ast.Attribute)
                   and c.func.attr == 'append']
        for a in appends:
            stmt = ctx.flow.enclosing_stmt(a)
            blk = None
            p = prog.parent(stmt)
            for name in ('body', 'orelse'):
                b = getattr(p, name, None)
                if isinstance(b, list) and stmt in b:
                    blk = b
            followed = blk is not None and any(isinstance(s, ast.Break) for s in blk[blk.index(stmt) + 1:])
            run.add('C14.once', ff.module.name, ff.qualname, stmt, followed,
                    'the append is followed by break: an element is reported once even if several lookups match'
                    if followed else 'append without break inside the loop over the resolution order: a declaration '
                    'can be returned more than once', node=stmt)
            # the guarding comparison
            conds = [c for c, pol in ctx.flow.path_conditions(a) if pol]
            good = False
            for c in conds:
                if isinstance(c, ast.Compare) and len(c.ops) == 1 and isinstance(c.ops[0], ast.Eq):
                    sides = [ast.unparse(c.left), ast.unparse(c.comparators[0])]
                    tgt = getattr(inner.target, 'id', None)
                    if tgt in sides and any(s.endswith('.fqn') for s in sides):
                        good = True
            run.add('C14.once', ff.module.name, ff.qualname, conds[0] if conds else a, good,
                    'match is whole-NamespaceIds equality of the declaration fqn and the lookup candidate' if good else
                    'the match condition is not `element.fqn == lookup` (prefix/suffix/containment would let unrelated '
                    'namespaces match)', node=a)
        if not appends:
            run.violation('C14.once', ff.module.name, ff.qualname, inner, 'find_fqn never appends a match', node=inner)
    fa = prog.func('ast_view', 'find_any')
    cmp_ok = False
    for n in iter_own_nodes(fa.node):
        if isinstance(n, ast.Compare) and len(n.ops) == 1 and isinstance(n.ops[0], ast.Eq):
            l, r = n.left, n.comparators[0]
            for a, b in ((l, r), (r, l)):
                if isinstance(a, ast.Subscript) and isinstance(a.slice, ast.Slice) and a.slice.upper is None and \
                        isinstance(a.slice.lower, ast.UnaryOp) and isinstance(a.slice.lower.op, ast.USub) and \
                        ast.unparse(a.value).endswith('.fqn.items') and ast.unparse(b).endswith('.items'):
                    # the slice length is len(<needle>.items)
                    ln = a.slice.lower.operand
                    needle = ast.unparse(b)
                    defs = {x.targets[0].id: x.value for x in iter_own_nodes(fa.node)
                            if isinstance(x, ast.Assign) and isinstance(x.targets[0], ast.Name)}
                    lnx = defs.get(ln.id) if isinstance(ln, ast.Name) else ln
                    if lnx is not None and ast.unparse(lnx) == f'len({needle})':
                        cmp_ok = True
            run.add('C14.once', fa.module.name, fa.qualname, n, cmp_ok,
                    'suffix search compares the fqn tail of len(needle) identifiers with == ' if cmp_ok else
                    'suffix search does not compare exactly the tail slice of the needle length', node=n)
    run.floor('C14.once', 3)


def _order_rule(ctx, mut: Mutations):
    run, prog = ctx.run, ctx.prog
    sro = prog.func('scoping', 'scope_resolution_order')
    rets = [n for n in iter_own_nodes(sro.node) if isinstance(n, ast.Return)]
    final = [r for r in rets if r is sro.node.body[-1] and isinstance(r.value, ast.Name)]
    if len(final) != 1 and len(rets) == 1 and isinstance(rets[0].value, ast.ListComp):
        _order_rule_prefixes(ctx, mut, sro, rets[0])
        return
    if len(final) != 1:
        run.error('C14.order', sro.module.name, sro.qualname, 'return', 'expected a final `return <list>`')
        return
    # a return in front of the final one hands out a candidate list that was not built by the outward walk: a shortcut
    # is only sound when no scope is left to walk (the calling scope is empty / absent)
    params_ = [a.arg for a in sro.params()]
    for r in rets:
        if r is final[0]:
            continue
        facts = [(ast.unparse(c), pol) for c, pol in atomic_facts(ctx.flow.path_conditions(r))]
        scope_empty = any((t in (f'{params_[1]}', f'{params_[1]}.items', 'current_scope.items') and not pol) or
                          (t in (f'{params_[1]} is None', f'not {params_[1]}', f'not {params_[1]}.items') and pol) for t, pol in facts)
        run.add('C14.order', sro.module.name, sro.qualname, r, scope_empty,
                'shortcut for an empty calling scope: there is nothing to walk outwards' if scope_empty else
                f'`{ast.unparse(r)[:50]}` returns before the outward walk under {[t for t, _p in facts][:2]}: the candidates of the '
                f'enclosing scopes are missing, a partially qualified name is resolved as if it were fully qualified', node=r)
    rets = final
    res = rets[0].value.id
    params = [a.arg for a in sro.params()]
    searchable, calling = params[0], params[1]
    init = [n for n in iter_own_nodes(sro.node) if isinstance(n, ast.Assign) and isinstance(n.targets[0], ast.Name)
            and n.targets[0].id == res]
    ok = len(init) == 1 and isinstance(init[0].value, ast.List) and len(init[0].value.elts) == 1 and \
        isinstance(init[0].value.elts[0], ast.BinOp) and isinstance(init[0].value.elts[0].op, ast.Add) and \
        ast.unparse(init[0].value.elts[0].right) == searchable
    run.add('C14.order', sro.module.name, sro.qualname, init[0] if init else res, ok,
            'the first candidate is the full calling scope + searched name' if ok else
            'the result does not start with <calling scope> + <searched name>', node=init[0] if init else None)
    for n in iter_own_nodes(sro.node):
        if isinstance(n, ast.Call) and isinstance(n.func, ast.Attribute) and isinstance(n.func.value, ast.Name) \
                and n.func.value.id == res:
            ok = n.func.attr == 'append' and len(n.args) == 1 and isinstance(n.args[0], ast.BinOp) and \
                ast.unparse(n.args[0].right) == searchable
            run.add('C14.order', sro.module.name, sro.qualname, n, ok,
                    'candidates are appended innermost to outermost' if ok else
                    f'the result list is modified by `{ast.unparse(n)[:50]}` (only append of <scope> + <name> keeps '
                    f'the innermost-to-outermost order)', node=n)
        if isinstance(n, ast.Call) and getattr(n.func, 'id', '') in ('sorted', 'reversed') and n.args and \
                ast.unparse(n.args[0]) == res:
            run.violation('C14.order', sro.module.name, sro.qualname, n, 'the resolution order is re-ordered', node=n)
    # the calling scope is not mutated
    bad = mut.mut_param.get(sro.fq, {})
    run.add('C14.order', sro.module.name, sro.qualname, f'{sro.qualname}({calling})', calling not in bad,
            'the calling scope is popped on a deep copy only' if calling not in bad else
            'the caller\'s calling scope is mutated: ' + ' <- '.join(bad[calling].chain()))
    # the loop pops one identifier per iteration
    loops = [n for n in iter_own_nodes(sro.node) if isinstance(n, ast.While)]
    for w in loops:
        pops = [c for c in ast.walk(w) if isinstance(c, ast.Call) and isinstance(c.func, ast.Attribute)
                and c.func.attr == 'pop']
        ok = len(pops) == 1 and not pops[0].args and ast.unparse(pops[0].func.value) in ast.unparse(w.test)
        run.add('C14.order', sro.module.name, sro.qualname, w, ok,
                'one identifier is dropped from the end of the scope per step' if ok else
                'the loop does not pop exactly the last identifier of the tested scope per step', node=w)
    run.floor('C14.order', 4)


def _order_rule_prefixes(ctx, mut: Mutations, sro: FuncInfo, ret: ast.Return):
    """scope_resolution_order written as ONE comprehension over the prefixes of the calling scope, longest first:
         [NamespaceIds(items[:d] + searchable.items) for d in range(len(items), -1, -1)]              or
         [scope + searchable for scope in <generator of the prefixes, longest first>]
       with `items` the identifiers of the calling scope ([] when there is none)."""
    run, prog = ctx.run, ctx.prog
    params = [a.arg for a in sro.params()]
    searchable, calling = params[0], params[1]
    comp: ast.ListComp = ret.value

    def local(fn: FuncInfo, nm: str):
        d = [a.value for a in iter_own_nodes(fn.node) if isinstance(a, ast.Assign) and len(a.targets) == 1
             and isinstance(a.targets[0], ast.Name) and a.targets[0].id == nm]
        return d[0] if len(d) == 1 else None

    def scope_items(fn: FuncInfo, e: ast.expr, scope_param: str) -> bool:
        """`e` is `<scope>.items if <scope given> else []` (through a local)"""
        if isinstance(e, ast.Name):
            d = local(fn, e.id)
            return d is not None and scope_items(fn, d, scope_param)
        if isinstance(e, ast.IfExp):
            t = ast.unparse(e.test)
            given = t in (scope_param, f'{scope_param} is not None')
            absent = t in (f'not {scope_param}', f'{scope_param} is None')
            a, b = (e.body, e.orelse) if given else (e.orelse, e.body) if absent else (None, None)
            return a is not None and ast.unparse(a) == f'{scope_param}.items' and isinstance(b, ast.List) and not b.elts
        return False

    def descending_prefixes(fn: FuncInfo, g: ast.comprehension, scope_param: str):
        """g iterates d = len(items) .. 0; returns the name of `items` or None"""
        it = g.iter
        if isinstance(it, ast.Call) and getattr(it.func, 'id', '') == 'range' and len(it.args) == 3 and \
                isinstance(it.args[0], ast.Call) and getattr(it.args[0].func, 'id', '') == 'len' and len(it.args[0].args) == 1 and \
                ast.unparse(it.args[1]) == '-1' and ast.unparse(it.args[2]) == '-1' and not g.ifs and isinstance(g.target, ast.Name):
            base = it.args[0].args[0]
            if scope_items(fn, base, scope_param):
                return ast.unparse(base)
        return None

    if len(comp.generators) != 1:
        run.error('C14.order', sro.module.name, sro.qualname, ret, 'the resolution order is a nested comprehension: not modelled', node=ret)
        return
    g = comp.generators[0]
    ok, why = False, ''
    items = descending_prefixes(sro, g, calling)
    if items is not None:
        d = g.target.id
        elt = ast.unparse(comp.elt)
        ok = elt in (f'NamespaceIds({items}[:{d}] + {searchable}.items)', f'ns_ids_t({items}[:{d}] + {searchable}.items)',
                     f'NamespaceIds({items}[:{d}]) + {searchable}')
        why = 'candidates are the prefixes of the calling scope, longest first, each followed by the searched name' if ok else \
            f'the candidate `{elt[:60]}` is not <prefix of the calling scope> + <searched name>'
    elif isinstance(g.iter, ast.Call) and isinstance(g.iter.func, (ast.Name, ast.Attribute)) and not g.ifs and isinstance(g.target, ast.Name):
        gen = prog.resolve_expr_symbol(sro.module, g.iter.func)
        if isinstance(gen, FuncInfo) and len(g.iter.args) == 1 and ast.unparse(g.iter.args[0]) == calling and gen.params():
            gp = gen.params()[0].arg
            loops = [x for x in gen.node.body if isinstance(x, ast.For)]
            yields = [y for y in ast.walk(gen.node) if isinstance(y, (ast.Yield, ast.YieldFrom))]
            if len(loops) == 1 and len(yields) == 1 and isinstance(yields[0], ast.Yield) and len(loops[0].body) == 1 and \
                    isinstance(loops[0].target, ast.Name):
                fake = ast.comprehension(target=loops[0].target, iter=loops[0].iter, ifs=[], is_async=0)
                items = descending_prefixes(gen, fake, gp)
                dvar = loops[0].target.id
                y_ok = items is not None and ast.unparse(yields[0].value) in (f'NamespaceIds({items}[:{dvar}])', f'ns_ids_t({items}[:{dvar}])')
                e_ok = ast.unparse(comp.elt) == f'{g.target.id} + {searchable}'
                ok = bool(y_ok and e_ok)
                why = (f'{gen.name} yields the prefixes of the calling scope, longest first; each is followed by the searched name' if ok else
                       f'{gen.name} / the candidate expression do not form <prefix, longest first> + <searched name>')
    if not why:
        run.error('C14.order', sro.module.name, sro.qualname, ret, 'the shape of the resolution order is not modelled', node=ret)
        return
    run.add('C14.order', sro.module.name, sro.qualname, ret, ok, why, node=ret)
    bad = mut.mut_param.get(sro.fq, {})
    run.add('C14.order', sro.module.name, sro.qualname, f'{sro.qualname}({calling})', calling not in bad,
            'the calling scope is only read' if calling not in bad else
            'the caller\'s calling scope is mutated: ' + ' <- '.join(bad[calling].chain()))
    for nm in ('sorted', 'reversed'):
        for n in iter_own_nodes(sro.node):
            if isinstance(n, ast.Call) and getattr(n.func, 'id', '') == nm:
                run.violation('C14.order', sro.module.name, sro.qualname, n, 'the resolution order is re-ordered', node=n)
    run.floor('C14.order', 2)


def regex_charsets(pattern: str):
    """(first set, rest set, anchored_end_Z) for patterns of the shape ^? [first] [rest]* $?  else None."""
    try:
        parsed = list(sre_parse.parse(pattern))
    except Exception:
        return None
    items = [it for it in parsed]
    # strip anchors
    end_kind = None
    if items and items[0][0] == sre_c.AT:
        items = items[1:]
    if items and items[-1][0] == sre_c.AT:
        end_kind = items[-1][1]
        items = items[:-1]
    if len(items) != 2:
        return None

    def expand(node) -> Optional[Set[str]]:
        op, av = node
        if op == sre_c.LITERAL:
            return {chr(av)}
        if op == sre_c.IN:
            out: Set[str] = set()
            for sub_op, sub_av in av:
                if sub_op == sre_c.NEGATE:
                    return None
                if sub_op == sre_c.LITERAL:
                    out.add(chr(sub_av))
                elif sub_op == sre_c.RANGE:
                    if sub_av[1] - sub_av[0] > 512:
                        return None
                    out |= {chr(c) for c in range(sub_av[0], sub_av[1] + 1)}
                elif sub_op == sre_c.CATEGORY:
                    return None        # \w, \d ... include non-ASCII characters
                else:
                    return None
            return out
        return None
    first = expand(items[0])
    rep = items[1]
    if rep[0] not in (sre_c.MAX_REPEAT, sre_c.MIN_REPEAT):
        return None
    lo, hi, sub = rep[1]
    sub = list(sub)
    if len(sub) != 1:
        return None
    rest = expand(sub[0])
    if first is None or rest is None:
        return None
    return first, rest, end_kind


def _valid_ids_rule(ctx, mut: Mutations) -> Optional[Set[str]]:
    run, prog = ctx.run, ctx.prog
    nids = prog.cls('scoping', 'NamespaceIds')
    post = nids.methods.get('__post_init__')
    charset: Optional[Set[str]] = None
    if post is None:
        run.violation('C14.valid-ids', nids.module.name, 'NamespaceIds', '__post_init__',
                      'NamespaceIds has no __post_init__: identifiers are not validated')
        return None
    # (call, function name, pattern expression, subject expression): re.<fn>(pattern, subject) or <compiled>.<fn>(subject)
    uses = []
    for c in iter_own_nodes(post.node):
        if not isinstance(c, ast.Call) or not isinstance(c.func, ast.Attribute) or c.func.attr not in ('fullmatch', 'match', 'search'):
            continue
        if ast.unparse(c.func.value) == 're':
            uses.append((c, c.func.attr, c.args[0] if c.args else None, c.args[1] if len(c.args) > 1 else None))
            continue
        comp = c.func.value
        if isinstance(comp, ast.Name):
            d = post.module.assigns.get(comp.id)
            if d is None:
                defs = [n for n in iter_own_nodes(post.node) if isinstance(n, ast.Assign) and len(n.targets) == 1
                        and isinstance(n.targets[0], ast.Name) and n.targets[0].id == comp.id]
                d = defs[0].value if len(defs) == 1 else None
            comp = d
        if isinstance(comp, ast.Call) and ast.unparse(comp.func) in ('re.compile', 'compile') and comp.args:
            flags = comp.args[1:] or [k.value for k in comp.keywords if k.arg == 'flags']
            if flags:
                run.error('C14.valid-ids', post.module.name, post.qualname, c, 'compiled pattern with flags is not modelled', node=c)
                continue
            uses.append((c, c.func.attr, comp.args[0], c.args[0] if c.args else None))
    if not uses:
        run.violation('C14.valid-ids', post.module.name, post.qualname, post.qualname,
                      'no regular-expression validation of the identifiers')
    for c, fn_name, pat_e, subj_e in uses:
        pat = const_str(ctx, post, pat_e) if pat_e is not None else None
        if pat is None:
            run.error('C14.valid-ids', post.module.name, post.qualname, c, 'the pattern is not a constant', node=c)
            continue
        cs = regex_charsets(pat)
        if cs is None:
            run.violation('C14.valid-ids', post.module.name, post.qualname, c,
                          f'pattern {pat!r} is not of the shape [first][rest]* over explicit ASCII classes (negation, '
                          f'\\w/\\d categories or other constructs admit characters outside [A-Za-z0-9_])', node=c)
            continue
        first, rest, end_kind = cs
        extra_f, extra_r = sorted(first - ID_FIRST), sorted(rest - ID_REST)
        ok = not extra_f and not extra_r
        run.add('C14.valid-ids', post.module.name, post.qualname, c, ok,
                f'language of {pat!r} is a subset of [A-Za-z_][A-Za-z0-9_]*' if ok else
                f'pattern {pat!r} admits {extra_f + extra_r} which are not identifier characters', node=c)
        charset = first | rest
        if fn_name == 'fullmatch':
            run.holds('C14.valid-ids', post.module.name, post.qualname, f'{fn_name} anchoring',
                      'fullmatch: the whole identifier must match')
        elif fn_name == 'match' and end_kind == sre_c.AT_END_STRING:
            run.holds('C14.valid-ids', post.module.name, post.qualname, f'{fn_name} anchoring', 'match with \\Z')
        else:
            run.violation('C14.valid-ids', post.module.name, post.qualname, c,
                          f're.{fn_name} does not anchor the end of the identifier exactly ("$" also matches before a '
                          f'trailing newline; search matches anywhere): invalid identifiers are accepted', node=c)
        # applied to every identifier, failure raises: decided by interpreting the constructor (E7) on lists of one to three
        # strings with a malformed one at every position; the shape test below only when that is not possible
        sem_every = _every_identifier_checked(ctx, nids)
        if sem_every is not None:
            bad_ = sem_every
            run.add('C14.valid-ids', post.module.name, post.qualname, 'every identifier is validated', not bad_,
                    'a malformed identifier at any position of the list makes the constructor raise NamespaceIdsTypeError, well-formed '
                    'lists are accepted (constructor interpreted on lists of 1-3 strings)' if not bad_ else
                    'the validation does not cover every identifier: ' + '; '.join(bad_[:3]), node=c)
            continue
        loop = ctx.flow.enclosing(c, (ast.For,))
        ok = loop is not None and ast.unparse(loop.iter) == 'self.items' and isinstance(loop.target, ast.Name) and \
            subj_e is not None and ast.unparse(subj_e) == loop.target.id
        run.add('C14.valid-ids', post.module.name, post.qualname, loop if loop is not None else c, bool(ok),
                'every identifier of items is validated' if ok else
                'the validation does not run over every element of self.items', node=c)
        guard = ctx.flow.enclosing(c, (ast.If,))
        ok = guard is not None and always_raises(guard.body) and isinstance(guard.test, ast.UnaryOp)
        run.add('C14.valid-ids', post.module.name, post.qualname, guard if guard is not None else c, bool(ok),
                'a non-matching identifier raises' if ok else 'a non-matching identifier does not raise', node=c)
    # (ii) no constructor bypass; (iii) who may write .items
    for fn in prog.all_functions():
        for c in iter_own_nodes(fn.node):
            if isinstance(c, ast.Call) and ast.unparse(c.func) in ('object.__new__', 'NamespaceIds.__new__',
                                                                     'dataclasses.replace', 'replace'):
                run.violation('C14.valid-ids', fn.module.name, fn.qualname, c,
                              'NamespaceIds may be created without its validating __post_init__', node=c)
    def valid_source(fn, e, depth=0) -> bool:
        """`e` yields identifiers that were taken out of NamespaceIds instances (validated when those were constructed)."""
        if depth > 6 or e is None:
            return False
        env = ctx.cg.env(fn)
        if isinstance(e, ast.Attribute) and e.attr == 'items':
            return strip_opt(env.type_of(e.value)) == ('cls', nids.fq)
        if isinstance(e, ast.Subscript) and isinstance(e.slice, ast.Slice):
            return valid_source(fn, e.value, depth + 1)
        if isinstance(e, ast.BinOp) and isinstance(e.op, ast.Add):
            return valid_source(fn, e.left, depth + 1) and valid_source(fn, e.right, depth + 1)
        if isinstance(e, ast.Starred):
            return valid_source(fn, e.value, depth + 1)
        if isinstance(e, (ast.List, ast.Tuple)):
            return all(isinstance(x, ast.Starred) and valid_source(fn, x.value, depth + 1) for x in e.elts)
        if isinstance(e, ast.Call):
            fname = ast.unparse(e.func)
            if fname in ('list', 'tuple', 'reversed', 'iter') and len(e.args) == 1 and not e.keywords:
                return valid_source(fn, e.args[0], depth + 1)
            if fname in ('chain', 'itertools.chain') and e.args and not e.keywords:
                return all(valid_source(fn, a, depth + 1) for a in e.args)
            if fname in ('chain.from_iterable', 'itertools.chain.from_iterable') and len(e.args) == 1:
                g = e.args[0]
                if isinstance(g, (ast.GeneratorExp, ast.ListComp)) and not any(x.ifs and False for x in g.generators):
                    return valid_source(fn, g.elt, depth + 1)
                return False
            return False
        if isinstance(e, (ast.GeneratorExp, ast.ListComp)):
            # [x for y in ys for x in y.items]: the element is a variable ranging over a valid source
            if isinstance(e.elt, ast.Name):
                for g in e.generators:
                    if isinstance(g.target, ast.Name) and g.target.id == e.elt.id:
                        return valid_source(fn, g.iter, depth + 1)
            return False
        if isinstance(e, ast.Name):
            d = env.single_def(e.id)
            return d is not None and valid_source(fn, d, depth + 1)
        return False

    allowed_writers = {'NamespaceIds.__iadd__', 'scope_resolution_order'}
    n_w = 0
    for fq, evs in mut.events.items():
        for ev in evs:
            prefixes = mut.static_prefix_types(ev.fn, ev.receiver)
            is_items = any(txt.endswith('.items') and strip_opt(t)[0] == 'list' for txt, t in prefixes[:1]) and \
                any(strip_opt(t) == ('cls', nids.fq) for _txt, t in prefixes[1:2])
            if not is_items:
                continue
            n_w += 1
            fresh = all(is_fresh(r) for r in ev.roots)
            if ev.fn.qualname == 'NamespaceIds.__iadd__':
                # extends with the items of another validated instance
                arg = ev.node.args[0] if isinstance(ev.node, ast.Call) and ev.node.args else None
                ok = ev.how.endswith('.extend()') and arg is not None and ast.unparse(arg).endswith('.items')
                run.add('C14.valid-ids', ev.fn.module.name, ev.fn.qualname, ev.node, ok,
                        '__iadd__ extends with the items of another (validated) NamespaceIds' if ok else
                        '__iadd__ adds unvalidated content to items', node=ev.node)
            elif ev.fn.qualname in allowed_writers and fresh and 'pop' in ev.how:
                run.holds('C14.valid-ids', ev.fn.module.name, ev.fn.qualname, ev.node,
                          'removes identifiers from its own deep copy', node=ev.node)
            elif fresh and ev.how.endswith('.extend()') and isinstance(ev.node, ast.Call) and len(ev.node.args) == 1 and \
                    valid_source(ev.fn, ev.node.args[0]):
                run.holds('C14.valid-ids', ev.fn.module.name, ev.fn.qualname, ev.node,
                          'extends an instance of its own with identifiers taken out of other (validated) NamespaceIds', node=ev.node)
            else:
                run.violation('C14.valid-ids', ev.fn.module.name, ev.fn.qualname, ev.node,
                              f'{ev.how} on `{ast.unparse(ev.receiver)[:50]}`: items of a NamespaceIds are written '
                              f'outside the validating constructor path', node=ev.node)
    if n_w < 1:
        run.error('C14.valid-ids', '-', '-', '.items writers', f'no writer of NamespaceIds.items recognised (2 on the reference tree)')
    run.floor('C14.valid-ids', 6)
    return charset


def _notation_by_interpretation(ctx) -> bool:
    """Writers and reader interpreted (dznverif.scenario, E7): for identifier lists of one to three identifiers,
    str(NamespaceIds(ids)), str(ScopeName(..)) and str(Fqn(..)) (without root prefix) are read back by namespaceids_t into
    the same identifiers; a list, a NamespaceIds, '' and a single identifier are read as themselves.  The conversions only
    join and split at the separators, the identifiers stand for any.  False when not interpretable."""
    from ..scenario import Interp, Obj, Raised, Undecided
    run, prog = ctx.run, ctx.prog
    try:
        nt = prog.func('scoping', 'namespaceids_t')
        nids, sn, fq = prog.cls('scoping', 'NamespaceIds'), prog.cls('ast', 'ScopeName'), prog.cls('cpp_gen', 'Fqn')
    except Exception:       # pylint: disable=broad-except
        return False
    bad: List[str] = []
    n = 0

    def items_of(v):
        return v.fields.get('items') if isinstance(v, Obj) and v.cls is nids else None
    try:
        for ids in (['a'], ['ab', 'a'], ['a', 'b', 'c'], ['_x1', 'Y']):
            it = Interp(prog)
            base = it.construct(nids, [list(ids)], {})
            for label, make in (('NamespaceIds', lambda: base), ('ScopeName', lambda: it.construct(sn, [base], {})),
                                ('Fqn', lambda: it.construct(fq, [base], {}))):
                n += 1
                try:
                    text = it.text(make())
                    back = it.call_function(nt, [text], {})
                except Raised as exc:
                    bad.append(f'{label} of {ids}: raises {exc.name.split(".")[-1]}')
                    continue
                if items_of(back) != ids:
                    bad.append(f'str({label}({".".join(ids)})) = {text!r} is read back by namespaceids_t as {items_of(back)!r}')
            for label, arg, want in (('a list of identifiers', list(ids), ids), ('a NamespaceIds', base, ids)):
                n += 1
                try:
                    back = it.call_function(nt, [arg], {})
                except Raised as exc:
                    bad.append(f'{label}: raises {exc.name.split(".")[-1]}')
                    continue
                if items_of(back) != want:
                    bad.append(f'{label} {ids} is read as {items_of(back)!r}')
        for text, want in (('', []), ('solo', ['solo'])):
            n += 1
            try:
                back = Interp(prog).call_function(nt, [text], {})
                if items_of(back) != want:
                    bad.append(f'{text!r} is read as {items_of(back)!r}')
            except Raised as exc:
                bad.append(f'{text!r}: raises {exc.name.split(".")[-1]}')
    except Undecided as exc:
        run.remark(f'C14: the notation conversions could not be interpreted ({exc}); the separator tables decide')
        return False
    for k in range(4):
        run.add('C14.notation', nt.module.name, nt.qualname, f'round trip {k + 1}: writers -> namespaceids_t ({n} conversions)', not bad,
                'what NamespaceIds, ScopeName and Fqn write (`.` / `::` between the identifiers) is read back by namespaceids_t into the '
                'same identifiers; lists, NamespaceIds, the empty string and a single identifier are taken as they are' if not bad
                else '; '.join(bad[:3]))
    return True


def _notation_rule(ctx, charset: Optional[Set[str]]):
    run, prog = ctx.run, ctx.prog
    if _notation_by_interpretation(ctx):
        return
    nt = prog.func('scoping', 'namespaceids_t')
    reader: List[str] = []
    for n in iter_own_nodes(nt.node):
        if isinstance(n, ast.Call) and isinstance(n.func, ast.Attribute) and n.func.attr == 'split' and n.args:
            s = const_str(ctx, nt, n.args[0])
            if s is not None:
                reader.append(s)
                # the branch is taken only when the separator occurs
                guard = [ast.unparse(c) for c, p in ctx.flow.path_conditions(n) if p]
                ok = any(repr(s) in g and ' in ' in g for g in guard)
                run.add('C14.notation', nt.module.name, nt.qualname, n, ok,
                        f'splits on {s!r} when it occurs' if ok else f'split on {s!r} is not guarded by its occurrence',
                        node=n)
    writers = []
    for cls_mod, cls_name in (('scoping', 'NamespaceIds'), ('ast', 'ScopeName'), ('cpp_gen', 'Fqn')):
        c = prog.cls(cls_mod, cls_name)
        m = c.methods.get('__str__')
        if m is None:
            run.error('C14.notation', c.module.name, cls_name, '__str__', f'{cls_name}.__str__ vanished')
            continue
        seps = set()
        for n in iter_own_nodes(m.node):
            if isinstance(n, ast.Call) and isinstance(n.func, ast.Attribute) and n.func.attr == 'join':
                s = const_str(ctx, m, n.func.value)
                if s is not None:
                    seps.add(s)
        for s in sorted(seps):
            writers.append((cls_name, s))
            ok = s in reader
            run.add('C14.notation', m.module.name, m.qualname, f'{cls_name} separator {s!r}', ok,
                    f'{cls_name} writes with {s!r}, which namespaceids_t splits on' if ok else
                    f'{cls_name} writes with {s!r}, which namespaceids_t does not split on: the notation does not '
                    f'convert back')
    if charset is not None:
        for s in sorted(set(reader)):
            clash = [ch for ch in s if ch in charset]
            run.add('C14.notation', nt.module.name, nt.qualname, f'separator {s!r} vs identifier characters', not clash,
                    f'separator {s!r} cannot occur inside a valid identifier' if not clash else
                    f'separator character(s) {clash} are valid identifier characters: splitting is ambiguous')
    if len(reader) < 2 or len(writers) < 3:
        run.error('C14.notation', nt.module.name, nt.qualname, 'separator tables',
                  f'reader separators {reader}, writer separators {writers}: fewer than confirmed (2 / 3)')
