"""C09 - facility ownership follows the configured origin.

Decides on the generator templates, per origin (the branches must be exhaustive over FacilitiesOrigin and agree
with each other): C09.members, C09.chain (CREATE: FacilitiesCheck(param).clone().set(runtime).set(dispatcher),
encapsulee from the locator member), C09.import, C09.check (presence / absence tests with the right polarity for
both dzn::pump and dzn::runtime, returns its parameter), C09.order (declaration order is a topological order of the
member-init dependencies), C09.accessor (Locator() only for CREATE).
"""
from __future__ import annotations

import ast
from typing import Any, Dict, List, Optional

from ..model import iter_own_nodes
from ..template import TStr, TObj, TAlt, TRaise, TNone, TList, TBlock, TEnum, Sym, Hole, RepL, AltL
from ..links import Scenario, lex, toks_text, tok_text, statements_of, match_close
from .wiring import build_wiring, PROC
from .shared import expand_aliases

MOD = 'dznpy.adv_shell.core.processing'


def _fqn_ids(typedesc: Any) -> Optional[tuple]:
    if isinstance(typedesc, TObj):
        fq = typedesc.fields.get('fqn')
        if isinstance(fq, TObj):
            ns = fq.fields.get('ns_ids')
            if isinstance(ns, tuple) and ns[0] == 'nsids':
                return ns[1]
    return None


def _postfix(typedesc: Any) -> Optional[str]:
    if isinstance(typedesc, TObj):
        p = typedesc.fields.get('postfix')
        if isinstance(p, TEnum):
            return p.member
    return None


def check(ctx):
    run, prog = ctx.run, ctx.prog
    run.explanation = (
        'Decided on the generator templates, evaluated per FacilitiesOrigin member (E4): C09.members - CREATE: '
        'dispatcher, runtime and locator are value members of dzn::pump / dzn::runtime / dzn::locator and a Locator() '
        'accessor returns a reference to the locator member; IMPORT: the dispatcher is a reference member, '
        'runtime/locator/accessor are absent; C09.chain - CREATE: the locator member is initialised from '
        'FacilitiesCheck(<ctor param>).clone() followed by .set() of both owned facilities (prototype untouched), the '
        'encapsulee is constructed from the locator member; C09.import - the dispatcher reference is bound to '
        'FacilitiesCheck(<param>).get<dzn::pump>() and the encapsulee is constructed from the parameter; C09.check - '
        'FacilitiesCheck tests dzn::pump and dzn::runtime with != nullptr (CREATE) / == nullptr (IMPORT), throws, and '
        'returns its parameter; C09.order - declaration order is a topological order of the init dependencies; '
        'C09.accessor - the Locator() accessor is declared/defined only when it exists. Not decided: object identity and '
        'exception behaviour at run time; semantics of dzn::locator::clone/set/get/try_get (Dezyne runtime).')
    run.trusted = ['python ast module', 'dznverif E4 template evaluator / scenario evaluation / C++ token patterns']
    w = build_wiring(ctx, entries=('create_constructor', 'create_facilities', 'create_facilities_check_fn'))
    fo = prog.cls('adv_shell.common', 'FacilitiesOrigin')
    origins = sorted(fo.enum_members)
    if origins != ['CREATE', 'IMPORT']:
        run.error('C09.members', fo.module.name, 'FacilitiesOrigin', str(origins), 'FacilitiesOrigin members changed')
        return

    for origin in origins:
        sc = Scenario(origin=origin, kind='P-MTS-plain', has_multiclient=False)
        # ---- C09.members --------------------------------------------------------------------------------------------
        fac = sc.select(w.values['create_facilities'])
        if not isinstance(fac, TObj):
            run.violation('C09.members', MOD, 'create_facilities', f'{origin}',
                          f'create_facilities does not produce facilities for origin {origin} ({fac!r})'[:200])
            continue
        disp, rt, loc, acc = (fac.fields.get(k) for k in ('dispatcher', 'runtime', 'locator', 'locator_accessor_fn'))
        problems = []
        if origin == 'CREATE':
            for name, mv, ids in (('dispatcher', disp, ('dzn', 'pump')), ('runtime', rt, ('dzn', 'runtime')),
                                  ('locator', loc, ('dzn', 'locator'))):
                if not isinstance(mv, TObj):
                    problems.append(f'{name} member is missing')
                    continue
                if _fqn_ids(mv.fields.get('type')) != ids:
                    problems.append(f'{name} member has type {_fqn_ids(mv.fields.get("type"))}, expected {"::".join(ids)}')
                if _postfix(mv.fields.get('type')) != 'NONE':
                    problems.append(f'{name} is not an owned (value) member')
            if not isinstance(acc, TObj):
                problems.append('no Locator() accessor')
            else:
                if _postfix(acc.fields.get('return_type')) != 'REFERENCE' or _fqn_ids(acc.fields.get('return_type')) != ('dzn', 'locator'):
                    problems.append('Locator() does not return dzn::locator&')
                body = acc.fields.get('contents')
                bt = toks_text(lex(body)) if isinstance(body, TStr) else ''
                ln = loc.fields.get('name') if isinstance(loc, TObj) else None
                if not (isinstance(ln, TStr) and bt == f'return {ln.const()} ;'):
                    problems.append(f'Locator() returns `{bt}`, not the locator member')
        else:
            if not isinstance(disp, TObj) or _postfix(disp.fields.get('type')) != 'REFERENCE' or \
                    _fqn_ids(disp.fields.get('type')) != ('dzn', 'pump'):
                problems.append('the dispatcher is not a dzn::pump& reference member')
            for name, v in (('runtime', rt), ('locator', loc), ('Locator() accessor', acc)):
                if v is not TNone:
                    problems.append(f'{name} exists although the facilities are imported')
        run.add('C09.members', MOD, 'create_facilities', f'{origin}: members', not problems,
                f'{origin}: facility members as specified' if not problems else f'{origin}: ' + '; '.join(problems))

        # ---- C09.chain / C09.import -------------------------------------------------------------------------------------
        # the constructor is rendered for the facilities of THIS origin: which of their members exist is what C09.members has
        # just read off create_facilities
        from ..template import TNone as _TNone
        sc.known_none = {('facilities', (k_,)): (v_ is _TNone) for k_, v_ in fac.fields.items()
                         if v_ is _TNone or isinstance(v_, TObj)}
        ctor = sc.select(w.values['create_constructor'])
        if not isinstance(ctor, TObj):
            run.violation('C09.chain', MOD, 'create_constructor', f'{origin}', f'no constructor for origin {origin}: {ctor!r}'[:160])
            continue
        mil = ctor.fields.get('member_initlist')
        params = ctor.fields.get('params')
        p0 = params.items[0] if isinstance(params, TList) and params.items else None
        pname = p0.fields['name'].const() if isinstance(p0, TObj) and isinstance(p0.fields.get('name'), TStr) else None
        entries = [lex(x) for x in mil.items if isinstance(x, TStr)] if isinstance(mil, TList) else []
        problems = []
        if _postfix(p0.fields.get('type_desc')) != 'REFERENCE' or _fqn_ids(p0.fields.get('type_desc')) != ('dzn', 'locator'):
            problems.append('first constructor parameter is not a const dzn::locator&')
        if len(entries) < 2:
            problems.append('member-init list has fewer than two facility entries')
        else:
            e0, e1 = entries[0], entries[1]
            t0, t1 = [tok_text(t) for t in e0], [tok_text(t) for t in e1]

            def hole_path(tok):
                return tok[1].sym.path if tok[0] == 'hole' else None
            if origin == 'CREATE':
                if hole_path(e0[0]) != ('locator', 'name'):
                    problems.append(f'first initialiser is `{t0[0]}`, not the locator member')
                txt = ' '.join(t0[1:])
                # ( std :: move ( FacilitiesCheck ( <param> ) . clone ( ) . set ( X ) . set ( Y ) ) )
                want_head = f'( std :: move ( FacilitiesCheck ( {pname} ) . clone ( )'
                if not txt.startswith(want_head):
                    problems.append('the locator is not built from FacilitiesCheck(<prototype>).clone(): the user\'s '
                                    'prototype would be modified or the presence check skipped')
                sets = []
                i = 0
                while i < len(e0):
                    if e0[i] == ('id', 'set') and i + 2 < len(e0) and e0[i + 1] == ('p', '('):
                        sets.append(hole_path(e0[i + 2]))
                    i += 1
                if sorted(s for s in sets if s) != [('dispatcher', 'name'), ('runtime', 'name')]:
                    problems.append(f'the owned facilities set on the cloned locator are {sets}; both runtime and '
                                    f'dispatcher must be set')
                clone_idx = t0.index('clone') if 'clone' in t0 else -1
                if any(i < clone_idx for i, t in enumerate(t0) if t == 'set'):
                    problems.append('.set() is applied before .clone()')
                if t0.count(pname) != 1:
                    problems.append('the prototype locator is used outside FacilitiesCheck(...)')
                if not (hole_path(e1[0]) == ('member_var', 'name') and e1[0][1].sym.root == 'encapsulee' and
                        len(e1) == 4 and hole_path(e1[2]) == ('locator', 'name')):
                    problems.append(f'the encapsulee is constructed with `{" ".join(t1[1:])}`, not the shell\'s own locator')
            else:
                if hole_path(e0[0]) != ('dispatcher', 'name'):
                    problems.append(f'first initialiser is `{t0[0]}`, not the dispatcher reference')
                if ' '.join(t0[1:]) != f'( FacilitiesCheck ( {pname} ) . get < dzn :: pump > ( ) )':
                    problems.append(f'the dispatcher is bound to `{" ".join(t0[1:])}`')
                if not (hole_path(e1[0]) == ('member_var', 'name') and e1[0][1].sym.root == 'encapsulee' and
                        t1[1:] == ['(', pname, ')']):
                    problems.append(f'the encapsulee is constructed with `{" ".join(t1[1:])}`, not the user\'s locator')
        rule = 'C09.chain' if origin == 'CREATE' else 'C09.import'
        run.add(rule, MOD, 'create_constructor', f'{origin}: facility initialisers', not problems,
                f'{origin}: facility part of the member-init list as specified' if not problems else f'{origin}: ' + '; '.join(problems))

        # ---- C09.check -------------------------------------------------------------------------------------------------------
        chk = sc.select(w.values['create_facilities_check_fn'])
        body = chk.fields.get('contents') if isinstance(chk, TObj) else None
        text = w.ev.to_str(body, 2) if body is not None and body is not TNone and not isinstance(body, TStr) else body
        stmts = statements_of(sc.simplify(text)) if isinstance(text, TStr) else []
        returns_param = False
        cparam = None
        cps = chk.fields.get('params') if isinstance(chk, TObj) else None
        if isinstance(cps, TList) and cps.items and isinstance(cps.items[0], TObj):
            cparam = cps.items[0].fields['name'].const()
        # every `if (<cond>) throw ...;` statement, its condition parsed as a boolean formula over
        # "<param>.try_get<dzn::X>() ==/!= nullptr" atoms; the function throws iff one of the guards fires
        guards = []
        unparsed = []
        early_return = False
        for st in stmts:
            t = [tok_text(x) for x in st]
            if t[:2] == ['if', '('] and 'throw' in t:
                close = match_close(st, 1)
                f = _parse_presence(t[2:close], cparam)
                if f is None:
                    unparsed.append(' '.join(t[2:close])[:80])
                else:
                    guards.append(f)
            if t == ['return', cparam]:
                returns_param = True
            elif t[:1] == ['return'] and not guards:
                early_return = True
        seen = {}
        problems = []
        if unparsed:
            problems.append(f'guard condition(s) not understood: {unparsed}')
        want = (lambda pump, rt: pump or rt) if origin == 'CREATE' else (lambda pump, rt: (not pump) or (not rt))
        wrong = []
        for pump in (False, True):
            for rt in (False, True):
                throws = any(g({'dzn::pump': pump, 'dzn::runtime': rt}) for g in guards)
                seen[f"pump={'y' if pump else 'n'},runtime={'y' if rt else 'n'}"] = 'throw' if throws else 'pass'
                if throws != want(pump, rt) and not unparsed:
                    wrong.append(f"prototype {'with' if pump else 'without'} dispatcher, {'with' if rt else 'without'} runtime: "
                                 f"{'refused' if throws else 'accepted'}")
        if wrong:
            problems.append(('CREATE must refuse a prototype that already carries a dispatcher or a runtime' if origin == 'CREATE' else
                             'IMPORT must refuse a prototype that lacks the dispatcher or the runtime') + ' - ' + '; '.join(wrong))
        if early_return:
            problems.append('the check returns before the guards')
        if not returns_param:
            problems.append('the checked locator is not returned')
        if not isinstance(chk, TObj) or not isinstance(chk.fields.get('prefix'), TEnum) or chk.fields['prefix'].member != 'STATIC':
            problems.append('FacilitiesCheck is not static (it runs before the members are constructed)')
        run.add('C09.check', MOD, 'create_facilities_check_fn', f'{origin}: {seen}', not problems,
                f'{origin}: construction fails when dispatcher/runtime are ' + ('already present' if origin == 'CREATE' else 'missing')
                if not problems else f'{origin}: ' + '; '.join(problems))

    # ---- C09.order ------------------------------------------------------------------------------------------------------------------
    fcls = prog.cls('adv_shell.common', 'Facilities')
    mvp = fcls.methods.get('member_variables')
    order = []

    def with_helpers(m):
        """the method and the properties / methods of the same class it reads through `self.<name>` (one level)"""
        out = [m]
        for n in iter_own_nodes(m.node):
            if isinstance(n, ast.Attribute) and isinstance(n.value, ast.Name) and n.value.id == 'self':
                h = fcls.methods.get(n.attr)
                if h is not None and h is not m and h not in out:
                    out.append(h)
        return out
    if mvp is not None:
        # the literal sequence of the facility members, whether it feeds a comprehension, a generator or an explicit loop
        for m_ in with_helpers(mvp):
            for n in iter_own_nodes(m_.node):
                if isinstance(n, (ast.List, ast.Tuple)) and len(n.elts) >= 2 and all(
                        isinstance(e, ast.Attribute) and isinstance(e.value, ast.Name) and e.value.id == 'self' for e in n.elts):
                    order = [e.attr for e in n.elts]
    # semantic first: the member block evaluated (E4) over a symbolic Facilities object - the order in which the three member
    # variables are rendered, however the block is assembled (comprehension, explicit loop, unrolled ifs, helper property)
    if mvp is not None:
        try:
            from ..template import Evaluator as _Ev, Sym as _Sym, TObj as _TObj, Hole as _Hole, AltS as _AltS, RepS as _RepS, TStr as _TStr, TBlock as _TBlock
            ev_ = _Ev(prog, ctx.cg)
            fields_ = {k: _Sym('fac', (k,), prog.ann_to_type(o.module, ann, o)) for k, (ann, _d, o) in prog.class_fields(fcls).items()}
            val_ = ev_.call_function(mvp, [], {}, 0, self_val=_TObj(fcls, fields_))
            text_ = ev_.to_str(val_, 0) if not isinstance(val_, _TStr) else val_
            seen_: List[str] = []

            def holes_(t_):
                for p_ in t_.parts:
                    if isinstance(p_, _Hole) and p_.sym.root == 'fac' and p_.sym.path and p_.sym.path[0] in ('runtime', 'dispatcher', 'locator'):
                        if p_.sym.path[0] not in seen_:
                            seen_.append(p_.sym.path[0])
                    elif isinstance(p_, _AltS):
                        holes_(p_.a)
                        holes_(p_.b)
                    elif isinstance(p_, _RepS):
                        holes_(p_.elem)
            if isinstance(text_, _TStr):
                holes_(text_)
            if set(seen_) == {'runtime', 'dispatcher', 'locator'}:
                order = seen_
        except Exception:       # pylint: disable=broad-except
            pass                # not evaluated: the literal sequence found above decides
    ok = order and set(order) == {'runtime', 'dispatcher', 'locator'} and order.index('locator') > order.index('runtime') \
        and order.index('locator') > order.index('dispatcher')
    run.add('C09.order', fcls.module.name, 'Facilities.member_variables', f'declaration order {order}', bool(ok),
            'runtime and dispatcher are declared (hence initialised) before the locator that refers to them' if ok else
            f'facility members are declared in order {order}: the locator is initialised with references to members '
            f'that are not constructed yet')
    hdr = prog.cls('adv_shell', 'Builder').methods.get('_create_headerfile')
    seq = []
    if hdr is not None:
        # the list handed to the PRIVATE access-specified section (whatever the local is called)
        private_name = None
        for n in iter_own_nodes(hdr.node):
            if isinstance(n, ast.Call) and getattr(n.func, 'attr', getattr(n.func, 'id', '')) == 'AccessSpecifiedSection':
                kw = {k.arg: k.value for k in n.keywords}
                spec = kw.get('access_specifier', n.args[0] if n.args else None)
                cont = kw.get('contents', n.args[1] if len(n.args) > 1 else None)
                if spec is not None and ast.unparse(spec).endswith('PRIVATE') and cont is not None:
                    names = [x.id for x in ast.walk(cont) if isinstance(x, ast.Name) and isinstance(x.ctx, ast.Load)]
                    lists = [nm for nm in names if any(isinstance(a, ast.Assign) and getattr(a.targets[0], 'id', '') == nm and
                                                       isinstance(a.value, ast.List) for a in iter_own_nodes(hdr.node))]
                    private_name = lists[0] if lists else None
        for n in iter_own_nodes(hdr.node):
            if isinstance(n, ast.Assign) and private_name and getattr(n.targets[0], 'id', '') == private_name and isinstance(n.value, ast.List):
                seq = [ast.unparse(expand_aliases(hdr, e)) for e in n.value.elts]

    def pos(key):
        return next((i for i, s in enumerate(seq) if key in s), -1)
    pf, pe, pp, pr = pos('facilities.member_variables'), pos('cpp_elements.encapsulee'), pos('provides_ports.rerouting_class_members'), pos('requires_ports.rerouting_class_members')
    from .shared import shell_frame_anchors
    fa = shell_frame_anchors(ctx)
    if fa is not None:
        # read off the evaluated header template (E4): where the member variables of the facilities, the encapsulee and the
        # rerouting members of the boundary ports are rendered
        hd = fa['header']

        def first(pred):
            return next((i for i, a in enumerate(hd) if pred(a)), -1)
        pf = first(lambda a: a[0] == 'hole' and a[1].startswith(('cpp.facilities.runtime.', 'cpp.facilities.dispatcher.', 'cpp.facilities.locator.')))
        pe = first(lambda a: a[0] == 'hole' and a[1] == 'cpp.encapsulee')
        pp = first(lambda a: a[0] == 'rep' and a[1].startswith('cpp.provides_ports') and any(x.startswith('member_var') for x in a[2]))
        pr = first(lambda a: a[0] == 'rep' and a[1].startswith('cpp.requires_ports') and any(x.startswith('member_var') for x in a[2]))
        seq = [a[1] for a in hd if (a[0] == 'hole' and a[1] == 'cpp.encapsulee') or (a[0] == 'rep' and any(x.startswith('member_var') for x in a[2]))]
    ok = 0 <= pf < pe < pp and pe < pr
    run.add('C09.order', 'dznpy.adv_shell', 'Builder._create_headerfile', 'private section order', ok,
            'facilities are declared before the encapsulee, the encapsulee before the boundary ports' if ok else
            f'private members are declared in the order {seq}: a member is initialised from one that is declared later')

    # ---- C09.accessor ------------------------------------------------------------------------------------------------------------------
    for prop in ('accessors_decl', 'accessors_def'):
        m = fcls.methods.get(prop)
        ok = m is not None and any(isinstance(n, (ast.ListComp, ast.GeneratorExp)) and n.generators[0].ifs and
                                   'is not None' in ast.unparse(n.generators[0].ifs[0]) and
                                   'locator_accessor_fn' in ast.unparse(n.generators[0].iter)
                                   for m_ in with_helpers(m) for n in iter_own_nodes(m_.node))
        run.add('C09.accessor', fcls.module.name, f'Facilities.{prop}', prop, ok,
                'the Locator() accessor is rendered only when it exists (CREATE)' if ok else
                'the accessor list does not skip an absent Locator() accessor')
    run.floor('C09.members', 2)
    run.floor('C09.check', 2)


def _parse_presence(toks: List[str], param: Optional[str]):
    """Boolean formula over `<param>.try_get<dzn::X>() == / != nullptr` atoms with && || ! ( ): a function from
    {'dzn::pump': bool, 'dzn::runtime': bool} (facility present in the prototype) to bool; None when not of that shape."""
    pos = 0

    def peek():
        return toks[pos] if pos < len(toks) else None

    def atom():
        nonlocal pos
        if peek() == '!':
            pos += 1
            f = atom()
            return None if f is None else (lambda env, f=f: not f(env))
        if peek() == '(':
            pos += 1
            f = disj()
            if f is None or peek() != ')':
                return None
            pos += 1
            return f
        # <param> . try_get < dzn :: X > ( ) OP nullptr      |   nullptr OP <param> . try_get ...
        flip = False
        if peek() == 'nullptr' and pos + 1 < len(toks) and toks[pos + 1] in ('==', '!='):
            op = toks[pos + 1]
            pos += 2
            flip = True
        if toks[pos:pos + 4] != [param, '.', 'try_get', '<']:
            return None
        try:
            gt = toks.index('>', pos)
        except ValueError:
            return None
        typ = ''.join(toks[pos + 4:gt])
        if toks[gt + 1:gt + 3] != ['(', ')'] or typ not in ('dzn::pump', 'dzn::runtime'):
            return None
        pos = gt + 3
        if not flip:
            if peek() not in ('==', '!=') or pos + 1 >= len(toks) or toks[pos + 1] != 'nullptr':
                # bare pointer used as a condition: true when present
                return lambda env, typ=typ: env[typ]
            op = peek()
            pos += 2
        present = op == '!='
        return lambda env, typ=typ, present=present: env[typ] == present

    def conj():
        nonlocal pos
        f = atom()
        while f is not None and peek() == '&&':
            pos += 1
            g = atom()
            if g is None:
                return None
            f = (lambda env, f=f, g=g: f(env) and g(env))
        return f

    def disj():
        nonlocal pos
        f = conj()
        while f is not None and peek() == '||':
            pos += 1
            g = conj()
            if g is None:
                return None
            f = (lambda env, f=f, g=g: f(env) or g(env))
        return f

    f = disj()
    return f if f is not None and pos == len(toks) else None
