"""Rule helpers shared by several properties."""
from __future__ import annotations

import ast
from typing import Any, List, Optional, Tuple

from ..model import FuncInfo, ClassInfo, Module, iter_own_nodes
from ..report import AnalysisError

SUPPORT_MODULES = ['strict_port', 'ilog', 'misc_utils', 'meta_helpers', 'multi_client_selector', 'mutex_wrapped']


def entry_points_build(ctx, extra: List[Tuple[str, str]] = ()) -> List[FuncInfo]:
    """Builder.build and the six stand-alone create_header functions (discovered: every module of the
    support_files package that defines create_header)."""
    prog = ctx.prog
    out = [prog.func('adv_shell', 'Builder.build')]
    found = 0
    for mod in prog.modules.values():
        if mod.name.startswith('dznpy.support_files.') and 'create_header' in mod.functions:
            out.append(mod.functions['create_header'])
            found += 1
    if found < 6:
        raise AnalysisError(f'only {found} support_files.*.create_header found, 6 confirmed on the reference tree')
    for m, q in extra:
        out.append(prog.func(m, q))
    return out


def is_immutable_value(prog, mod: Module, e: Optional[ast.expr]) -> bool:
    if e is None:
        return True
    if isinstance(e, ast.Constant):
        return True
    if isinstance(e, ast.JoinedStr):
        return True
    if isinstance(e, ast.Lambda):
        # a function object; closed over nothing at module level (default values would be evaluated once and shared)
        return not e.args.defaults and not any(d is not None for d in e.args.kw_defaults)
    if isinstance(e, ast.Tuple):
        return all(is_immutable_value(prog, mod, x) for x in e.elts)
    if isinstance(e, ast.UnaryOp):
        return is_immutable_value(prog, mod, e.operand)
    if isinstance(e, ast.BinOp):
        return is_immutable_value(prog, mod, e.left) and is_immutable_value(prog, mod, e.right)
    if isinstance(e, ast.Name) and e.id in ('bool', 'int', 'float', 'complex', 'str', 'bytes', 'tuple', 'frozenset', 'list', 'dict',
                                            'set', 'type', 'object', 'None', 'True', 'False') and prog.resolve_name(mod, e.id) is None:
        return True             # a builtin type / constant (the type object itself is immutable)
    if isinstance(e, (ast.Name, ast.Attribute)):
        sym = prog.resolve_expr_symbol(mod, e)
        if isinstance(sym, (ClassInfo, FuncInfo, Module)):
            return True
        if isinstance(sym, tuple) and sym[0] == 'enum_member':
            return True
        if isinstance(sym, tuple) and sym[0] == 'const':
            return is_immutable_value(prog, sym[2], sym[1])
        if isinstance(sym, tuple) and sym[0] == 'ext':
            return True            # e.g. typing aliases, imported functions
        return False
    if isinstance(e, ast.Subscript):   # typing alias such as List[str]
        return isinstance(e.value, (ast.Name, ast.Attribute))
    if isinstance(e, ast.Call):
        fname = e.func.id if isinstance(e.func, ast.Name) else getattr(e.func, 'attr', '')
        if fname in ('frozenset', 'tuple', 'str', 'int', 'float', 'bool', 'bytes', 'TypeVar', 'NewType',
                     'namedtuple', 'compile'):
            return True
        sym = prog.resolve_expr_symbol(mod, e.func)
        if fname == 'MappingProxyType' and len(e.args) == 1 and isinstance(e.args[0], ast.Dict):
            d = e.args[0]
            return all(k is not None and is_immutable_value(prog, mod, k) for k in d.keys) and \
                all(is_immutable_value(prog, mod, v) for v in d.values)
        if isinstance(sym, ClassInfo) and any(str(b).split('.')[-1] == 'NamedTuple' for b in sym.bases):
            return all(is_immutable_value(prog, mod, a) for a in e.args) and \
                all(is_immutable_value(prog, mod, k.value) for k in e.keywords)
        if isinstance(sym, ClassInfo) and sym.is_dataclass and sym.frozen:
            # a frozen dataclass instance is immutable if its arguments are
            return all(is_immutable_value(prog, mod, a) for a in e.args) and \
                all(is_immutable_value(prog, mod, k.value) for k in e.keywords)
        if isinstance(sym, ClassInfo) and sym.is_dataclass and _never_written_after_construction(prog, sym):
            # not declared frozen, but nothing in the package ever re-binds an attribute of such an object after its
            # construction and none of its fields is a container: a constant in effect
            return all(is_immutable_value(prog, mod, a) for a in e.args) and \
                all(is_immutable_value(prog, mod, k.value) for k in e.keywords)
        return False
    return False


def _never_written_after_construction(prog, cls: ClassInfo) -> bool:
    cache = prog.__dict__.setdefault('_never_written_cache', {})
    if cls.fq in cache:
        return cache[cls.fq]
    cache[cls.fq] = False
    from ..model import strip_opt
    attrs = set(prog.class_fields(cls))
    for anc in prog.ancestors(cls):
        if isinstance(anc, ClassInfo):
            for m in anc.methods.values():
                for n in ast.walk(m.node):
                    if isinstance(n, ast.Attribute) and isinstance(n.ctx, ast.Store) and isinstance(n.value, ast.Name) and n.value.id == 'self':
                        attrs.add(n.attr)
    for nm, (ann, _d, owner) in prog.class_fields(cls).items():
        t = strip_opt(prog.ann_to_type(owner.module, ann, owner)) if ann is not None else ('any',)
        if t[0] in ('list', 'dict', 'set', 'any'):
            return False
        if t[0] == 'cls' and t[1] in prog.classes:
            c2 = prog.classes[t[1]]
            if not c2.is_enum and not (c2.is_dataclass and (c2.frozen or (c2 is not cls and _never_written_after_construction(prog, c2)))):
                return False
    own_init = {f'{a.fq}.{n}' for a in prog.ancestors(cls) if isinstance(a, ClassInfo) for n in ('__init__', '__post_init__')}
    for f in prog.all_functions():
        if f.fq in own_init or (f.cls is not None and f'{f.cls.fq}.{f.name}' in own_init):
            continue
        for n in ast.walk(f.node):
            if isinstance(n, ast.Attribute) and isinstance(n.ctx, (ast.Store, ast.Del)) and n.attr in attrs:
                return False
            if isinstance(n, ast.Call) and isinstance(n.func, ast.Name) and n.func.id in ('setattr', 'delattr'):
                return False
    cache[cls.fq] = True
    return True


READONLY_METHODS = {'get', 'keys', 'values', 'items', 'index', 'count', 'copy', 'union', 'intersection', 'difference',
                    'issubset', 'issuperset', 'isdisjoint', '__contains__', '__getitem__', '__len__', '__iter__'}


# builtins that read their argument and build something new from it (a copy, a number, a truth value)
_READING_BUILTINS = ('len', 'sorted', 'iter', 'any', 'all', 'set', 'frozenset', 'list', 'tuple', 'dict', 'min', 'max', 'sum', 'enumerate',
                     'zip', 'reversed', 'bool', 'str', 'repr')


def _param_only_read(prog, mod: Module, call: ast.Call, idx: int, depth: int = 0) -> bool:
    """The callee is a package function and its parameter number `idx` is only read (looked up, iterated, tested)."""
    sym = prog.resolve_expr_symbol(mod, call.func) if isinstance(call.func, (ast.Name, ast.Attribute)) else None
    if not isinstance(sym, FuncInfo) or depth > 2:
        return False
    params = [a.arg for a in sym.params()]
    if sym.cls is not None and not sym.is_static and params[:1] in (['self'], ['cls']) and isinstance(call.func, ast.Attribute):
        params = params[1:]
    if idx >= len(params):
        return False
    pname = params[idx]
    for node in ast.walk(sym.node):
        if not (isinstance(node, ast.Name) and node.id == pname):
            continue
        if isinstance(node.ctx, (ast.Store, ast.Del)):
            return False
        par = prog.parent(node)
        if isinstance(par, ast.Subscript) and par.value is node and isinstance(par.ctx, ast.Load):
            continue
        if isinstance(par, ast.Compare) and node in par.comparators and all(isinstance(o, (ast.In, ast.NotIn)) for o in par.ops):
            continue
        if isinstance(par, (ast.For, ast.comprehension)) and par.iter is node:
            continue
        if isinstance(par, ast.Call) and isinstance(par.func, ast.Name) and (par.func.id in _READING_BUILTINS or par.func.id == 'isinstance') \
                and node in par.args:
            continue
        if isinstance(par, ast.Attribute) and par.value is node and par.attr in READONLY_METHODS and isinstance(prog.parent(par), ast.Call):
            continue
        if isinstance(par, ast.arg):
            continue
        if isinstance(par, ast.Call) and node in par.args and _param_only_read(prog, sym.module, par, par.args.index(node), depth + 1):
            continue
        return False
    return True


def _readonly_class_table(prog, mod: Module, cls: ClassInfo, stmt: ast.stmt) -> Optional[str]:
    """A class-level dict / list / set display of immutable entries (constants, enum members, the class's own functions)
    that every use in the package only reads (subscript load, .get, membership, iteration): a constant dispatch table."""
    targets = stmt.targets if isinstance(stmt, ast.Assign) else [stmt.target]
    if len(targets) != 1 or not isinstance(targets[0], ast.Name):
        return None
    name, val = targets[0].id, stmt.value
    if isinstance(val, ast.Dict) and all(k is not None for k in val.keys):
        leaves = list(val.keys) + list(val.values)
    elif isinstance(val, (ast.List, ast.Set, ast.Tuple)):
        leaves = list(val.elts)
    else:
        return None
    own = {n_.name for n_ in cls.node.body if isinstance(n_, (ast.FunctionDef, ast.AsyncFunctionDef))}
    if not leaves or not all(is_immutable_value(prog, mod, x) or (isinstance(x, ast.Name) and x.id in own) for x in leaves):
        return None
    n_uses = 0
    for m in prog.modules.values():
        for node in ast.walk(m.tree):
            if not (isinstance(node, ast.Attribute) and node.attr == name):
                continue
            if isinstance(node.ctx, (ast.Store, ast.Del)):
                return None
            n_uses += 1
            par = prog.parent(node)
            if isinstance(par, ast.Subscript) and par.value is node and isinstance(par.ctx, ast.Load):
                continue
            if isinstance(par, ast.Attribute) and par.value is node and par.attr in ('get', 'keys', 'values', 'items', '__contains__'):
                continue
            if isinstance(par, ast.Compare) and node in par.comparators and all(isinstance(o, (ast.In, ast.NotIn)) for o in par.ops):
                continue
            if isinstance(par, (ast.For, ast.comprehension)) and par.iter is node:
                continue
            if isinstance(par, ast.Call) and node in par.args and getattr(par.func, 'id', '') in ('len', 'sorted', 'list', 'tuple', 'iter'):
                continue
            return None
    return f'class-level constant table `{name}`: immutable entries, only read ({n_uses} uses)'


def readonly_table(prog, mod: Module, stmt: ast.stmt) -> Optional[str]:
    """A module-level container display that is a constant table: its elements are immutable (constants, functions,
    classes, enum members) and every use of its name anywhere in the package only reads it (subscript load, membership,
    iteration, len(), read-only methods).  Returns the reason when it qualifies, else None."""
    val = stmt.value
    targets = stmt.targets if isinstance(stmt, ast.Assign) else [stmt.target]
    if len(targets) != 1 or not isinstance(targets[0], ast.Name):
        return None
    name = targets[0].id
    if isinstance(val, ast.Call) and getattr(val.func, 'id', getattr(val.func, 'attr', '')) == 'MappingProxyType' and \
            len(val.args) == 1 and isinstance(val.args[0], ast.Dict):
        val = val.args[0]          # a read-only view of a dict display that nothing else refers to
    if isinstance(val, ast.Dict):
        leaves = [k for k in val.keys if k is not None] + list(val.values)
        if any(k is None for k in val.keys):
            return None
    elif isinstance(val, (ast.List, ast.Set)):
        leaves = list(val.elts)
    else:
        return None
    if not leaves or not all(is_immutable_value(prog, mod, x) for x in leaves):
        return None            # an empty container is a buffer / cache to be filled, not a constant table
    n_uses = 0
    for m in prog.modules.values():
        for node in ast.walk(m.tree):
            is_ref = (isinstance(node, ast.Name) and node.id == name) or \
                     (isinstance(node, ast.Attribute) and node.attr == name)
            if not is_ref or node is targets[0]:
                continue
            if isinstance(node, ast.Name) and m is not mod and name not in m.imports:
                # another module's own local/global of the same name: judged there
                if not any(isinstance(a, ast.alias) and (a.asname or a.name) == name for a in ast.walk(m.tree)):
                    continue
            if isinstance(getattr(node, 'ctx', None), (ast.Store, ast.Del)):
                return None
            par = prog.parent(node)
            n_uses += 1
            if isinstance(par, ast.Subscript) and par.value is node and isinstance(par.ctx, ast.Load):
                continue
            if isinstance(par, ast.Compare) and node in par.comparators and \
                    all(isinstance(o, (ast.In, ast.NotIn)) for o in par.ops):
                continue
            if isinstance(par, (ast.For, ast.comprehension)) and par.iter is node:
                continue
            if isinstance(par, ast.Call) and isinstance(par.func, ast.Name) and par.func.id in _READING_BUILTINS \
                    and node in par.args and prog.resolve_name(m, par.func.id) is None:
                continue
            if isinstance(par, ast.Attribute) and par.value is node and par.attr in READONLY_METHODS and \
                    isinstance(prog.parent(par), ast.Call):
                continue
            if isinstance(par, ast.alias) or isinstance(par, ast.ImportFrom):
                continue
            if isinstance(par, ast.Call) and node in par.args and _param_only_read(prog, m, par, par.args.index(node)):
                continue        # handed to a helper of the package that only looks things up in it
            return None
    return f'constant table: immutable elements, {n_uses} read-only uses, never written, aliased or passed on'


def _only_compared(prog, mod: Module, stmt: ast.stmt) -> Optional[str]:
    """A module-level object that the package only ever *compares with* (==, !=, is, in): nothing is called on it, nothing
    is stored into it, it is handed to no function - a reference value, not state."""
    targets = stmt.targets if isinstance(stmt, ast.Assign) else [stmt.target]
    if len(targets) != 1 or not isinstance(targets[0], ast.Name):
        return None
    name = targets[0].id
    n_uses = 0
    for m in prog.modules.values():
        for node in ast.walk(m.tree):
            is_ref = (isinstance(node, ast.Name) and node.id == name) or (isinstance(node, ast.Attribute) and node.attr == name)
            if not is_ref or node is targets[0]:
                continue
            if isinstance(node, ast.Name) and m is not mod and not any(isinstance(a, ast.alias) and (a.asname or a.name) == name
                                                                      for a in ast.walk(m.tree)):
                continue
            if isinstance(node, ast.Attribute) and not isinstance(prog.resolve_expr_symbol(m, node.value) if isinstance(
                    node.value, (ast.Name, ast.Attribute)) else None, Module):
                continue
            par = prog.parent(node)
            if isinstance(par, (ast.alias, ast.ImportFrom)):
                continue
            if isinstance(getattr(node, 'ctx', None), (ast.Store, ast.Del)):
                return None
            n_uses += 1
            if isinstance(par, ast.Compare) and (node is par.left or node in par.comparators):
                continue
            return None
    return f'reference value: the package only compares with it ({n_uses} comparisons), never calls, stores into or hands it on' if n_uses else None


def _never_mutated_object(ctx, mod: Module, stmt: ast.stmt) -> Optional[str]:
    """A module-level object built by a constructor / creation function of the package (a name, a type description) that no
    mutation site anywhere in the package is rooted in (ownership analysis E3c over all functions: writes, in-place operators,
    mutating methods, also through parameters it is handed to) and that is never rebound: a constant in effect."""
    prog = ctx.prog
    targets = stmt.targets if isinstance(stmt, ast.Assign) else [stmt.target]
    if len(targets) != 1 or not isinstance(targets[0], ast.Name) or not isinstance(stmt.value, ast.Call):
        return None
    name = targets[0].id
    sym = prog.resolve_expr_symbol(mod, stmt.value.func) if isinstance(stmt.value.func, (ast.Name, ast.Attribute)) else None
    if isinstance(sym, FuncInfo):
        rt = prog.ann_to_type(sym.module, sym.node.returns, sym.cls) if sym.node.returns is not None else ('any',)
        cls = prog.classes.get(rt[1]) if rt[0] == 'cls' else None
    else:
        cls = sym if isinstance(sym, ClassInfo) else None
    if cls is None or not cls.is_dataclass:
        return None
    if not all(is_immutable_value(prog, mod, a) for a in stmt.value.args) or \
            not all(is_immutable_value(prog, mod, k.value) for k in stmt.value.keywords):
        return None
    # never rebound
    for m in prog.modules.values():
        for n in ast.walk(m.tree):
            if isinstance(n, ast.Name) and n.id == name and isinstance(n.ctx, (ast.Store, ast.Del)) and n is not targets[0] and \
                    (m is mod or name in m.imports):
                return None
            if isinstance(n, ast.Global) and name in n.names:
                return None
    mut = ctx.__dict__.get('_mut_all')
    if mut is None:
        from ..mutation import Mutations
        mut = Mutations(prog, ctx.cg)
        mut.solve()
        ctx.__dict__['_mut_all'] = mut
    key = f'{mod.name}.{name}'
    for fq, evs in mut.events.items():
        for ev in evs:
            for r in ev.roots:
                if r[0] == 'global' and r[1] == key:
                    return None         # (a receiver reached THROUGH a fresh object that holds it is rooted in it as well)
    return (f'an object of {cls.name} built once from constants that nothing in the package mutates or rebinds (ownership analysis: no '
            f'mutation site is rooted in it)')


def module_state_instances(ctx) -> List[tuple]:
    """Instances for the 'no module-level / class-level mutable state' rule.
    Returns tuples (module, function, construct, ok, message, node)."""
    prog = ctx.prog
    out = []
    for mod in prog.modules.values():
        for stmt in mod.tree.body:
            if isinstance(stmt, (ast.Assign, ast.AnnAssign)):
                val = stmt.value
                if val is None:
                    continue
                ok = is_immutable_value(prog, mod, val)
                why = 'module-level binding of an immutable value'
                if not ok:
                    table = readonly_table(prog, mod, stmt) or _only_compared(prog, mod, stmt) or _never_mutated_object(ctx, mod, stmt)
                    if table:
                        ok, why = True, table
                out.append((mod.name, '<module>', stmt, ok,
                            why if ok else
                            'module-level mutable object: shared between all builds/parses of the process', stmt))
            elif isinstance(stmt, ast.AugAssign):
                out.append((mod.name, '<module>', stmt, False, 'module-level augmented assignment', stmt))
        for cls in mod.classes.values():
            for stmt in cls.node.body:
                val = None
                if isinstance(stmt, ast.AnnAssign):
                    val = stmt.value
                elif isinstance(stmt, ast.Assign):
                    val = stmt.value
                else:
                    continue
                if val is None:
                    continue
                if cls.is_enum:
                    continue
                # dataclass field(...)
                if isinstance(val, ast.Call) and getattr(val.func, 'id', getattr(val.func, 'attr', '')) == 'field':
                    ok, why = True, 'field() with default_factory or immutable default'
                    for kw in val.keywords:
                        if kw.arg == 'default' and not is_immutable_value(prog, mod, kw.value):
                            ok, why = False, 'field(default=<mutable>) is shared by all instances'
                    out.append((mod.name, cls.name, stmt, ok, why, stmt))
                    continue
                ok = is_immutable_value(prog, mod, val)
                why_ro = None
                if not ok and isinstance(stmt, (ast.Assign, ast.AnnAssign)):
                    why_ro = _readonly_class_table(prog, mod, cls, stmt)
                out.append((mod.name, cls.name, stmt, ok or why_ro is not None,
                            'class-level immutable default' if ok else why_ro if why_ro else
                            'class-level mutable attribute: shared by all instances', stmt))
    for fn in prog.all_functions():
        for n in iter_own_nodes(fn.node):
            if isinstance(n, (ast.Global, ast.Nonlocal)):
                out.append((fn.module.name, fn.qualname, n, False,
                            'global/nonlocal write: state survives the call', n))
            # store to an attribute of a module object (e.g. text_gen.DEFAULT_INDENT_NR_SPACES = 3)
            if isinstance(n, ast.Attribute) and isinstance(n.ctx, (ast.Store, ast.Del)):
                base = prog.resolve_expr_symbol(fn.module, n.value)
                if isinstance(base, (Module, ClassInfo)):
                    out.append((fn.module.name, fn.qualname, ctx.flow.enclosing_stmt(n), False,
                                'write to a module/class attribute from package code', n))
        a = fn.node.args
        for d in list(a.defaults) + [k for k in a.kw_defaults if k is not None]:
            ok = is_immutable_value(prog, fn.module, d)
            if not ok:
                out.append((fn.module.name, fn.qualname, d, False,
                            'mutable default argument: shared between calls', d))
    return out


# ---------------------------------------------------------------------------------------------------------
# FindResult typing hook and the container / valid_types agreement (E6), shared by C07, C13, C14
# ---------------------------------------------------------------------------------------------------------
def valid_types_table(ctx):
    """Classes listed by FindResult.valid_types (read from the property body)."""
    prog = ctx.prog
    fr = prog.cls('ast_view', 'FindResult')
    vt = fr.methods.get('valid_types')
    if vt is None:
        raise AnalysisError('FindResult.valid_types vanished')
    out = []

    def display(e, depth=0):
        """the list / tuple display behind `e`: itself, `list(X)` / `tuple(X)` of one, or a module-level constant that is one"""
        if depth > 4:
            return None
        if isinstance(e, (ast.List, ast.Tuple)):
            return e
        if isinstance(e, ast.Call) and isinstance(e.func, ast.Name) and e.func.id in ('list', 'tuple') and len(e.args) == 1:
            return display(e.args[0], depth + 1)
        if isinstance(e, (ast.Name, ast.Attribute)):
            sym = prog.resolve_expr_symbol(vt.module, e)
            if isinstance(sym, tuple) and sym[0] == 'const':
                return display(sym[1], depth + 1)
        return None
    for n in iter_own_nodes(vt.node):
        d = display(n.value) if isinstance(n, ast.Return) and n.value is not None else None
        if d is not None:
            for e in d.elts:
                sym = prog.resolve_expr_symbol(vt.module, e)
                if isinstance(sym, ClassInfo):
                    out.append(sym)
    if not out:
        raise AnalysisError('FindResult.valid_types is not a literal list of classes')
    return out


def install_find_hooks(ctx, abs_):
    """type of `<FindResult>.get_single_instance(T)` is T; without a type hint it is the union of valid_types."""
    from ..model import union, t_cls, strip_opt
    prog = ctx.prog
    valid = valid_types_table(ctx)
    fr = prog.cls('ast_view', 'FindResult')

    def hook(fn, call):
        f = call.func
        if not (isinstance(f, ast.Attribute) and f.attr == 'get_single_instance'):
            return None
        rt = strip_opt(abs_.type_at(fn, f.value, call))
        if rt != ('cls', fr.fq):
            return None
        hint = call.args[0] if call.args else next((k.value for k in call.keywords if k.arg == 'ast_typehint'), None)
        if hint is None or (isinstance(hint, ast.Constant) and hint.value is None):
            return union(t_cls(c.fq) for c in valid)
        sym = prog.resolve_expr_symbol(fn.module, hint)
        if isinstance(sym, ClassInfo):
            return t_cls(sym.fq)
        return None
    abs_.call_type_hooks.append(hook)
    return valid


def _container_exprs(ctx, fn: FuncInfo, e: ast.expr, depth: int = 0) -> Optional[List[ast.expr]]:
    """The FileContents containers, in order, that iterating `e` goes through: a literal list / tuple of containers
    (iterated by a nested loop), `chain(a, b, ...)`, a local holding one of these, or a call of a package function /
    generator that returns / yields exactly that (`yield from fct.x` statements, possibly produced by unrolling a loop over a
    constant tuple of field names)."""
    prog = ctx.prog
    if depth > 4:
        return None
    if isinstance(e, ast.Name):
        defs = [a.value for a in iter_own_nodes(fn.node) if isinstance(a, ast.Assign) and len(a.targets) == 1
                and isinstance(a.targets[0], ast.Name) and a.targets[0].id == e.id]
        return _container_exprs(ctx, fn, defs[0], depth + 1) if len(defs) == 1 else None
    if isinstance(e, (ast.List, ast.Tuple)):
        parts: List[ast.expr] = []
        for x in e.elts:
            if isinstance(x, ast.Attribute):
                parts.append(x)
            else:
                return None
        return parts
    if isinstance(e, ast.BinOp) and isinstance(e.op, ast.Add):
        a, b = _container_exprs(ctx, fn, e.left, depth + 1), _container_exprs(ctx, fn, e.right, depth + 1)
        if a is None:
            return None
        return a + (b if b is not None else [e.right])
    if isinstance(e, ast.Call):
        nm = getattr(e.func, 'id', getattr(e.func, 'attr', ''))
        if nm == 'chain' and e.args and all(isinstance(a, ast.Attribute) for a in e.args):
            return list(e.args)
        sym = prog.resolve_expr_symbol(fn.module, e.func) if isinstance(e.func, (ast.Name, ast.Attribute)) else None
        if isinstance(sym, FuncInfo) and len(e.args) == 1 and isinstance(e.args[0], ast.Name):
            g = sym
            gp = g.params()[0].arg if g.params() else None
            out: List[ast.expr] = []
            body = [b_ for b_ in g.node.body if not (isinstance(b_, ast.Expr) and isinstance(b_.value, ast.Constant))]
            for st in body:
                if isinstance(st, ast.Expr) and isinstance(st.value, ast.YieldFrom) and isinstance(st.value.value, ast.Attribute) and \
                        isinstance(st.value.value.value, ast.Name) and st.value.value.value.id == gp:
                    out.append(ast.Attribute(value=e.args[0], attr=st.value.value.attr, ctx=ast.Load()))
                elif isinstance(st, ast.Return) and st.value is not None:
                    inner = _container_exprs(ctx, g, st.value, depth + 1)
                    if inner is None:
                        return None
                    out.extend(ast.Attribute(value=e.args[0], attr=x.attr, ctx=ast.Load()) if isinstance(x, ast.Attribute) and
                               isinstance(x.value, ast.Name) and x.value.id == gp else x for x in inner)
                elif isinstance(st, ast.For) and len(st.body) == 1 and isinstance(st.body[0], ast.Expr) and \
                        isinstance(st.body[0].value, ast.YieldFrom) and isinstance(st.body[0].value.value, ast.Name) and \
                        isinstance(st.target, ast.Name) and st.body[0].value.value.id == st.target.id:
                    inner = _container_exprs(ctx, g, st.iter, depth + 1)
                    if inner is None:
                        return None
                    out.extend(ast.Attribute(value=e.args[0], attr=x.attr, ctx=ast.Load()) if isinstance(x, ast.Attribute) and
                               isinstance(x.value, ast.Name) and x.value.id == gp else x for x in inner)
                else:
                    return None
            return out
    return None


def find_containers(ctx, fn_name: str):
    """FileContents containers scanned by ast_view.<fn_name>: ([(field name, element ClassInfo)], the node that iterates)."""
    prog = ctx.prog
    fn = prog.func('ast_view', fn_name)
    fc = prog.cls('ast', 'FileContents')
    fields = prog.class_fields(fc)
    cands = []
    for n in iter_own_nodes(fn.node):
        its = []
        if isinstance(n, ast.For):
            its.append(n.iter)
        elif isinstance(n, ast.comprehension):
            its.append(n.iter)
        for it in its:
            parts = _container_exprs(ctx, fn, it)
            if parts and any(isinstance(x, ast.Attribute) and x.attr in fields for x in parts):
                cands.append((n, parts))
    if len(cands) != 1:
        raise AnalysisError(f'{fn_name}: expected exactly one iteration over the FileContents containers ({len(cands)} found)')
    node, parts = cands[0]
    out = []
    for e in parts:
        if isinstance(e, ast.Attribute) and e.attr in fields:
            ann = fields[e.attr][0]
            t = prog.ann_to_type(fc.module, ann, fc)
            elem = prog.classes.get(t[1][1]) if t[0] == 'list' and t[1][0] == 'cls' else None
            out.append((e.attr, elem))
        else:
            # further containers that are not FileContents fields (e.g. the nested types of every interface)
            out.append((f'<{ast.unparse(e)[:40]}>', None))
    holder = node if isinstance(node, ast.For) else ast.For(target=node.target, iter=node.iter, body=[], orelse=[])
    if not hasattr(holder, 'lineno'):
        ast.copy_location(holder, node.iter)
    return out, holder


# ------------------------------------------------------------------------------------------------------------------
# the gate through which a looked-up declaration leaves a FindResult (shared by C07.single and C13.rejects)
# ------------------------------------------------------------------------------------------------------------------
def _len_test(test: ast.expr, subject: str, n: int) -> Optional[bool]:
    """Truth of `test` when len(<subject>) == n (n = 3 stands for 'many'); None when the test is about something else."""
    if isinstance(test, ast.UnaryOp) and isinstance(test.op, ast.Not):
        r = _len_test(test.operand, subject, n)
        return None if r is None else not r
    if isinstance(test, ast.BoolOp):
        rs = [_len_test(v, subject, n) for v in test.values]
        if any(r is None for r in rs):
            return None
        return all(rs) if isinstance(test.op, ast.And) else any(rs)
    if ast.unparse(test) == subject:
        return n > 0
    if isinstance(test, ast.Compare) and len(test.ops) == 1:
        l, r, op = test.left, test.comparators[0], test.ops[0]
        flip = False
        if isinstance(l, ast.Constant):
            l, r, flip = r, l, True
        if isinstance(l, ast.Call) and getattr(l.func, 'id', '') == 'len' and len(l.args) == 1 and \
                ast.unparse(l.args[0]) == subject and isinstance(r, ast.Constant) and isinstance(r.value, int):
            c = r.value
            if n == 3 and c >= 3:
                return None
            table = {ast.Gt: n > c, ast.GtE: n >= c, ast.Lt: n < c, ast.LtE: n <= c, ast.Eq: n == c, ast.NotEq: n != c}
            if flip:
                table = {ast.Gt: c > n, ast.GtE: c >= n, ast.Lt: c < n, ast.LtE: c <= n, ast.Eq: n == c, ast.NotEq: n != c}
            return table.get(type(op))
        if ast.unparse(l) == subject and isinstance(r, ast.List) and not r.elts and isinstance(op, (ast.Eq, ast.NotEq)):
            return (n == 0) if isinstance(op, ast.Eq) else (n != 0)
    return None


def _single_instance_gate_by_interpretation(ctx, fr: ClassInfo, gsi: FuncInfo):
    """get_single_instance interpreted (dznverif.scenario, E7) on every result shape that matters: no item, one item of each
    declaration kind, two items (same kind / different kinds), three items - without a hint and with each kind as hint.  The
    method looks at its items only through len / indexing / isinstance, so these shapes stand for all results.  None when
    the code cannot be interpreted (the guard-shape rule decides then)."""
    from ..scenario import Interp, Obj, ClassRef, Raised, Undecided
    prog = ctx.prog
    try:
        kinds = valid_types_table(ctx)
    except AnalysisError:
        return None
    fe = prog.classes.get('dznpy.ast_view.FindError')
    if fe is None or len(kinds) < 3:
        return None

    def is_find_error(name: str) -> bool:
        c = prog.classes.get(name)
        return c is not None and (c is fe or prog.is_subclass(c.fq, fe.fq))
    bad = {'empty': [], 'many': [], 'kind': [], 'value': []}
    n = 0
    foreign = set()
    ctx.__dict__['_gsi_foreign_exceptions'] = None
    try:
        for shape in ([], [0], [1], [0, 0], [0, 1], [0, 1, 2]):
            for hint in [None] + list(range(len(kinds))):
                it = Interp(prog)
                items = [Obj(kinds[i % len(kinds)], {}) for i in shape]
                res = Obj(fr, {'items': list(items)})
                n += 1
                try:
                    got = it.call_function(gsi, [] if hint is None else [ClassRef(kinds[hint])], {}, self_val=res)
                    raised = None
                except Raised as exc:
                    got, raised = None, exc.name
                    if not is_find_error(exc.name):
                        foreign.add(exc.name)
                what = f'{len(items)} item(s) {[x.cls.name for x in items]}, hint {kinds[hint].name if hint is not None else None}'
                if len(items) == 0:
                    if raised is None or not is_find_error(raised):
                        bad['empty'].append(f'{what}: ' + ('returns a value' if raised is None else f'raises {raised}'))
                elif len(items) > 1:
                    if raised is None or not is_find_error(raised):
                        bad['many'].append(f'{what}: ' + ('returns a value' if raised is None else f'raises {raised}'))
                else:
                    fits = hint is None or items[0].cls is kinds[hint] or prog.is_subclass(items[0].cls.fq, kinds[hint].fq)
                    if fits:
                        if raised is not None or got is not items[0]:
                            bad['value'].append(f'{what}: ' + (f'raises {raised}' if raised else 'hands out something else than the one item'))
                    elif raised is None or not is_find_error(raised):
                        bad['kind'].append(f'{what}: ' + ('returns the item' if raised is None else f'raises {raised}'))
    except Undecided:
        return None
    ctx.__dict__['_gsi_foreign_exceptions'] = foreign
    node = gsi.node
    return [
        ('unresolvable reference (0 matches)', not bad['empty'],
         'an empty result is refused with FindError (interpreted on every result shape)' if not bad['empty'] else
         'an empty result is not refused: ' + '; '.join(bad['empty'][:2]), node),
        ('ambiguous reference (2+ matches)', not bad['many'],
         'a result with several matches is refused with FindError' if not bad['many'] else
         'several matches are let through: ' + '; '.join(bad['many'][:2]), node),
        ('kind hint', not bad['kind'],
         'a single match of another kind than the hint is refused with FindError' if not bad['kind'] else
         'a declaration whose kind differs from the hint is not refused: ' + '; '.join(bad['kind'][:2]), node),
        ('returned value', not bad['value'],
         'the single match itself is handed out' if not bad['value'] else
         'the single matching declaration is not handed out: ' + '; '.join(bad['value'][:2]), node),
    ]


def single_instance_gate(ctx) -> List[Tuple[str, bool, str, Any]]:
    """Findings (what, ok, message, node) about FindResult.get_single_instance: over the abstract lengths {0, 1, 2, many}
    of the COMPLETE result `self.items`, the dominating raising guards let only length 1 through; with a kind hint a
    guard refuses a first item of another kind; what is returned is `self.items[0]`."""
    from ..flow import always_raises
    prog = ctx.prog
    out: List[Tuple[str, bool, str, Any]] = []
    fr = prog.cls('ast_view', 'FindResult')
    gsi = fr.methods.get('get_single_instance')
    if gsi is None:
        return [('get_single_instance', False, 'FindResult.get_single_instance vanished', None)]
    sem = _single_instance_gate_by_interpretation(ctx, fr, gsi)
    if sem is not None:
        return sem
    guards = [s for s in gsi.node.body if isinstance(s, ast.If) and always_raises(s.body) and not s.orelse]
    lib = []
    for g in guards:
        r = next((x for x in ast.walk(g) if isinstance(x, ast.Raise)), None)
        name = ast.unparse(r.exc.func if isinstance(r.exc, ast.Call) else r.exc) if r is not None and r.exc is not None else ''
        if name.endswith('FindError'):
            lib.append(g)
    first_ret = next((k for k, s in enumerate(gsi.node.body) if any(isinstance(x, ast.Return) for x in ast.walk(s))),
                     len(gsi.node.body))
    dominating = [g for g in lib if gsi.node.body.index(g) < first_ret]
    passed = []
    for n in (0, 1, 2, 3):
        fired = any(_len_test(g.test, 'self.items', n) is True for g in dominating)
        if not fired:
            passed.append(n)
    names = {0: 'no match', 1: 'one match', 2: 'two matches', 3: 'many matches'}
    out.append(('unresolvable reference (0 matches)', 0 not in passed,
                'an empty result is refused with FindError before anything is returned' if 0 not in passed else
                'an empty result is not refused by a dominating guard on self.items', gsi.node))
    amb = [n for n in passed if n >= 2]
    out.append(('ambiguous reference (>1 matches)', not amb,
                'a result with more than one declaration along the lookup chain is refused with FindError' if not amb else
                f'the complete result `self.items` is let through with {" / ".join(names[n] for n in amb)}: several '
                f'declarations along the lookup chain (e.g. a nearer one of another kind) are not refused', gsi.node))
    out.append(('single match accepted', 1 in passed,
                'exactly one match passes the guards' if 1 in passed else 'a single match is refused as well', gsi.node))
    # kind guard
    hint = next((a.arg for a in gsi.params()[1:2]), None)
    kind_guard = [g for g in lib if hint and f'isinstance(self.items[0], {hint})' in ast.unparse(g.test)
                  and isinstance(g.test, ast.UnaryOp)]
    out.append(('declaration of the wrong kind', bool(kind_guard),
                'with a kind hint, a first item of another kind is refused with FindError' if kind_guard else
                'no guard refuses a declaration whose kind differs from the hint', gsi.node))
    rets = [x for x in iter_own_nodes(gsi.node) if isinstance(x, ast.Return)]
    bad = [r for r in rets if r.value is None or ast.unparse(r.value) != 'self.items[0]']
    out.append(('returned declaration', bool(rets) and not bad,
                'the declaration handed out is the single element of the complete result' if rets and not bad else
                f'`{ast.unparse(bad[0])[:60] if bad else "no return"}`: what is handed out is not `self.items[0]` of the complete result',
                bad[0] if bad else gsi.node))
    return out


# ------------------------------------------------------------------------------------------------------------------
# name-independent text of an expression (for sibling comparisons)
# ------------------------------------------------------------------------------------------------------------------
def alpha_text(node: ast.AST) -> str:
    """Source text with every comprehension / lambda variable renamed canonically (_v0, _v1 ... in order of binding)."""
    import copy
    node = copy.deepcopy(node)
    mapping: dict = {}

    def bind(t):
        for x in ast.walk(t):
            if isinstance(x, ast.Name) and x.id not in mapping:
                mapping[x.id] = f'_v{len(mapping)}'

    for n in ast.walk(node):
        if isinstance(n, ast.comprehension):
            bind(n.target)
        elif isinstance(n, ast.Lambda):
            for a in n.args.args:
                if a.arg not in mapping:
                    mapping[a.arg] = f'_v{len(mapping)}'
    for n in ast.walk(node):
        if isinstance(n, ast.Name) and n.id in mapping:
            n.id = mapping[n.id]
        elif isinstance(n, ast.arg) and n.arg in mapping:
            n.arg = mapping[n.arg]
    return ast.unparse(node)


def expand_aliases(fn: FuncInfo, node: ast.AST, depth: int = 0) -> ast.AST:
    """Replace local names that are single-definition aliases of attribute chains / names by their definition."""
    import copy
    if depth > 4:
        return node
    defs = {}
    for a in iter_own_nodes(fn.node):
        if isinstance(a, ast.Assign) and len(a.targets) == 1 and isinstance(a.targets[0], ast.Name):
            defs.setdefault(a.targets[0].id, []).append(a.value)

    class T(ast.NodeTransformer):
        def visit_Name(self, n):
            d = defs.get(n.id)
            if isinstance(n.ctx, ast.Load) and d and len(d) == 1 and isinstance(d[0], (ast.Attribute, ast.Name)):
                return expand_aliases(fn, copy.deepcopy(d[0]), depth + 1)
            return n
    return T().visit(copy.deepcopy(node))


# ------------------------------------------------------------------------------------------------------------------
# three-valued evaluation of a guard under a scenario (a finite assignment of truth values to leaf tests)
# ------------------------------------------------------------------------------------------------------------------
def eval_guard(e: ast.expr, leaf, expand=None, depth: int = 0) -> Optional[bool]:
    """Truth of the boolean expression `e` when `leaf(expr) -> True | False | None` decides its leaves; `expand(name_node)`
    may return the defining expression of a local.  None: not decided by the scenario."""
    if depth > 12:
        return None
    v = leaf(e)
    if v is not None:
        return v
    if isinstance(e, ast.UnaryOp) and isinstance(e.op, ast.Not):
        r = eval_guard(e.operand, leaf, expand, depth + 1)
        return None if r is None else not r
    if isinstance(e, ast.BoolOp):
        rs = [eval_guard(x, leaf, expand, depth + 1) for x in e.values]
        if isinstance(e.op, ast.And):
            if any(r is False for r in rs):
                return False
            return True if all(r is True for r in rs) else None
        if any(r is True for r in rs):
            return True
        return False if all(r is False for r in rs) else None
    if isinstance(e, ast.IfExp):
        t = eval_guard(e.test, leaf, expand, depth + 1)
        if t is None:
            a, b = eval_guard(e.body, leaf, expand, depth + 1), eval_guard(e.orelse, leaf, expand, depth + 1)
            return a if a == b else None
        return eval_guard(e.body if t else e.orelse, leaf, expand, depth + 1)
    if isinstance(e, ast.Constant):
        return bool(e.value)
    if isinstance(e, ast.Name) and expand is not None:
        d = expand(e)
        if d is not None:
            return eval_guard(d, leaf, expand, depth + 1)
    return None


def reach_under(ctx, node: ast.AST, leaf, expand=None, relevant=None) -> Optional[bool]:
    """Whether `node` is evaluated under the scenario: every dominating branch condition evaluates to its polarity.
    Conditions that do not involve the scenario at all (`relevant(cond)` is False, also after expanding locals) are about
    something else and are skipped."""
    def involved(e, depth=0) -> bool:
        if relevant is None or relevant(e):
            return True
        if expand is not None and depth < 4:
            for nm in [x for x in ast.walk(e) if isinstance(x, ast.Name)]:
                d = expand(nm)
                if d is not None and involved(d, depth + 1):
                    return True
        return False

    out: Optional[bool] = True
    for cond, pol in ctx.flow.path_conditions(node):
        r = eval_guard(cond, leaf, expand)
        if r is None:
            if not involved(cond):
                continue
            out = None
        elif r != pol:
            return False
    return out


# ------------------------------------------------------------------------------------------------------------------
# views of Indentizer.to_list per bullet mode (C18 / C19)
# ------------------------------------------------------------------------------------------------------------------
def to_list_views(ctx) -> Dict[str, FuncInfo]:
    """Indentizer.to_list specialised (dznverif.specialise) for: no bullet list, mode ALL, mode FIRST_ONLY.  Each view is a
    self-contained function of the model (helper methods that return one expression are inlined, the branch on the mode is
    folded away): closures, a chain of ifs, a pair of formatter methods or a mode table all give the same three views."""
    from ..specialise import residual, TRUTHY
    prog = ctx.prog
    ind = prog.cls('text_gen', 'Indentizer')
    to_list = ind.methods.get('to_list') if ind else None
    if to_list is None:
        return {}
    cached = getattr(ctx, '_to_list_views', None)
    if cached is not None:
        return cached
    def member(name):
        return ast.parse(f'BulletListMode.{name}', mode='eval').body
    out = {}
    for label, asm in (('NONE', {'self.bullet_list': None}),
                       ('ALL', {'self.bullet_list': TRUTHY, 'self.bullet_list.mode': member('ALL')}),
                       ('FIRST_ONLY', {'self.bullet_list': TRUTHY, 'self.bullet_list.mode': member('FIRST_ONLY')})):
        out[label] = prog.add_synthetic(to_list, residual(prog, to_list, {}, assume=asm), f'mode-{label}')
    ctx._to_list_views = out
    return out


# ------------------------------------------------------------------------------------------------------------------
# how find_fqn matches a declaration against the candidates of the resolution order (C07.exact, C14.once)
# ------------------------------------------------------------------------------------------------------------------
def fqn_match_form(ctx, ff: FuncInfo) -> Tuple[Optional[bool], str, Optional[ast.AST]]:
    """find_fqn written as a selection `[d for d in <declarations> if <match>]`: (ok, explanation, node) for the match:
       `any(d.fqn == c for c in <order>)`                         whole-name equality with some candidate
       `key(d.fqn) in {key(c) for c in <order>}`                  the same through an equality-preserving key (tuple of the items)
    None when find_fqn is not such a selection (the loop form is judged by the callers)."""
    prog = ctx.prog

    def local(nm: str):
        d = [a.value for a in iter_own_nodes(ff.node) if isinstance(a, ast.Assign) and len(a.targets) == 1
             and isinstance(a.targets[0], ast.Name) and a.targets[0].id == nm]
        return d[0] if len(d) == 1 else None

    def is_order(e) -> bool:
        if isinstance(e, ast.Name):
            e = local(e.id)
        return isinstance(e, ast.Call) and getattr(e.func, 'id', getattr(e.func, 'attr', '')) == 'scope_resolution_order'

    def key_fn_ok(name: str) -> bool:
        k = prog.try_func('ast_view', name) or prog.try_func('scoping', name)
        if k is None or len(k.params()) != 1:
            return False
        p = k.params()[0].arg
        rets = [r for r in iter_own_nodes(k.node) if isinstance(r, ast.Return)]
        main = [r for r in rets if not (r.value is None or (isinstance(r.value, ast.Constant) and r.value.value is None))]
        return len(main) == 1 and ast.unparse(main[0].value) == f'tuple({p}.items)'

    comps = [n for n in iter_own_nodes(ff.node) if isinstance(n, (ast.ListComp, ast.GeneratorExp)) and len(n.generators) == 1
             and isinstance(n.generators[0].target, ast.Name) and isinstance(n.elt, ast.Name)
             and n.elt.id == n.generators[0].target.id and len(n.generators[0].ifs) == 1]
    comps = [c for c in comps if _container_exprs(ctx, ff, c.generators[0].iter)]
    if len(comps) != 1:
        keyed = _keyed_loop_form(ctx, ff, is_order, key_fn_ok)
        if keyed is not None:
            return keyed
        return None, '', None
    c = comps[0]
    d = c.generators[0].target.id
    test = c.generators[0].ifs[0]
    if isinstance(test, ast.Call) and getattr(test.func, 'id', '') == 'any' and len(test.args) == 1 and \
            isinstance(test.args[0], (ast.GeneratorExp, ast.ListComp)) and len(test.args[0].generators) == 1:
        g = test.args[0].generators[0]
        cmp_ = test.args[0].elt
        if is_order(g.iter) and not g.ifs and isinstance(g.target, ast.Name) and isinstance(cmp_, ast.Compare) and \
                len(cmp_.ops) == 1 and isinstance(cmp_.ops[0], ast.Eq) and \
                {ast.unparse(cmp_.left), ast.unparse(cmp_.comparators[0])} == {f'{d}.fqn', g.target.id}:
            return True, 'a declaration is selected (once) when its fqn equals some candidate of the resolution order', test
        return False, f'the match `{ast.unparse(test)[:60]}` is not whole-name equality with a candidate of the resolution order', test
    if isinstance(test, ast.Compare) and len(test.ops) == 1 and isinstance(test.ops[0], ast.In) and \
            isinstance(test.left, ast.Call) and len(test.left.args) == 1 and ast.unparse(test.left.args[0]) == f'{d}.fqn' and \
            isinstance(test.left.func, ast.Name):
        key = test.left.func.id
        cands = test.comparators[0]
        if isinstance(cands, ast.Name):
            cands = local(cands.id)
        ok_set = isinstance(cands, (ast.SetComp, ast.ListComp)) and len(cands.generators) == 1 and not cands.generators[0].ifs and \
            is_order(cands.generators[0].iter) and isinstance(cands.elt, ast.Call) and getattr(cands.elt.func, 'id', '') == key and \
            len(cands.elt.args) == 1 and isinstance(cands.generators[0].target, ast.Name) and \
            ast.unparse(cands.elt.args[0]) == cands.generators[0].target.id
        if ok_set and key_fn_ok(key):
            return True, (f'a declaration is selected (once) when {key}(fqn) is among the {key}(candidate)s; {key} is the tuple '
                          f'of the identifiers, equal exactly for equal names'), test
        return False, f'the match `{ast.unparse(test)[:60]}` does not compare whole names through an equality-preserving key', test
    return False, f'the match `{ast.unparse(test)[:60]}` is not recognised as whole-name equality', test



def _keyed_loop_form(ctx, ff: FuncInfo, is_order, key_fn_ok):
    """find_fqn as a keyed lookup:
         T = {key(c): <anything> for ... c ... in [enumerate](<order>)}        (or a set of key(c))
         for <declarations>: r = T.get(key(d.fqn)); if r is not None: result.append(<... d ...>)      (or `if key(d.fqn) in T`)
       key(x) is `tuple(x.items)`, a one-line function returning that, or a property of NamespaceIds returning
       `tuple(self.items)`: equal exactly for equal names.  Every declaration is looked up once, so it is appended at most
       once.  None when find_fqn is not of this form."""
    prog = ctx.prog
    nids = prog.cls('scoping', 'NamespaceIds')

    def key_of(e: ast.AST) -> Optional[Tuple[str, ast.AST]]:
        """(key kind, the NamespaceIds expression) for `tuple(x.items)` / `keyfn(x)` / `x.<tuple property>`"""
        if isinstance(e, ast.Call) and isinstance(e.func, ast.Name) and len(e.args) == 1 and not e.keywords:
            if e.func.id == 'tuple' and isinstance(e.args[0], ast.Attribute) and e.args[0].attr == 'items':
                return 'tuple-items', e.args[0].value
            if key_fn_ok(e.func.id):
                return 'fn:' + e.func.id, e.args[0]
        if isinstance(e, ast.Attribute):
            m = prog.lookup_method(nids, e.attr)
            if m is not None and m.is_property:
                body = [st for st in m.node.body if not (isinstance(st, ast.Expr) and isinstance(st.value, ast.Constant))]
                if len(body) == 1 and isinstance(body[0], ast.Return) and body[0].value is not None and \
                        ast.unparse(body[0].value) == 'tuple(self.items)':
                    return 'tuple-items', e.value
        return None

    tables = {}
    for a in iter_own_nodes(ff.node):
        if isinstance(a, ast.Assign) and len(a.targets) == 1 and isinstance(a.targets[0], ast.Name) and \
                isinstance(a.value, (ast.DictComp, ast.SetComp)) and len(a.value.generators) == 1 and not a.value.generators[0].ifs:
            g = a.value.generators[0]
            it = g.iter
            if isinstance(it, ast.Call) and getattr(it.func, 'id', '') == 'enumerate' and len(it.args) == 1:
                it = it.args[0]
            k = key_of(a.value.key if isinstance(a.value, ast.DictComp) else a.value.elt)
            bound = {x.id for x in ast.walk(g.target) if isinstance(x, ast.Name)}
            if k is not None and is_order(it) and isinstance(k[1], ast.Name) and k[1].id in bound:
                tables[a.targets[0].id] = (k[0], a)
    if len(tables) != 1:
        return None
    tname, (kind, tnode) = next(iter(tables.items()))
    if sum(1 for x in iter_own_nodes(ff.node) if isinstance(x, ast.Name) and x.id == tname and isinstance(x.ctx, ast.Store)) != 1:
        return None
    # the uses of the table: exactly one lookup, with the key of the declaration's fqn
    uses = [x for x in iter_own_nodes(ff.node) if isinstance(x, ast.Name) and x.id == tname and isinstance(x.ctx, ast.Load)]
    if len(uses) != 1:
        return None
    u = uses[0]
    p = prog.parent(u)
    looked = None
    test_node = None
    if isinstance(p, ast.Attribute) and p.attr == 'get' and isinstance(prog.parent(p), ast.Call) and len(prog.parent(p).args) == 1:
        call = prog.parent(p)
        looked = key_of(call.args[0])
        st = ctx.flow.enclosing_stmt(call)
        if not (isinstance(st, ast.Assign) and len(st.targets) == 1 and isinstance(st.targets[0], ast.Name) and st.value is call):
            return False, 'the result of the keyed lookup is not tested for presence', call
        rname = st.targets[0].id
        blk_parent = prog.parent(st)
        body = getattr(blk_parent, 'body', [])
        i = next((k_ for k_, x in enumerate(body) if x is st), None)
        nxt = body[i + 1] if i is not None and i + 1 < len(body) else None
        if not (isinstance(nxt, ast.If) and ast.unparse(nxt.test) in (f'{rname} is not None', f'{rname} != None') and not nxt.orelse):
            return False, 'the result of the keyed lookup is not tested with `is not None`', call
        test_node, guarded = nxt, nxt.body
    elif isinstance(p, ast.Compare) and len(p.ops) == 1 and isinstance(p.ops[0], ast.In) and p.comparators[0] is u:
        looked = key_of(p.left)
        st = ctx.flow.enclosing_stmt(p)
        if not (isinstance(st, ast.If) and st.test is p and not st.orelse):
            return False, 'the membership test on the candidate keys does not guard the selection', p
        test_node, guarded = st, st.body
    else:
        return None
    if looked is None or looked[0] != kind or not (isinstance(looked[1], ast.Attribute) and looked[1].attr == 'fqn' and
                                                  isinstance(looked[1].value, ast.Name)):
        return False, (f'the declaration is looked up by `{ast.unparse(u)}` with a key that is not the whole-name key the '
                       f'candidates were stored under'), test_node
    d = looked[1].value.id
    # d ranges over the declaration containers, and the guarded block appends (something holding) d exactly once
    loop = ctx.flow.enclosing(test_node, (ast.For,))
    if loop is None or not (isinstance(loop.target, ast.Name) and loop.target.id == d):
        return None
    appends = [c for s_ in guarded for c in ast.walk(s_) if isinstance(c, ast.Call) and isinstance(c.func, ast.Attribute)
               and c.func.attr == 'append' and any(isinstance(x, ast.Name) and x.id == d for a_ in c.args for x in ast.walk(a_))]
    inner_loops = [x for s_ in guarded for x in ast.walk(s_) if isinstance(x, (ast.For, ast.While))]
    if len(appends) != 1 or inner_loops:
        return False, 'a matching declaration is not appended exactly once', test_node
    return True, ('every declaration is looked up once in the table of the candidates of the resolution order, keyed by the '
                  'tuple of the identifiers (equal exactly for equal names), and appended when present'), test_node


def first_match(ctx, fn: FuncInfo, e: ast.AST, depth: int = 0):
    """`e` (an expression of `fn`) denotes the FIRST element of a sequence that satisfies a condition, however it is spelled:
         [v for v in SEQ if COND][0]   (through single-definition locals)      next(v for v in SEQ if COND)
         helper(args)   where helper is `for v in SEQ: if COND: return v` followed by a raise / return None
    -> (seq expression, variable name, condition, rejecting raises) with the helper's parameters replaced by the arguments
    of the call; None when `e` is nothing of the kind."""
    import copy
    prog = ctx.prog
    if depth > 4:
        return None
    defs = {}
    for n in iter_own_nodes(fn.node):
        if isinstance(n, ast.Assign) and len(n.targets) == 1 and isinstance(n.targets[0], ast.Name):
            defs.setdefault(n.targets[0].id, []).append(n.value)
    for _ in range(6):
        if isinstance(e, ast.Name) and len(defs.get(e.id, [])) == 1:
            e = defs[e.id][0]
        else:
            break
    if isinstance(e, ast.Subscript) and isinstance(e.slice, ast.Constant) and e.slice.value == 0:
        lst = e.value
        for _ in range(6):
            if isinstance(lst, ast.Name) and len(defs.get(lst.id, [])) == 1:
                lst = defs[lst.id][0]
            else:
                break
        if isinstance(lst, ast.ListComp) and len(lst.generators) == 1 and len(lst.generators[0].ifs) == 1 and \
                isinstance(lst.generators[0].target, ast.Name) and isinstance(lst.elt, ast.Name) and \
                lst.elt.id == lst.generators[0].target.id:
            g = lst.generators[0]
            return g.iter, g.target.id, g.ifs[0], []
        return None
    if isinstance(e, ast.Call) and isinstance(e.func, ast.Name) and e.func.id == 'next' and e.args and \
            isinstance(e.args[0], ast.GeneratorExp) and len(e.args[0].generators) == 1:
        g = e.args[0].generators[0]
        if len(g.ifs) == 1 and isinstance(g.target, ast.Name) and isinstance(e.args[0].elt, ast.Name) and \
                e.args[0].elt.id == g.target.id:
            return g.iter, g.target.id, g.ifs[0], []
        return None
    if isinstance(e, ast.Call) and isinstance(e.func, (ast.Name, ast.Attribute)):
        sym = prog.resolve_expr_symbol(fn.module, e.func)
        if not isinstance(sym, FuncInfo):
            return None
        body = [st for st in sym.node.body if not (isinstance(st, ast.Expr) and isinstance(st.value, ast.Constant))]
        if len(body) == 2 and isinstance(body[0], ast.For) and not body[0].orelse and isinstance(body[0].target, ast.Name) and \
                len(body[0].body) == 1 and isinstance(body[0].body[0], ast.If) and not body[0].body[0].orelse and \
                len(body[0].body[0].body) == 1 and isinstance(body[0].body[0].body[0], ast.Return) and \
                isinstance(body[0].body[0].body[0].value, ast.Name) and body[0].body[0].body[0].value.id == body[0].target.id and \
                isinstance(body[1], (ast.Raise, ast.Return)):
            bind = prog.bind_call(fn.module, e, sym)
            if set(a.arg for a in sym.params()) - set(bind):
                return None

            class Sub(ast.NodeTransformer):
                def visit_Name(self, node):
                    if node.id in bind and isinstance(node.ctx, ast.Load):
                        return copy.deepcopy(bind[node.id])
                    return node
            seq = Sub().visit(copy.deepcopy(body[0].iter))
            cond = Sub().visit(copy.deepcopy(body[0].body[0].test))
            return seq, body[0].target.id, cond, [(sym, body[1])] if isinstance(body[1], ast.Raise) else []
        # a one-line wrapper around one of the forms
        if len(body) == 1 and isinstance(body[0], ast.Return) and body[0].value is not None:
            r = first_match(ctx, sym, body[0].value, depth + 1)
            if r is not None:
                bind = prog.bind_call(fn.module, e, sym)

                class Sub2(ast.NodeTransformer):
                    def visit_Name(self, node):
                        if node.id in bind and isinstance(node.ctx, ast.Load):
                            return copy.deepcopy(bind[node.id])
                        return node
                return Sub2().visit(copy.deepcopy(r[0])), r[1], Sub2().visit(copy.deepcopy(r[2])), r[3]
    return None


def rejecting_calls(ctx, fn: FuncInfo):
    """Calls in `fn` of functions of the same module that reject their input themselves: (call, helper, raise statement) for
    every helper (other than constructors) that contains a raise statement of its own - an extracted lookup-or-refuse step
    counts as a rejection at each of its call sites."""
    out = []
    for c in iter_own_nodes(fn.node):
        if isinstance(c, ast.Call) and isinstance(c.func, (ast.Name, ast.Attribute)):
            sym = ctx.prog.resolve_expr_symbol(fn.module, c.func)
            if isinstance(sym, FuncInfo) and sym.module is fn.module and sym is not fn:
                for r in iter_own_nodes(sym.node):
                    if isinstance(r, ast.Raise):
                        out.append((c, sym, r))
    return out



def expanded_everywhere(ctx) -> set:
    """fq of the helper functions every call of which was expanded in place by the normal forms (N7 / N11 / N13 / N16) and
    that nothing in the package calls any more: their bodies are judged in each caller, with the actual arguments; the
    definition left behind is not a path of the generator."""
    cache = ctx.__dict__.setdefault('_expanded_everywhere', None)
    if cache is None:
        inl = {callee for _caller, callee in ctx.prog.inlined}
        cache = {fq for fq in inl if fq in ctx.prog.functions and not ctx.cg.callers(ctx.prog.functions[fq])}
        ctx.__dict__['_expanded_everywhere'] = cache
    return cache



def post_init_views(ctx) -> Dict[str, FuncInfo]:
    """Indentizer.__post_init__ specialised for indentor SPACES / TAB x bullet list given or not (labels
    'SPACES-bullets-True' ...): straight-line code when the specialiser can follow the helpers the method uses."""
    from ..specialise import residual, TRUTHY
    cached = getattr(ctx, '_post_init_views', None)
    if cached is not None:
        return cached
    prog = ctx.prog
    ind = prog.cls('text_gen', 'Indentizer')
    post = ind.methods.get('__post_init__') if ind else None
    out: Dict[str, FuncInfo] = {}
    if post is not None:
        for indentor in ('SPACES', 'TAB'):
            for bullets in (True, False):
                asm = {'self.indentor': ast.parse(f'Indentor.{indentor}', mode='eval').body,
                       'self.bullet_list': TRUTHY if bullets else None}
                out[f'{indentor}-bullets-{bullets}'] = prog.add_synthetic(post, residual(prog, post, {}, assume=asm),
                                                                            f'{indentor}-bullets-{bullets}')
    ctx._post_init_views = out
    return out


def _fixed_for_table(ctx, fn: FuncInfo, table_param: str, other_param: str, depth: int) -> bool:
    """At every call of fn: the argument for `other_param` does not change while the dict passed for `table_param` lives - the
    table is a dict the caller creates (outside the loops that vary the other argument), the other argument is built from the
    caller's own parameters and from locals assigned once outside loops."""
    prog = ctx.prog
    callers = [(c, n) for c, n, k in ctx.cg.callers(fn) if k == 'call' and isinstance(n, ast.Call)]
    if not callers or depth > 3:
        return False
    for caller, call in callers:
        b = prog.bind_call(caller.module, call, callee=fn)
        targ, oarg = b.get(table_param), b.get(other_param)
        if targ is None or not isinstance(targ, ast.Name):
            return False
        if oarg is None:
            continue                # default value: a constant
        if not isinstance(caller.node, (ast.FunctionDef, ast.AsyncFunctionDef)):
            return False
        cparams = {a.arg for a in caller.node.args.posonlyargs + caller.node.args.args + caller.node.args.kwonlyargs}

        def loops_of(n):
            res = []
            p = prog.parent(n)
            while p is not None and p is not caller.node:
                if isinstance(p, (ast.For, ast.AsyncFor, ast.While, ast.ListComp, ast.SetComp, ast.DictComp, ast.GeneratorExp)):
                    res.append(p)
                p = prog.parent(p)
            return res
        # where the table comes from
        if targ.id in cparams:
            tloops = None
        else:
            tdefs = [n for n in iter_own_nodes(caller.node) if isinstance(n, (ast.Assign, ast.AnnAssign)) and any(
                isinstance(t, ast.Name) and t.id == targ.id for t in (n.targets if isinstance(n, ast.Assign) else [n.target]))]
            if len(tdefs) != 1:
                return False
            tloops = {id(l) for l in loops_of(tdefs[0])}
        for x in ast.walk(oarg):
            if not (isinstance(x, ast.Name) and isinstance(x.ctx, ast.Load)):
                continue
            if x.id in cparams:
                if tloops is None and not _fixed_for_table(ctx, caller, targ.id, x.id, depth + 1):
                    return False
                continue
            binds = [n for n in iter_own_nodes(caller.node) if isinstance(n, ast.Name) and n.id == x.id and isinstance(n.ctx, ast.Store)]
            if not binds:
                continue            # a global / builtin
            if tloops is None:
                return False
            if len(binds) != 1 or any(id(l) not in tloops for l in loops_of(binds[0])):
                return False        # varies while the table lives
            bp = prog.parent(binds[0])
            if isinstance(bp, (ast.For, ast.AsyncFor, ast.comprehension)) and getattr(bp, 'target', None) is binds[0]:
                return False
    return True


# ---- hand-written memo tables: the key carries everything the remembered value depends on -------------------------------------------
def memo_tables(ctx, fns) -> List[tuple]:
    """Functions that remember a computed value in a table which outlives the call (a field of self, a module-level dict, a
    dict handed in):   if K not in D: D[K] = V ... return D[K]   (also D.get(K), D.setdefault(K, V), try/except KeyError).
    Rule: every parameter of the function that V depends on - through locals, loop variables and call arguments - is
    also something K depends on; otherwise a later call that differs only in the omitted parameter is answered with the value
    computed for the earlier one.  Returns (fn, store node, ok, message)."""
    prog = ctx.prog
    out = []
    for fn in fns:
        if not isinstance(fn.node, (ast.FunctionDef, ast.AsyncFunctionDef)):
            continue
        own = list(iter_own_nodes(fn.node))
        a = fn.node.args
        params = [x.arg for x in a.posonlyargs + a.args + a.kwonlyargs] + [x.arg for x in (a.vararg, a.kwarg) if x is not None]
        self_name = params[0] if fn.cls is not None and params and params[0] in ('self', 'cls') else None
        stores = []
        for n in own:
            if isinstance(n, ast.Assign) and len(n.targets) == 1 and isinstance(n.targets[0], ast.Subscript):
                stores.append((n, n.targets[0].value, n.targets[0].slice, n.value))
            elif isinstance(n, ast.Call) and isinstance(n.func, ast.Attribute) and n.func.attr == 'setdefault' and \
                    len(n.args) == 2 and not n.keywords:
                stores.append((n, n.func.value, n.args[0], n.args[1]))
        if not stores:
            continue
        local_defs = {}
        for n in own:
            if isinstance(n, ast.Assign):
                for t in n.targets:
                    for x in ast.walk(t):
                        if isinstance(x, ast.Name) and isinstance(x.ctx, ast.Store):
                            local_defs.setdefault(x.id, []).append(n.value)
            elif isinstance(n, (ast.AugAssign, ast.AnnAssign)) and isinstance(n.target, ast.Name) and n.value is not None:
                local_defs.setdefault(n.target.id, []).append(n.value)
            elif isinstance(n, (ast.For, ast.AsyncFor, ast.comprehension)):
                for x in ast.walk(n.target):
                    if isinstance(x, ast.Name):
                        local_defs.setdefault(x.id, []).append(n.iter)
            elif isinstance(n, ast.NamedExpr):
                local_defs.setdefault(n.target.id, []).append(n.value)
            elif isinstance(n, ast.withitem) and n.optional_vars is not None:
                for x in ast.walk(n.optional_vars):
                    if isinstance(x, ast.Name):
                        local_defs.setdefault(x.id, []).append(n.context_expr)

        def deps(e, seen=None) -> set:
            seen = set() if seen is None else seen
            res = set()
            for x in ast.walk(e):
                if not (isinstance(x, ast.Name) and isinstance(x.ctx, ast.Load)):
                    continue
                if x.id in local_defs and x.id not in seen:
                    seen.add(x.id)
                    for d in local_defs[x.id]:
                        res |= deps(d, seen)
                if x.id in params:
                    res.add(x.id)
            return res

        for node, D, K, V in stores:
            root = D
            while isinstance(root, (ast.Attribute, ast.Subscript)):
                root = root.value
            if not isinstance(root, ast.Name):
                continue
            if root.id in local_defs and root.id not in params and root is D:
                continue            # a table of this call only
            if root.id not in params and root.id in local_defs:
                continue
            dtext = ast.unparse(D)
            # the remembered value is what the function answers with
            answered = False
            for r in own:
                if isinstance(r, ast.Return) and r.value is not None:
                    exprs = [r.value]
                    for x in ast.walk(r.value):
                        if isinstance(x, ast.Name) and x.id in local_defs:
                            exprs += local_defs[x.id]
                    for e in exprs:
                        for x in ast.walk(e):
                            if isinstance(x, ast.Subscript) and ast.unparse(x.value) == dtext and isinstance(x.ctx, ast.Load):
                                answered = True
                            if isinstance(x, ast.Call) and isinstance(x.func, ast.Attribute) and x.func.attr in ('get', 'setdefault') \
                                    and ast.unparse(x.func.value) == dtext:
                                answered = True
            if isinstance(node, ast.Call) and not isinstance(prog.parent(node), ast.Expr):
                answered = True         # the value of setdefault() is used: remembered or fresh
            if not answered:
                continue
            dv, dk = deps(V), deps(K)
            if self_name is not None:
                # per-object tables: the object's own fields are fixed per table; a table shared between objects needs them in the key
                if root.id == self_name:
                    dv.discard(self_name)
            # the table itself is not an input of the value
            dv -= {root.id} if root.id in params and root.id != self_name else set()
            missing = sorted(dv - dk)
            if missing and root.id in params and root.id != self_name and root is D:
                # the table is handed in: it lives as long as the caller keeps it; what the key leaves out has to be fixed for that time
                missing = [m for m in missing if not _fixed_for_table(ctx, fn, root.id, m, 0)]
            ok = not missing
            out.append((fn, node, ok,
                        f'memo table `{dtext}` is keyed by everything the remembered value depends on ({", ".join(sorted(dk)) or "-"})' if ok else
                        f'memo table `{dtext}` is keyed by `{ast.unparse(K)[:50]}` ({", ".join(sorted(dk)) or "no parameter"}) but the remembered '
                        f'value also depends on {", ".join("`" + m + "`" for m in missing)}: a later call that differs only there is '
                        f'answered with the value computed for an earlier one'))
    return out


# ---- the typed getters of ElementHelper, decided by interpretation (E7): shared by C05 (values kept) and C15 (refusals) -------------
def getters_by_interpretation(ctx):
    """Every typed getter of json_ast.ElementHelper interpreted (dznverif.scenario) on an element in which the key is absent,
    or present with each kind of JSON value - string, empty string, number, zero, true / false, null, object, empty object, list,
    empty list.  Contract: `get_<T>_value` hands back the value exactly when it is present and of type T (falsy ones - 0, '',
    {}, [] - included) and raises DznJsonError otherwise; `tryget_<T>_value` additionally hands back None for an absent key.
    Returns None when the class cannot be interpreted, else a list of (getter name, kind, text) with kind 'lost' (a
    well-typed value is refused or altered: C05) or 'leak' (a value of the wrong type comes back, or another exception than
    DznJsonError is raised: C15); an empty list when every getter keeps its contract; plus the number of evaluations."""
    cache = ctx.__dict__.get('_getters_by_interpretation')
    if cache is not None:
        return cache
    from ..scenario import Interp, Raised, Undecided, Obj
    prog = ctx.prog
    try:
        eh = prog.cls('json_ast', 'ElementHelper')
    except Exception:       # pylint: disable=broad-except
        return None
    err = prog.classes.get('dznpy.json_ast.DznJsonError')
    types = {'str': str, 'dict': dict, 'int': int, 'list': list}
    values = [('a string', 'text'), ('an empty string', ''), ('a number', 5), ('zero', 0), ('a negative number', -3), ('true', True), ('false', False),
              ('null', None), ('an object', {'k': 'v'}), ('an empty object', {}), ('a list', ['x']), ('an empty list', []),
              ('a fraction', 1.5)]
    out: List[Tuple[str, str, str]] = []
    n = 0
    try:
        for mname, m in sorted(eh.methods.items()):
            parts = mname.split('_')
            if len(parts) != 3 or parts[0] not in ('get', 'tryget') or parts[2] != 'value' or parts[1] not in types:
                continue
            ty = types[parts[1]]
            for label, v in [('absent', NotImplemented)] + values:
                it = Interp(prog)
                element = {'<class>': 'thing', 'other': 1}
                if v is not NotImplemented:
                    element['key'] = v
                helper = it.construct(eh, [element, 'ctx'], {})
                n += 1
                well_typed = v is not NotImplemented and isinstance(v, ty) and not (ty is int and isinstance(v, float))
                try:
                    res = it.call_function(m, ['key'], {}, self_val=helper)
                    raised = None
                except Raised as exc:
                    res, raised = None, exc.name
                documented = raised is not None and err is not None and (raised == err.fq or prog.is_subclass(raised, err.fq) if raised in prog.classes else False)
                if well_typed:
                    if raised is not None:
                        out.append((mname, 'lost', f'{mname}: a key holding {label} ({v!r}) is refused with {raised.split(".")[-1]} although it is a {parts[1]}'))
                    elif not (res is v or (type(res) is type(v) and res == v)):
                        out.append((mname, 'lost', f'{mname}: a key holding {label} ({v!r}) comes back as {res!r}'))
                elif v is NotImplemented and parts[0] == 'tryget':
                    if raised is not None:
                        out.append((mname, 'lost', f'{mname}: an absent key raises {raised.split(".")[-1]} instead of yielding None'))
                    elif res is not None:
                        out.append((mname, 'leak', f'{mname}: an absent key yields {res!r}'))
                else:
                    what = 'an absent key' if v is NotImplemented else f'a key holding {label} ({v!r})'
                    if raised is None:
                        out.append((mname, 'leak', f'{mname}: {what} is handed back as {res!r} instead of being refused with DznJsonError: '
                                                   f'the caller goes on with a value that is no {parts[1]}'))
                    elif not documented:
                        out.append((mname, 'leak', f'{mname}: {what} raises {raised.split(".")[-1]}, not DznJsonError'))
    except Undecided as exc:
        ctx.run.remark(f'ElementHelper getters could not be interpreted ({exc})')
        return None
    if n == 0:
        return None
    ctx.__dict__['_getters_by_interpretation'] = (out, n)
    return out, n


# ---- create_dzn_elements decided by interpretation (E7): shared by C03, C04, C07 and C13 -------------------------------------------
def dzn_elements_by_interpretation(ctx):
    """adv_shell.core.processing.create_dzn_elements (and everything it calls: the port / interface lookup, the per-port
    semantics lookup, check_multiclient_cfg) interpreted on hand-built models (dznverif.scenario):

      A  ports `provides a, requires b, requires injected c, provides d, requires e` (and the reverse order), provides ports
         MTS, requires `b` STS and the remaining MTS: exposed are a, d and b, e - in declaration order, each with the semantics
         configured for that very port and the interface its type names, c is not exposed; with `e` left unconfigured the
         build is refused with AdvShellError.
      B  ports `provides api: IApi, provides other: IPlain, requires dev: IPlain` and a multi-client configuration that is
         absent / valid / names a requires port / names no port / names a claim or release event that does not exist / a
         granting value the enum does not have / a claim event replying void or an extern / is used with STS ports.

    The function only compares names, directions and flags and looks declarations up by name, so this universe covers its
    branches whatever helper functions, generators or tables it is organised into.  Returns None when it cannot be
    interpreted, else {rule: [problem, ...]} for the rules C03.injected, C03.lookup, C03.total, C13.rejects, C04.validate,
    C07.kind, C07.spelling (empty lists: holds) plus '#' -> number of scenarios."""
    if '_dzn_elements_by_interpretation' in ctx.__dict__:
        return ctx.__dict__['_dzn_elements_by_interpretation']
    ctx.__dict__['_dzn_elements_by_interpretation'] = None
    from ..scenario import Interp, EnumV, Obj, Raised, Undecided
    prog, run = ctx.prog, ctx.run
    try:
        fn = prog.func('adv_shell.core.processing', 'create_dzn_elements')
        A = {n: prog.cls('ast', n) for n in ('Component', 'Interface', 'Enum', 'Fields', 'Event', 'Events', 'Signature', 'Formals', 'Port',
                                             'Ports', 'ScopeName', 'Types', 'FileContents', 'Extern', 'Data', 'PortDirection',
                                             'EventDirection', 'Injected')}
        nids, ntree = prog.cls('scoping', 'NamespaceIds'), prog.cls('scoping', 'NamespaceTree')
        psel, pwild = prog.cls('adv_shell.port_selection', 'PortSelect'), prog.cls('adv_shell.port_selection', 'PortWildcard')
        psc, pcfg = prog.cls('adv_shell.port_selection', 'PortsSemanticsCfg'), prog.cls('adv_shell.port_selection', 'PortsCfg')
        mcc = prog.cls('adv_shell.port_selection', 'MultiClientPortCfg')
        conf = prog.cls('adv_shell.common', 'Configuration')
        fo = prog.cls('adv_shell.common', 'FacilitiesOrigin')
        rs = prog.cls('adv_shell.types', 'RuntimeSemantics')
        adv = prog.cls('adv_shell.types', 'AdvShellError')
        mce = prog.cls('adv_shell.types', 'MultiClientCfgError')
    except Exception:       # pylint: disable=broad-except
        return None
    params = [a.arg for a in fn.params()]
    if params[:3] != ['cfg', 'fct', 'encapsulee']:
        return None
    out: Dict[str, List[str]] = {k: [] for k in ('C03.injected', 'C03.lookup', 'C03.total', 'C13.rejects', 'C04.validate', 'C07.kind', 'C07.spelling')}
    n_scen = [0]

    class World:
        def __init__(self):
            self.it = it = Interp(prog)
            it.MAX_STEPS = 3000000

            def mk(cls, **kw):
                try:
                    return it.construct(cls, [], kw)
                except Raised as exc:
                    raise Undecided(f'the scenario model cannot be built: {cls.name} raises {exc.name}')
            self.mk = mk
            self.ids = lambda *xs: mk(nids, items=list(xs))
            self.sn = lambda *xs: mk(A['ScopeName'], value=self.ids(*xs))
            self.root = mk(ntree)
            self.my = mk(ntree, parent=self.root, scope_name=self.ids('My'))
            self.other_ns = mk(ntree, parent=self.root, scope_name=self.ids('Other'))

        def event(self, name, reply, direction='IN'):
            return self.mk(A['Event'], name=name, signature=self.mk(A['Signature'], type_name=self.sn(reply), formals=self.mk(A['Formals'], elements=[])),
                           direction=EnumV(A['EventDirection'], direction))

        def interface(self, name, events, nested=()):
            trail = self.mk(ntree, parent=self.my, scope_name=self.ids(name))
            itf = self.mk(A['Interface'], fqn=self.ids('My', name), parent_ns=self.my, ns_trail=trail, name=self.sn(name),
                          types=self.mk(A['Types'], elements=list(nested)), events=self.mk(A['Events'], elements=list(events)))
            return itf, trail

        def port(self, name, type_name, direction, injected=False):
            return self.mk(A['Port'], name=name, type_name=self.sn(type_name), direction=EnumV(A['PortDirection'], direction),
                           formals=self.mk(A['Formals'], elements=[]), injected=self.mk(A['Injected'], value=injected))

        def select(self, what):
            return self.mk(psel, value=(set(what) if isinstance(what, (set, frozenset, list)) else EnumV(pwild, what)))

        def sem(self, sts, mts):
            return self.mk(psc, sts=self.select(sts), mts=self.select(mts))

        def config(self, fct, provides, requires, multiclient=None):
            try:
                pc = self.it.construct(pcfg, [], {'provides': provides, 'requires': requires, 'multiclient': multiclient})
            except Raised as exc:
                raise Undecided(f'PortsCfg refuses the scenario configuration ({exc.name})')
            return self.mk(conf, dezyne_filename='x.dzn', ast_fc=fct, output_basename_suffix='Shell', fqn_encapsulee_name=self.ids('My', 'Comp'),
                           ports_cfg=pc, facilities_origin=EnumV(fo, 'CREATE'), copyright='(c)')

        def run(self, cfg, fct, comp):
            n_scen[0] += 1
            try:
                return self.it.call_function(fn, [cfg, fct, comp], {}), None
            except Raised as exc:
                return None, exc.name

    def is_a(exc_name: Optional[str], base: ClassInfo) -> bool:
        return exc_name is not None and exc_name in prog.classes and prog.is_subclass(exc_name, base.fq)

    def names_of(seq):
        return [p.fields['port'].fields['name'] if isinstance(p, Obj) and isinstance(p.fields.get('port'), Obj) else repr(p)[:30] for p in seq]

    try:
        # ---- A: exposure, order, semantics per port ----------------------------------------------------------------------
        for order in ((0, 1, 2, 3, 4), (4, 3, 2, 1, 0), (2, 0, 1, 4, 3)):
            w = World()
            plain, _t = w.interface('IPlain', [w.event('Poke', 'void')])
            spec = [('a', 'PROVIDES', False), ('b', 'REQUIRES', False), ('c', 'REQUIRES', True), ('d', 'PROVIDES', False), ('e', 'REQUIRES', False)]
            ports = [w.port(nm, 'IPlain', d, inj) for nm, d, inj in (spec[i] for i in order)]
            comp = w.mk(A['Component'], fqn=w.ids('My', 'Comp'), parent_ns=w.my, name=w.sn('Comp'), ports=w.mk(A['Ports'], elements=ports))
            fct = w.mk(A['FileContents'])
            fct.fields['interfaces'] = [plain]
            fct.fields['components'] = [comp]
            label = 'ports [' + ', '.join(f'{spec[i][1].lower()}{" injected" if spec[i][2] else ""} {spec[i][0]}' for i in order) + ']'
            cfg = w.config(fct, w.sem('NONE', 'ALL'), w.sem({'b'}, 'REMAINING'))
            res, exc = w.run(cfg, fct, comp)
            if exc is not None:
                out['C03.lookup'].append(f'{label}: the valid configuration (every exposed port is given a semantics) is refused with '
                                         f'{exc.split(".")[-1]}: the semantics is not looked up under the name of the port')
                continue
            if not isinstance(res, Obj) or not isinstance(res.fields.get('provides_ports'), list) or not isinstance(res.fields.get('requires_ports'), list):
                raise Undecided('create_dzn_elements does not hand back a DznElements with two port lists')
            want_p = [spec[i][0] for i in order if spec[i][1] == 'PROVIDES']
            want_r = [spec[i][0] for i in order if spec[i][1] == 'REQUIRES' and not spec[i][2]]
            got_p, got_r = names_of(res.fields['provides_ports']), names_of(res.fields['requires_ports'])
            if got_p != want_p or got_r != want_r:
                out['C03.injected'].append(f'{label}: exposed provides ports {got_p} / requires ports {got_r}, expected {want_p} / {want_r} '
                                           f'(all provides ports and the requires ports that are not injected, in declaration order)')
            want_sem = {'a': 'MTS', 'd': 'MTS', 'b': 'STS', 'e': 'MTS'}
            for p in res.fields['provides_ports'] + res.fields['requires_ports']:
                if not isinstance(p, Obj):
                    continue
                nm = p.fields['port'].fields['name'] if isinstance(p.fields.get('port'), Obj) else '?'
                s_ = p.fields.get('semantics')
                if nm in want_sem and not (isinstance(s_, EnumV) and s_.member == want_sem[nm]):
                    out['C03.lookup'].append(f'{label}: port {nm} gets the semantics {s_!r}, configured is {want_sem[nm]}')
                if p.fields.get('interface') is not plain:
                    out['C03.lookup'].append(f'{label}: port {nm} is not paired with the interface its type names')
                if p.fields.get('multiclient') is not None:
                    out['C13.rejects'].append(f'{label}: port {nm} gets a multi-client fixture although none is configured')
            # a configuration by names only: the injected port c is named nowhere - it is not exposed and needs no semantics
            cfg3 = w.config(fct, w.sem('NONE', {'a', 'd'}), w.sem({'b'}, {'e'}))
            res3, exc3 = w.run(cfg3, fct, comp)
            if exc3 is not None:
                out['C03.lookup'].append(f'{label}, every exposed port configured by name (the injected port c by none): refused with '
                                         f'{exc3.split(".")[-1]} - a semantics is demanded for a port that is not exposed')
            elif isinstance(res3, Obj) and (names_of(res3.fields.get('provides_ports', [])) != want_p or
                                            names_of(res3.fields.get('requires_ports', [])) != want_r):
                out['C03.injected'].append(f'{label}, configured by name: exposed ports differ from the wildcard configuration')
            # a port the configuration leaves without semantics
            cfg2 = w.config(fct, w.sem('NONE', 'ALL'), w.sem({'b'}, 'NONE'))
            _res, exc = w.run(cfg2, fct, comp)
            if not is_a(exc, adv):
                out['C03.total'].append(f'{label}, requires port e left without semantics: ' +
                                        ('the build goes on' if exc is None else f'fails with {exc.split(".")[-1]}, not AdvShellError'))

        # ---- A2: a port whose type does not denote exactly one interface - whatever kind of port it is ----------------------------
        ferr = prog.classes.get('dznpy.ast_view.FindError')
        for pkind, (pdir, pinj) in (('provides', ('PROVIDES', False)), ('requires', ('REQUIRES', False)), ('injected requires', ('REQUIRES', True))):
            for tlabel, tname in (('is declared nowhere', 'INope'), ('denotes two interfaces on the scope chain (My.IDup and IDup)', 'IDup'),
                                  ('denotes an enum', 'Result')):
                w = World()
                plain, _t = w.interface('IPlain', [w.event('Poke', 'void')])
                dup1, _t1 = w.interface('IDup', [w.event('Poke', 'void')])
                dup2 = w.mk(A['Interface'], fqn=w.ids('IDup'), parent_ns=w.root, ns_trail=w.mk(ntree, parent=w.root, scope_name=w.ids('IDup')),
                            name=w.sn('IDup'), types=w.mk(A['Types'], elements=[]), events=w.mk(A['Events'], elements=[w.event('Poke', 'void')]))
                enum_ = w.mk(A['Enum'], fqn=w.ids('My', 'Result'), parent_ns=w.my, name=w.sn('Result'), fields=w.mk(A['Fields'], elements=['Ok']))
                ports = [w.port('a', 'IPlain', 'PROVIDES'), w.port('x', tname, pdir, pinj), w.port('b', 'IPlain', 'REQUIRES')]
                comp = w.mk(A['Component'], fqn=w.ids('My', 'Comp'), parent_ns=w.my, name=w.sn('Comp'), ports=w.mk(A['Ports'], elements=ports))
                fct = w.mk(A['FileContents'])
                fct.fields['interfaces'] = [plain, dup1, dup2]
                fct.fields['enums'] = [enum_]
                fct.fields['components'] = [comp]
                _res, exc = w.run(w.config(fct, w.sem('NONE', 'ALL'), w.sem('NONE', 'ALL')), fct, comp)
                lib_err = exc is not None and (is_a(exc, adv) or (ferr is not None and (exc == ferr.fq or is_a(exc, ferr))))
                if not lib_err:
                    out['C13.rejects'].append(f'a model with a {pkind} port whose type {tlabel} ' +
                                              ('is accepted: the build returns files for an invalid model' if exc is None else
                                               f'fails with {exc.split(".")[-1]}, not with a lookup error of the library'))

        # ---- B: the multi-client configuration ---------------------------------------------------------------------------------
        def world_b():
            w = World()
            enum_trail_parent = None
            claim, release, poke = w.event('Claim', 'Result'), w.event('Release', 'void'), w.event('Poke', 'void')
            getdata, done = w.event('GetData', 'Data'), w.event('Done', 'void', 'OUT')
            api, api_trail = w.interface('IApi', [poke, claim, getdata, release, done])
            result = w.mk(A['Enum'], fqn=w.ids('My', 'IApi', 'Result'), parent_ns=api_trail, name=w.sn('Result'), fields=w.mk(A['Fields'], elements=['Busy', 'Ok']))
            api.fields['types'].fields['elements'].append(result)
            decoy = w.mk(A['Enum'], fqn=w.ids('Other', 'Result'), parent_ns=w.other_ns, name=w.sn('Result'), fields=w.mk(A['Fields'], elements=['Ok', 'Nope']))
            data = w.mk(A['Extern'], fqn=w.ids('My', 'Data'), parent_ns=w.my, name=w.sn('Data'), value=w.mk(A['Data'], value='int'))
            plain, _t = w.interface('IPlain', [w.event('Poke', 'void')])
            ports = [w.port('api', 'IApi', 'PROVIDES'), w.port('other', 'IPlain', 'PROVIDES'), w.port('dev', 'IPlain', 'REQUIRES')]
            comp = w.mk(A['Component'], fqn=w.ids('My', 'Comp'), parent_ns=w.my, name=w.sn('Comp'), ports=w.mk(A['Ports'], elements=ports))
            fct = w.mk(A['FileContents'])
            fct.fields['interfaces'] = [api, plain]
            fct.fields['enums'] = [decoy, result]
            fct.fields['externs'] = [data]
            fct.fields['components'] = [comp]
            return w, fct, comp, dict(claim=claim, release=release, api=api)

        def mc_cfg(w, port='api', claim='Claim', grant=('Ok',), release='Release'):
            try:
                return w.it.construct(mcc, [], {'port_name': port, 'claim_event_name': claim, 'claim_granting_reply_value': w.ids(*grant),
                                                'release_event_name': release})
            except Raised as exc:
                raise Undecided(f'MultiClientPortCfg refuses the scenario ({exc.name})')

        w, fct, comp, ev = world_b()
        res, exc = w.run(w.config(fct, w.sem('NONE', 'ALL'), w.sem('NONE', 'ALL'), mc_cfg(w)), fct, comp)
        if exc is not None:
            out['C04.validate'].append(f'a valid multi-client configuration (port api, Claim / Ok / Release) is refused with {exc.split(".")[-1]}')
            out['C07.kind'].append(f'a claim event that replies an enum (My.IApi.Result) is refused with {exc.split(".")[-1]}: the reply type is not '
                                   f'looked up as an enum')
        else:
            pp = {p.fields['port'].fields['name']: p for p in res.fields['provides_ports'] if isinstance(p, Obj)}
            fx = pp['api'].fields.get('multiclient') if 'api' in pp else None
            if not isinstance(fx, Obj):
                out['C13.rejects'].append('the configured multi-client port api gets no fixture')
            else:
                if fx.fields.get('claim_event') is not ev['claim'] or fx.fields.get('release_event') is not ev['release']:
                    out['C04.validate'].append('the fixture does not hold the configured claim / release events of the port\'s interface')
                reply = fx.fields.get('claim_granting_reply')
                items = reply.fields.get('items') if isinstance(reply, Obj) else None
                if items != ['My', 'IApi', 'Result', 'Ok']:
                    out['C07.spelling'].append(f'the granting reply is spelled {items!r}; the claim event replies the enum My.IApi.Result, so it has to be '
                                               f'My.IApi.Result.Ok (the fully qualified name of the resolved enum plus the configured value)')
            if 'other' in pp and pp['other'].fields.get('multiclient') is not None:
                out['C13.rejects'].append('a provides port the configuration does not name gets a multi-client fixture')
            if any(isinstance(p, Obj) and p.fields.get('multiclient') is not None for p in res.fields['requires_ports']):
                out['C13.rejects'].append('a requires port gets a multi-client fixture')
        for label, kw, want, rule in (
                ('names the requires port dev', dict(port='dev'), adv, 'C13.rejects'),
                ('names a port that does not exist', dict(port='nope'), adv, 'C13.rejects'),
                ('names a claim event the interface does not have', dict(claim='Nope'), mce, 'C04.validate'),
                ('names a release event the interface does not have', dict(release='Nope'), mce, 'C04.validate'),
                ('names a granting value the replied enum does not have', dict(grant=('Nope',)), mce, 'C04.validate'),
                ('names a claim event that replies void', dict(claim='Poke'), mce, 'C04.validate'),
                ('names a claim event that replies an extern type', dict(claim='GetData'), mce, 'C07.kind')):
            w, fct, comp, ev = world_b()
            _res, exc = w.run(w.config(fct, w.sem('NONE', 'ALL'), w.sem('NONE', 'ALL'), mc_cfg(w, **kw)), fct, comp)
            if not is_a(exc, want):
                out[rule].append(f'a multi-client configuration that {label} ' +
                                 ('is accepted' if exc is None else f'fails with {exc.split(".")[-1]}') + f' - {want.name} expected')
        # two enums of the replied name on the scope chain of the interface (My.IApi.Result and My.Result): ambiguous, refused
        w, fct, comp, ev = world_b()
        outer = w.mk(A['Enum'], fqn=w.ids('My', 'Result'), parent_ns=w.my, name=w.sn('Result'), fields=w.mk(A['Fields'], elements=['Ok', 'Other']))
        fct.fields['enums'] = [outer] + list(fct.fields['enums'])
        _res, exc = w.run(w.config(fct, w.sem('NONE', 'ALL'), w.sem('NONE', 'ALL'), mc_cfg(w)), fct, comp)
        if not is_a(exc, mce):
            out['C04.validate'].append('a claim event whose reply type name denotes two enums on the scope chain (My.IApi.Result and My.Result) ' +
                                       ('is accepted - one of them is picked silently' if exc is None else f'fails with {exc.split(".")[-1]}') +
                                       ' - MultiClientCfgError expected')
        w, fct, comp, ev = world_b()
        _res, exc = w.run(w.config(fct, w.sem('ALL', 'NONE'), w.sem('NONE', 'ALL'), mc_cfg(w)), fct, comp)
        if not is_a(exc, mce):
            out['C04.validate'].append('a multi-client configuration on a port with STS semantics ' +
                                       ('is accepted' if exc is None else f'fails with {exc.split(".")[-1]}') + ' - MultiClientCfgError expected')
    except Undecided as exc:
        run.remark(f'create_dzn_elements could not be interpreted on the scenario models ({exc}); the shape rules decide')
        return None
    out['#'] = [str(n_scen[0])]
    ctx.__dict__['_dzn_elements_by_interpretation'] = out
    return out


# ---- what the shell header / source are composed of, read off the evaluated file templates (E4) ---------------------------------------
def shell_frame_anchors(ctx):
    """The header and the source file of the shell evaluated with the E4 evaluator (Builder._create_headerfile /
    _create_sourcefile over a symbolic recipe, whatever helper methods, section builders or part records they are organised
    into): per file the ordered list of what the text is rendered from - ('hole', 'cpp.<path>') for a value of the recipe's
    C++ elements, ('rep', '<collection>', {inner paths}) for a repetition over one of its collections.  None when the
    templates cannot be evaluated (the rules that ask fall back to the source text of the two methods)."""
    if '_shell_frame_anchors' in ctx.__dict__:
        return ctx.__dict__['_shell_frame_anchors']
    ctx.__dict__['_shell_frame_anchors'] = None
    from ..template import Hole, AltS, RepS
    from ..report import AnalysisError
    try:
        from .c06 import _frames
        frames = _frames(ctx)
    except AnalysisError:
        return None
    except Exception:       # pylint: disable=broad-except
        return None

    def walk(s, out):
        for p in s.parts:
            if isinstance(p, Hole):
                out.append(('hole', p.sym.text()))
            elif isinstance(p, AltS):
                walk(p.a, out)
                walk(p.b, out)
            elif isinstance(p, RepS):
                inner = walk(p.elem, [])
                paths = set()
                for a in inner:
                    paths.add(a[1].split('.', 1)[-1] if a[0] == 'hole' else 'rep:' + a[1])
                    if a[0] == 'rep':
                        paths |= a[2]
                out.append(('rep', repr(p.src.base).strip('<>'), paths))
        return out
    res = {}
    for (m, named), t in frames.items():
        if named:
            res['header' if m == '_create_headerfile' else 'source'] = walk(t, [])
    if set(res) != {'header', 'source'}:
        return None
    ctx.__dict__['_shell_frame_anchors'] = res
    return res


def frame_entities(anchors: list, marker: str) -> set:
    """Entities of the C++ elements of which the file renders the part `marker` ('initialization': every declaration of a
    function / constructor renders it; 'contents': every definition does): 'constructor', 'facilities.locator_accessor_fn',
    'provides_ports.ports[].accessor_fn', ..."""
    out = set()
    for a in anchors:
        if a[0] == 'hole' and a[1].startswith('cpp.') and a[1].endswith('.' + marker):
            out.add(a[1][len('cpp.'):-len(marker) - 1])
        elif a[0] == 'rep' and a[1].startswith('cpp.'):
            for p in a[2]:
                if p == marker:
                    out.add(a[1][len('cpp.'):] + '[]')
                elif p.endswith('.' + marker):
                    out.add(a[1][len('cpp.'):] + '[].' + p[:-len(marker) - 1])
    return out
