"""Rule helpers shared by several properties."""
from __future__ import annotations

import ast
from typing import Any, List, Optional, Tuple

from ..model import FuncInfo, ClassInfo, Module, iter_own_nodes
from ..report import AnalysisError

SUPPORT_MODULES = ['strict_port', 'ilog', 'misc_utils', 'meta_helpers', 'multi_client_selector', 'mutex_wrapped']


def entry_points_build(ctx, extra: List[Tuple[str, str]] = ()) -> List[FuncInfo]:
    """Builder.build and the six stand-alone create_header functions (discovered: every module of the
    support_files package that defines create_header)."""
    prog = ctx.prog
    out = [prog.func('adv_shell', 'Builder.build')]
    found = 0
    for mod in prog.modules.values():
        if mod.name.startswith('dznpy.support_files.') and 'create_header' in mod.functions:
            out.append(mod.functions['create_header'])
            found += 1
    if found < 6:
        raise AnalysisError(f'only {found} support_files.*.create_header found, 6 confirmed on the reference tree')
    for m, q in extra:
        out.append(prog.func(m, q))
    return out


def is_immutable_value(prog, mod: Module, e: Optional[ast.expr]) -> bool:
    if e is None:
        return True
    if isinstance(e, ast.Constant):
        return True
    if isinstance(e, ast.JoinedStr):
        return True
    if isinstance(e, ast.Tuple):
        return all(is_immutable_value(prog, mod, x) for x in e.elts)
    if isinstance(e, ast.UnaryOp):
        return is_immutable_value(prog, mod, e.operand)
    if isinstance(e, ast.BinOp):
        return is_immutable_value(prog, mod, e.left) and is_immutable_value(prog, mod, e.right)
    if isinstance(e, (ast.Name, ast.Attribute)):
        sym = prog.resolve_expr_symbol(mod, e)
        if isinstance(sym, (ClassInfo, FuncInfo, Module)):
            return True
        if isinstance(sym, tuple) and sym[0] == 'enum_member':
            return True
        if isinstance(sym, tuple) and sym[0] == 'const':
            return is_immutable_value(prog, sym[2], sym[1])
        if isinstance(sym, tuple) and sym[0] == 'ext':
            return True            # e.g. typing aliases, imported functions
        return False
    if isinstance(e, ast.Subscript):   # typing alias such as List[str]
        return isinstance(e.value, (ast.Name, ast.Attribute))
    if isinstance(e, ast.Call):
        fname = e.func.id if isinstance(e.func, ast.Name) else getattr(e.func, 'attr', '')
        if fname in ('frozenset', 'tuple', 'str', 'int', 'float', 'bool', 'bytes', 'TypeVar', 'NewType',
                     'namedtuple', 'compile'):
            return True
        sym = prog.resolve_expr_symbol(mod, e.func)
        if isinstance(sym, ClassInfo) and sym.is_dataclass and sym.frozen:
            # a frozen dataclass instance is immutable if its arguments are
            return all(is_immutable_value(prog, mod, a) for a in e.args) and \
                all(is_immutable_value(prog, mod, k.value) for k in e.keywords)
        return False
    return False


def module_state_instances(ctx) -> List[tuple]:
    """Instances for the 'no module-level / class-level mutable state' rule.
    Returns tuples (module, function, construct, ok, message, node)."""
    prog = ctx.prog
    out = []
    for mod in prog.modules.values():
        for stmt in mod.tree.body:
            if isinstance(stmt, (ast.Assign, ast.AnnAssign)):
                val = stmt.value
                if val is None:
                    continue
                ok = is_immutable_value(prog, mod, val)
                out.append((mod.name, '<module>', stmt, ok,
                            'module-level binding of an immutable value' if ok else
                            'module-level mutable object: shared between all builds/parses of the process', stmt))
            elif isinstance(stmt, ast.AugAssign):
                out.append((mod.name, '<module>', stmt, False, 'module-level augmented assignment', stmt))
        for cls in mod.classes.values():
            for stmt in cls.node.body:
                val = None
                if isinstance(stmt, ast.AnnAssign):
                    val = stmt.value
                elif isinstance(stmt, ast.Assign):
                    val = stmt.value
                else:
                    continue
                if val is None:
                    continue
                if cls.is_enum:
                    continue
                # dataclass field(...)
                if isinstance(val, ast.Call) and getattr(val.func, 'id', getattr(val.func, 'attr', '')) == 'field':
                    ok, why = True, 'field() with default_factory or immutable default'
                    for kw in val.keywords:
                        if kw.arg == 'default' and not is_immutable_value(prog, mod, kw.value):
                            ok, why = False, 'field(default=<mutable>) is shared by all instances'
                    out.append((mod.name, cls.name, stmt, ok, why, stmt))
                    continue
                ok = is_immutable_value(prog, mod, val)
                out.append((mod.name, cls.name, stmt, ok,
                            'class-level immutable default' if ok else
                            'class-level mutable attribute: shared by all instances', stmt))
    for fn in prog.all_functions():
        for n in iter_own_nodes(fn.node):
            if isinstance(n, (ast.Global, ast.Nonlocal)):
                out.append((fn.module.name, fn.qualname, n, False,
                            'global/nonlocal write: state survives the call', n))
            # store to an attribute of a module object (e.g. text_gen.DEFAULT_INDENT_NR_SPACES = 3)
            if isinstance(n, ast.Attribute) and isinstance(n.ctx, (ast.Store, ast.Del)):
                base = prog.resolve_expr_symbol(fn.module, n.value)
                if isinstance(base, (Module, ClassInfo)):
                    out.append((fn.module.name, fn.qualname, ctx.flow.enclosing_stmt(n), False,
                                'write to a module/class attribute from package code', n))
        a = fn.node.args
        for d in list(a.defaults) + [k for k in a.kw_defaults if k is not None]:
            ok = is_immutable_value(prog, fn.module, d)
            if not ok:
                out.append((fn.module.name, fn.qualname, d, False,
                            'mutable default argument: shared between calls', d))
    return out


# ---------------------------------------------------------------------------------------------------------
# FindResult typing hook and the container / valid_types agreement (E6), shared by C07, C13, C14
# ---------------------------------------------------------------------------------------------------------
def valid_types_table(ctx):
    """Classes listed by FindResult.valid_types (read from the property body)."""
    prog = ctx.prog
    fr = prog.cls('ast_view', 'FindResult')
    vt = fr.methods.get('valid_types')
    if vt is None:
        raise AnalysisError('FindResult.valid_types vanished')
    out = []
    for n in iter_own_nodes(vt.node):
        if isinstance(n, ast.Return) and isinstance(n.value, (ast.List, ast.Tuple)):
            for e in n.value.elts:
                sym = prog.resolve_expr_symbol(vt.module, e)
                if isinstance(sym, ClassInfo):
                    out.append(sym)
    if not out:
        raise AnalysisError('FindResult.valid_types is not a literal list of classes')
    return out


def install_find_hooks(ctx, abs_):
    """type of `<FindResult>.get_single_instance(T)` is T; without a type hint it is the union of valid_types."""
    from ..model import union, t_cls, strip_opt
    prog = ctx.prog
    valid = valid_types_table(ctx)
    fr = prog.cls('ast_view', 'FindResult')

    def hook(fn, call):
        f = call.func
        if not (isinstance(f, ast.Attribute) and f.attr == 'get_single_instance'):
            return None
        rt = strip_opt(abs_.type_at(fn, f.value, call))
        if rt != ('cls', fr.fq):
            return None
        hint = call.args[0] if call.args else next((k.value for k in call.keywords if k.arg == 'ast_typehint'), None)
        if hint is None or (isinstance(hint, ast.Constant) and hint.value is None):
            return union(t_cls(c.fq) for c in valid)
        sym = prog.resolve_expr_symbol(fn.module, hint)
        if isinstance(sym, ClassInfo):
            return t_cls(sym.fq)
        return None
    abs_.call_type_hooks.append(hook)
    return valid


def find_containers(ctx, fn_name: str):
    """FileContents containers scanned by ast_view.<fn_name>: [(field name, element ClassInfo)]."""
    prog = ctx.prog
    fn = prog.func('ast_view', fn_name)
    fc = prog.cls('ast', 'FileContents')
    fields = prog.class_fields(fc)
    out = []
    lists = [n for n in iter_own_nodes(fn.node) if isinstance(n, ast.For) and isinstance(n.iter, (ast.List, ast.Tuple))]
    if len(lists) != 1:
        raise AnalysisError(f'{fn_name}: expected exactly one loop over a literal list of containers')
    for e in lists[0].iter.elts:
        if not (isinstance(e, ast.Attribute) and e.attr in fields):
            raise AnalysisError(f'{fn_name}: container `{ast.unparse(e)}` is not a FileContents field')
        ann = fields[e.attr][0]
        t = prog.ann_to_type(fc.module, ann, fc)
        elem = prog.classes.get(t[1][1]) if t[0] == 'list' and t[1][0] == 'cls' else None
        out.append((e.attr, elem))
    return out, lists[0]
