"""C17 - text blocks keep one line per entry and flatten content losslessly.

Decides the invariant part: C17.provenance (only outputs of str.splitlines() without keepends, the empty
string, other blocks' lines, or per-line maps / sub-lists of such lists ever enter the line buffer),
C17.copy (blocks never share a buffer), C17.str (string form = every header and content line followed
by exactly one EOL, '' for an empty block), C17.flatten-shape (flatten recurses into lists and dict
values in order, None contributes nothing, the only filter is the empty-string skip; append keeps
empty strings).  The algebraic laws (round trip, trim, chunk) are value-level and not decided.
"""
from __future__ import annotations

import ast
from typing import Dict, List, Optional, Set, Tuple

from ..model import FuncInfo, ClassInfo, iter_own_nodes, strip_opt
from ..absval import Abs
from ..mutation import Mutations, is_fresh
from .c18 import const_str, resolve_local, join_shape


def flatten_family(ctx) -> Set[str]:
    """flatten_to_strlist and the function it merely wraps (`return list(<core>(value, skip_empty_strings))`): a generator
    core yields exactly the strings the list version returns."""
    cached = getattr(ctx, '_flatten_family', None)
    if cached is not None:
        return cached
    out = {'flatten_to_strlist'}
    f = ctx.prog.try_func('misc_utils', 'flatten_to_strlist')
    if f is not None:
        body = [b for b in f.node.body if not (isinstance(b, ast.Expr) and isinstance(b.value, ast.Constant))]
        if len(body) == 1 and isinstance(body[0], ast.Return) and isinstance(body[0].value, ast.Call):
            c = body[0].value
            if getattr(c.func, 'id', '') in ('list', 'tuple') and len(c.args) == 1 and isinstance(c.args[0], ast.Call):
                c = c.args[0]
            nm = getattr(c.func, 'id', None)
            if nm and ctx.prog.try_func('misc_utils', nm) is not None:
                out.add(nm)
    ctx._flatten_family = out
    return out


class Clean:
    """Judgement `clean(e)`: e is a list of strings none of which contains a line break."""

    def __init__(self, ctx, mut: Mutations):
        self.ctx, self.mut = ctx, mut
        self.abs = Abs(ctx.prog, ctx.cg, ctx.flow)
        self.notes: List[str] = []

    def clean_list(self, fn: FuncInfo, e: ast.AST, depth: int = 0) -> Tuple[Optional[bool], str]:
        ctx = self.ctx
        env = ctx.cg.env(fn)
        if depth > 8:
            return None, 'too deep'
        if isinstance(e, (ast.ListComp, ast.GeneratorExp)):
            # [E for x in S for y in T(x) ...]: the result holds the values of E; E is (a name bound by) the innermost
            # generator whose iterable is a clean list, or itself a clean string
            gens = e.generators
            if isinstance(e.elt, ast.Name):
                g = next((g_ for g_ in gens if isinstance(g_.target, ast.Name) and g_.target.id == e.elt.id), None)
                if g is not None:
                    r = self.clean_list(fn, g.iter, depth + 1)
                    return (r[0], 'every element of ' + r[1]) if r[0] is not None else r
            r = self.clean_str(fn, e.elt, depth + 1, at=e.elt)
            return (r[0], 'comprehension of ' + r[1])
        if isinstance(e, ast.List):
            if not e.elts:
                return True, 'empty list'
            rs = [self.clean_str(fn, x, depth + 1, at=x) for x in e.elts]
            if all(r[0] for r in rs):
                return True, 'list of line-break free strings'
            return next(r for r in rs if not r[0])
        if isinstance(e, ast.Call):
            f = e.func
            if isinstance(f, ast.Attribute) and f.attr == 'splitlines':
                keep = e.args[0] if e.args else next((k.value for k in e.keywords if k.arg == 'keepends'), None)
                if keep is None or (isinstance(keep, ast.Constant) and not keep.value):
                    return True, 'str.splitlines() splits at every line boundary Python recognises'
                return False, 'splitlines(keepends=True) keeps the line breaks in the entries'
            if isinstance(f, ast.Attribute) and f.attr in ('split',):
                return False, (f'`{ast.unparse(e)[:40]}` splits at one separator only: other line-break characters '
                               f'(\\r, \\x0b, \\x0c, \\x1c-\\x1e, \\x85, \\u2028, \\u2029) stay inside an entry')
            fname = getattr(f, 'id', getattr(f, 'attr', ''))
            if fname in ('deepcopy', 'list', 'copy', 'sorted', 'reversed') and e.args:
                return self.clean_list(fn, e.args[0], depth + 1)
            if fname in flatten_family(self.ctx) and e.args:
                r = self.clean_list(fn, e.args[0], depth + 1)
                return (r[0], 'flatten of ' + r[1])
            if fname == 'trim_list' and e.args:
                r = self.clean_list(fn, e.args[0], depth + 1)
                return (r[0], 'sub-list (trim_list) of ' + r[1])
            if isinstance(f, ast.Attribute) and f.attr == 'to_list':
                t = strip_opt(env.type_of(f.value))
                if t[0] == 'cls' and t[1].endswith('Indentizer') and e.args:
                    r = self.clean_list(fn, e.args[0], depth + 1)
                    return (r[0], 'per-line map (Indentizer.to_list, C18.map) of ' + r[1])
            # a function of the package that hands out a list it has built itself: judged on its return values
            sym = ctx.prog.resolve_expr_symbol(fn.module, f) if isinstance(f, (ast.Name, ast.Attribute)) else None
            if not isinstance(sym, FuncInfo):
                cs_ = [c_ for c_ in env.resolve_call(e) if isinstance(c_, FuncInfo)]
                sym = cs_[0] if len(cs_) == 1 else sym       # a method of self / of a typed receiver
            if isinstance(sym, FuncInfo) and sym is not fn and sym.module.name.startswith('dznpy') and depth < 6 and \
                    not any(isinstance(y, (ast.Yield, ast.YieldFrom)) for y in ast.walk(sym.node)):
                rets = [r_ for r_ in iter_own_nodes(sym.node) if isinstance(r_, ast.Return) and r_.value is not None]
                if rets:
                    for r_ in rets:
                        rr = self.clean_list(sym, r_.value, depth + 1)
                        if not rr[0]:
                            return rr[0], f'{sym.qualname}(): ' + rr[1]
                    return True, f'result of {sym.qualname}(), built from clean pieces only'
            return None, f'call `{ast.unparse(e)[:50]}` is not a known producer of line lists'
        if isinstance(e, ast.BoolOp) and isinstance(e.op, ast.Or):
            rs = [self.clean_list(fn, v, depth + 1) for v in e.values]
            if all(r[0] for r in rs):
                return True, 'either alternative of `or` is clean'
            return next(r for r in rs if not r[0])
        if isinstance(e, ast.Attribute):
            t = strip_opt(self.abs.type_at(fn, e.value, e) if self.ctx.prog.parent(e) is not None
                          else env.type_of(e.value))
            if e.attr in ('lines', '_lines', '_header') and t[0] == 'cls' and self._is_textblock(t[1]):
                return True, f'lines of a TextBlock (invariant, inductively)'
            return None, f'`{ast.unparse(e)[:40]}` is not recognised'
        if isinstance(e, ast.BinOp) and isinstance(e.op, ast.Add):
            a, b = self.clean_list(fn, e.left, depth + 1), self.clean_list(fn, e.right, depth + 1)
            if a[0] and b[0]:
                return True, 'concatenation of clean lists'
            return (a if not a[0] else b)
        if isinstance(e, ast.IfExp):
            a, b = self.clean_list(fn, e.body, depth + 1), self.clean_list(fn, e.orelse, depth + 1)
            if a[0] and b[0]:
                return True, 'both alternatives are clean'
            return (a if not a[0] else b)
        if isinstance(e, ast.Subscript) and isinstance(e.slice, ast.Slice):
            return self.clean_list(fn, e.value, depth + 1)
        if isinstance(e, ast.Name):
            params = [a.arg for a in fn.params()]
            if e.id in params and e.id not in env._assign_sites:
                return None, f'parameter `{e.id}`'
            return self.clean_local(fn, e.id, depth + 1)
        return None, f'`{ast.unparse(e)[:40]}` is not recognised'

    def _is_textblock(self, fq: str) -> bool:
        return self.ctx.prog.is_subclass(fq, 'dznpy.text_gen.TextBlock')

    def clean_local(self, fn: FuncInfo, name: str, depth: int) -> Tuple[Optional[bool], str]:
        """A local list: every definition is clean and every growth adds clean content."""
        env = self.ctx.cg.env(fn)
        sites = env._assign_sites.get(name, [])
        if not sites:
            return None, f'`{name}` has no local definition'
        # a loop-carried local (`x = start; for ..: x = f(x)`): by induction over the iterations - while x is being judged, x
        # itself counts as clean; its other definitions decide
        busy = self.__dict__.setdefault('_busy_locals', set())
        if (fn.fq, name) in busy:
            return True, f'`{name}` (by induction)'
        busy.add((fn.fq, name))
        try:
            return self._clean_local(fn, name, depth, env, sites)
        finally:
            busy.discard((fn.fq, name))

    def _clean_local(self, fn: FuncInfo, name: str, depth: int, env, sites) -> Tuple[Optional[bool], str]:
        for s in sites:
            if s[0] == 'ann' and len(s) > 2 and s[2] is not None:
                s = ('expr', s[2])          # `name: List[str] = <value>`
            if s[0] != 'expr':
                return None, f'`{name}` is bound by a loop / unpacking'
            r = self.clean_list(fn, s[1], depth + 1)
            if not r[0]:
                return r
        for n in iter_own_nodes(fn.node):
            if isinstance(n, ast.Call) and isinstance(n.func, ast.Attribute) and isinstance(n.func.value, ast.Name) \
                    and n.func.value.id == name:
                if n.func.attr == 'extend' and n.args:
                    r = self.clean_list(fn, n.args[0], depth + 1)
                    if not r[0]:
                        return r[0], f'`{name}.extend(...)`: ' + r[1]
                elif n.func.attr in ('append', 'insert') and n.args:
                    r = self.clean_str(fn, n.args[-1], depth + 1, at=n)
                    if not r[0]:
                        return r[0], f'`{name}.{n.func.attr}(...)`: ' + r[1]
            if isinstance(n, ast.AugAssign) and isinstance(n.target, ast.Name) and n.target.id == name:
                r = self.clean_list(fn, n.value, depth + 1)
                if not r[0]:
                    return r
        return True, f'local list `{name}` built from clean pieces only'

    def clean_str(self, fn: FuncInfo, e: ast.AST, depth: int = 0, at: Optional[ast.AST] = None) -> Tuple[Optional[bool], str]:
        s = const_str(self.ctx, fn, e)
        if s is not None:
            ok = not any(ch in s for ch in '\n\r\x0b\x0c\x1c\x1d\x1e\x85  ')
            return ok, 'constant without line break' if ok else f'constant {s!r} contains a line break'
        if isinstance(e, ast.Name) and self.ctx.prog.parent(e) is not None:
            # `x.splitlines() or [x]`: the list [x] is only taken when x has no line at all, i.e. x == ''
            lst = self.ctx.prog.parent(e)
            bo = self.ctx.prog.parent(lst) if isinstance(lst, ast.List) and len(lst.elts) == 1 else None
            if isinstance(bo, ast.BoolOp) and isinstance(bo.op, ast.Or) and lst in bo.values[1:]:
                first = bo.values[0]
                if isinstance(first, ast.Call) and isinstance(first.func, ast.Attribute) and first.func.attr == 'splitlines' and \
                        isinstance(first.func.value, ast.Name) and first.func.value.id == e.id and bo.values.index(lst) == 1:
                    return True, 'the empty string (guarded: taken only when the string has no line to split off)'
        if isinstance(e, ast.Name) and at is not None:
            # a string known to be empty at this point:  len(x) > 0 is false / not x
            for cond, pol in self.abs.facts_at(at):
                txt = ast.unparse(cond)
                if (txt == f'len({e.id}) > 0' and not pol) or (txt == e.id and not pol) or \
                        (txt == f'len({e.id}) == 0' and pol) or (txt == f"{e.id} == ''" and pol):
                    return True, 'the empty string (guarded)'
        if isinstance(e, ast.Name):
            # loop variable over a clean list
            env = self.ctx.cg.env(fn)
            for st in env._assign_sites.get(e.id, []):
                if st[0] == 'elem':
                    r = self.clean_list(fn, st[1], depth + 1)
                    if r[0]:
                        return True, 'element of ' + r[1]
        return False, f'string `{ast.unparse(e)[:40]}` is arbitrary text: it may contain line breaks'


def check(ctx):
    run, prog, cg = ctx.run, ctx.prog, ctx.cg
    run.explanation = (
        'Decided (invariant part only): C17.provenance - every write to the TextBlock line buffer takes its strings '
        'from str.splitlines() without keepends, the guarded empty string, another block\'s lines, or a per-line '
        'map / sub-list of such a list: no stored line contains a line break and each physical line is its own '
        'entry; C17.copy - the setter copies, blocks never share a buffer; C17.str - __str__ is EOL.join(header + '
        'lines) + EOL, or the empty string for an empty block; C17.flatten-shape - flatten_to_strlist recurses into '
        'lists and dict values in order, None contributes nothing, the only filter is the empty-string skip, and '
        'append() keeps empty strings. Not decided: the flattening law against a reference flattener, the round '
        'trip TextBlock(str(tb)).lines == tb.lines, trim removing only leading/trailing blanks, chunk/cond_chunk '
        'results - equalities over all nestings and strings, out of reach without running the code.')
    run.assume('callers of the public `lines` setter hand it strings without line breaks ("put into a text block" '
               'means constructor / append / + / +=)')
    run.assume('a bullet glyph contains no line break (C18)')
    run.trusted = ['python ast module', 'dznverif E1/E2/E3c']

    tb = prog.cls('text_gen', 'TextBlock')
    mut = Mutations(prog, cg)
    mut.solve()
    cl = Clean(ctx, mut)

    # ---- C17.provenance ---------------------------------------------------------------------------------------------
    n_writes = 0
    for m in list(tb.methods.values()) + list(tb.setters.values()):
        for n in iter_own_nodes(m.node):
            # assignments  self._lines / self._header / self.lines = E
            if isinstance(n, ast.Assign):
                for t in n.targets:
                    if isinstance(t, ast.Attribute) and isinstance(t.value, ast.Name) and t.value.id == 'self' \
                            and t.attr in ('_lines', '_header', 'lines'):
                        n_writes += 1
                        ok, why = cl.clean_list(m, n.value)
                        if ok is None and m.is_setter:
                            # the setter stores (a copy of) its parameter: judged at the internal call sites below
                            run.holds('C17.provenance', m.module.name, m.qualname, n,
                                      'setter stores its argument; the internal callers are judged separately', node=n)
                            continue
                        if ok is None:
                            run.error('C17.provenance', m.module.name, m.qualname, n,
                                      f'cannot classify the source of the buffer content: {why}', node=n)
                        else:
                            run.add('C17.provenance', m.module.name, m.qualname, n, ok,
                                    f'buffer {t.attr} <- {why}', node=n)
            # growth  self.lines.extend(E) / append(E)
            if isinstance(n, ast.Call) and isinstance(n.func, ast.Attribute) and n.func.attr in ('extend', 'append', 'insert') \
                    and ast.unparse(n.func.value) in ('self.lines', 'self._lines', 'self._header'):
                n_writes += 1
                if n.func.attr == 'extend':
                    ok, why = cl.clean_list(m, n.args[0])
                else:
                    ok, why = cl.clean_str(m, n.args[-1], at=n)
                if ok is None:
                    run.error('C17.provenance', m.module.name, m.qualname, n,
                              f'cannot classify the source of the appended content: {why}', node=n)
                else:
                    run.add('C17.provenance', m.module.name, m.qualname, n, ok, f'{n.func.attr}: {why}', node=n)
    run.floor('C17.provenance', 5)
    # subclasses (Comment) do not write the buffer directly
    for c in prog.classes.values():
        if c is not tb and prog.is_subclass(c.fq, tb.fq):
            for m in c.methods.values():
                for n in iter_own_nodes(m.node):
                    if isinstance(n, ast.Attribute) and isinstance(n.value, ast.Name) and n.value.id == 'self' and \
                            n.attr in ('_lines', '_header') and isinstance(n.ctx, ast.Store):
                        run.violation('C17.provenance', m.module.name, m.qualname, ctx.flow.enclosing_stmt(n),
                                      'a TextBlock subclass writes the line buffer directly', node=n)
    # the branch that keeps blank lines: ''.splitlines() == [] so the empty string must be appended as itself
    app = tb.methods.get('append')
    if app is None:
        run.error('C17.provenance', tb.module.name, 'TextBlock', 'append', 'TextBlock.append vanished')
    else:
        has_empty_branch = False
        # append itself and the line-producing helpers of the module it calls
        scope_fns = [app]
        for c_ in iter_own_nodes(app.node):
            if isinstance(c_, ast.Call) and isinstance(c_.func, (ast.Name, ast.Attribute)):
                sy_ = prog.resolve_expr_symbol(app.module, c_.func)
                cands_ = [sy_] if isinstance(sy_, FuncInfo) else [x_ for x_ in cg.env(app).resolve_call(c_) if isinstance(x_, FuncInfo)]
                for sy_ in cands_:
                    if sy_.module is app.module and sy_ not in scope_fns:
                        scope_fns.append(sy_)
        for app_, n in [(f_, x_) for f_ in scope_fns for x_ in iter_own_nodes(f_.node)]:
            if isinstance(n, ast.Call) and isinstance(n.func, ast.Attribute) and n.func.attr == 'append' and n.args:
                r = cl.clean_str(app_, n.args[0], at=n)
                if r[0] and 'empty string' in r[1]:
                    has_empty_branch = True
            if isinstance(n, ast.List) and len(n.elts) == 1 and isinstance(n.elts[0], ast.Name):
                # `[s]` as the lines of an empty s (the alternative of `s.splitlines() if s else [s]`)
                r = cl.clean_str(app_, n.elts[0], at=n.elts[0])
                if r[0] and 'empty string' in r[1]:
                    has_empty_branch = True
        # a block that is appended contributes its LINES: on the path where `content` may be a TextBlock it must not reach the
        # flattening / str() - the string form of a block carries its header as well
        cparam = app.params()[1].arg if len(app.params()) > 1 else 'content'
        abs2 = Abs(prog, cg, ctx.flow)
        leaks = []
        for n in iter_own_nodes(app.node):
            if isinstance(n, ast.Name) and n.id == cparam and isinstance(n.ctx, ast.Load):
                par = prog.parent(n)
                if isinstance(par, ast.Call) and n in par.args and getattr(par.func, 'id', getattr(par.func, 'attr', '')) != 'isinstance':
                    excluded = any(isinstance(c_, ast.Call) and getattr(c_.func, 'id', '') == 'isinstance' and len(c_.args) == 2 and
                                   isinstance(c_.args[0], ast.Name) and c_.args[0].id == cparam and
                                   'TextBlock' in ast.unparse(c_.args[1]) and not pol_
                                   for c_, pol_ in abs2.facts_at(n))
                    if not excluded:
                        leaks.append(par)
        takes_lines = any(isinstance(n, ast.Attribute) and n.attr in ('lines', '_lines') and isinstance(n.value, ast.Name) and
                          n.value.id == cparam for n in iter_own_nodes(app.node))
        ok_blk = takes_lines and not leaks
        sem_lines = _lines_by_interpretation(ctx, tb)
        if sem_lines is not None:
            # decided by interpretation (C17.lines: blocks with and without a header appended, added, constructed from)
            ok_blk, leaks = sem_lines, []
        run.add('C17.provenance', app.module.name, app.qualname, 'an appended block contributes its lines', ok_blk,
                'a TextBlock handed to append() is taken by its lines; only other content is flattened' if ok_blk else
                (f'`{ast.unparse(leaks[0])[:60]}` also receives a TextBlock `{cparam}` (no dominating `isinstance({cparam}, TextBlock)` '
                 f'excludes it): the block is appended through its string form, so its header lines turn into content lines - '
                 f'appending is no longer the concatenation of the lines' if leaks else
                 f'append() never takes `{cparam}.lines`: a block is appended through its string form (header included)'),
                node=leaks[0] if leaks else None)
        run.add('C17.provenance', app.module.name, app.qualname, 'blank-line branch', has_empty_branch,
                'an empty string contributes one blank line (appended as itself, since "".splitlines() == [])'
                if has_empty_branch else
                'no branch appends the empty string itself: "".splitlines() == [] makes blank lines vanish')
        # flatten is called with skip_empty_strings=False inside append
        for n in iter_own_nodes(app.node):
            if isinstance(n, ast.Call) and getattr(n.func, 'id', '') in flatten_family(ctx):
                kw = {k.arg: k.value for k in n.keywords}
                skip = kw.get('skip_empty_strings', n.args[1] if len(n.args) > 1 else None)
                ok = isinstance(skip, ast.Constant) and skip.value is False
                run.add('C17.flatten-shape', app.module.name, app.qualname, n, ok,
                        'append() flattens with skip_empty_strings=False' if ok else
                        'append() drops empty strings while flattening: blank lines vanish', node=n)
    # internal callers of the setter
    for m in tb.methods.values():
        for n in iter_own_nodes(m.node):
            if isinstance(n, ast.Assign) and any(isinstance(t, ast.Attribute) and t.attr == 'lines' and
                                                 isinstance(t.value, ast.Name) and t.value.id == 'self' for t in n.targets):
                pass  # judged above (target 'lines')

    # ---- C17.copy ---------------------------------------------------------------------------------------------------------
    for m in list(tb.methods.values()) + list(tb.setters.values()):
        for n in iter_own_nodes(m.node):
            if isinstance(n, ast.Assign):
                for t in n.targets:
                    if isinstance(t, ast.Attribute) and isinstance(t.value, ast.Name) and t.value.id == 'self' \
                            and t.attr in ('_lines', '_header'):
                        rs = mut.roots(m, n.value)
                        alias = [r for r in rs if not is_fresh(r)]
                        run.add('C17.copy', m.module.name, m.qualname, n, not alias,
                                f'{t.attr} is assigned a fresh list' if not alias else
                                f'{t.attr} aliases caller data ({alias[0][0]} {alias[0][1]}): two blocks share a buffer',
                                node=n)
    add = tb.methods.get('__add__')
    if add is not None:
        bad = [r for r in mut.returns.get(add.fq, set()) if not is_fresh(r)]
        run.add('C17.copy', add.module.name, add.qualname, '__add__ result', not bad,
                '__add__ returns a new block' if not bad else '__add__ returns an operand')
    run.floor('C17.copy', 3)

    # ---- C17.str -----------------------------------------------------------------------------------------------------------
    _str_rule(ctx, tb)
    _trim_rule(ctx, tb)

    # ---- C17.flatten-shape ----------------------------------------------------------------------------------------------------
    _flatten_rule(ctx)
    # chunk / cond_chunk test emptiness with the default (skipping) flatten
    tmod = prog.module('text_gen')
    for name in ('chunk', 'cond_chunk'):
        f = tmod.functions.get(name)
        if f is None:
            run.error('C17.flatten-shape', tmod.name, name, name, f'{name} vanished')
            continue
        for n in iter_own_nodes(f.node):
            if isinstance(n, ast.Call) and getattr(n.func, 'id', '') == 'flatten_to_strlist':
                skipping = not n.keywords and len(n.args) == 1
                run.add('C17.flatten-shape', f.module.name, f.qualname, n, skipping,
                        'emptiness is tested on the flattened content without empty strings' if skipping else
                        'emptiness test keeps empty strings: an all-blank content counts as non-empty', node=n)
        # the skipping flatten of the CONTENT is an emptiness probe only: it has lost the blank entries, so it must not
        # become (part of) the block - the block is built from the content itself
        cparam = next((a.arg for a in f.params() if a.arg == 'content'), None)
        if cparam is None:
            run.error('C17.flatten-shape', f.module.name, f.qualname, 'content parameter', f'{name} has no parameter `content`')
            continue
        probes = set()
        for n in iter_own_nodes(f.node):
            if isinstance(n, ast.Assign) and len(n.targets) == 1 and isinstance(n.targets[0], ast.Name) and \
                    isinstance(n.value, ast.Call) and getattr(n.value.func, 'id', '') == 'flatten_to_strlist' and \
                    n.value.args and ast.unparse(n.value.args[0]) == cparam and \
                    not any(k.arg == 'skip_empty_strings' and isinstance(k.value, ast.Constant) and k.value.value is False
                            for k in n.value.keywords):
                probes.add(n.targets[0].id)
        bad_uses = []
        for n in iter_own_nodes(f.node):
            if isinstance(n, ast.Name) and n.id in probes and isinstance(n.ctx, ast.Load):
                par, child = prog.parent(n), n
                while isinstance(par, (ast.UnaryOp, ast.BoolOp)):
                    par, child = prog.parent(par), par
                is_test = (isinstance(par, (ast.If, ast.IfExp, ast.While)) and par.test is child) or \
                    (isinstance(par, ast.Call) and getattr(par.func, 'id', '') in ('len', 'bool', 'any'))
                if not is_test:
                    bad_uses.append(n)
        run.add('C17.flatten-shape', f.module.name, f.qualname,
                ctx.flow.enclosing_stmt(bad_uses[0]) if bad_uses else f'{name}: uses of the emptiness probe {sorted(probes)}', not bad_uses,
                'the skipping flatten of the content is used for the emptiness test only; the block is built from the content itself'
                if not bad_uses else
                f'`{bad_uses[0].id}` (the content flattened WITHOUT its empty strings) is used to build the result: blank entries '
                f'of the content are lost, the chunk is no longer content plus appendix', node=bad_uses[0] if bad_uses else None)


def _str_by_interpretation(ctx, tb: ClassInfo, m: FuncInfo):
    """TextBlock.__str__ interpreted (dznverif.scenario, E7) on blocks whose header / line buffers hold zero to three strings
    (a blank one among them): the result must be the concatenation of `line + EOL` over header then lines.  __str__ only
    joins and concatenates the entries, so their number and emptiness is all that matters.  List of disagreements, None when
    the method cannot be interpreted."""
    from ..scenario import Interp, Obj, Raised, Undecided
    prog = ctx.prog
    eol = const_str(ctx, m, ast.Name(id='EOL', ctx=ast.Load())) or '\n'
    bad: List[str] = []
    fields = list(prog.class_fields(tb))
    try:
        for header in ([], ['H'], ['H1', 'H2'], ['']):
            for lines in ([], ['a'], [''], ['a', 'b'], ['a', '', 'b'], ['', '']):
                o = Obj(tb, {'_header': list(header), '_lines': list(lines), '_indentizer': None, '_chunk_spacing': None})
                try:
                    got = Interp(prog).call_function(m, [], {}, self_val=o)
                except Raised as exc:
                    bad.append(f'header={header!r} lines={lines!r}: raises {exc.name.split(".")[-1]}')
                    continue
                want = ''.join(x + eol for x in header + lines)
                if not isinstance(got, str):
                    raise Undecided('__str__ does not yield a string')
                if got != want:
                    bad.append(f'header={header!r} lines={lines!r} renders {got!r}, expected {want!r}')
                if o.fields['_header'] != header or o.fields['_lines'] != lines:
                    bad.append(f'header={header!r} lines={lines!r}: rendering changes the block')
    except Undecided:
        return None
    return bad


def _trim_rule(ctx, tb: ClassInfo):
    """C17.trim: TextBlock.trim interpreted (dznverif.scenario, E7) on line buffers of zero to four lines over
    {'', ' ', 'x'}, both with and without end_only.  Trimming only looks at whether a line is empty, so these buffers cover
    every pattern of empty / blank / text lines at the two ends.  The result has to be a contiguous part of the buffer; what is
    cut off at the ends are blank lines only (and nothing at the start with end_only); and no empty line is left at an end
    that is trimmed - a buffer of empty lines only becomes empty."""
    from ..scenario import Interp, Obj, Raised, Undecided
    import itertools
    run, prog = ctx.run, ctx.prog
    m = tb.methods.get('trim')
    if m is None:
        return
    bad: List[str] = []
    n = 0
    try:
        for length in range(0, 5):
            for lines in itertools.product(('', ' ', 'x'), repeat=length):
                for end_only in (False, True):
                    it = Interp(prog)
                    o = it.construct(tb, [list(lines)], {})
                    n += 1
                    label = f'lines {list(lines)!r}, end_only={end_only}'
                    try:
                        it.call_function(m, [end_only], {}, self_val=o)
                    except Raised as exc:
                        bad.append(f'{label}: raises {exc.name.split(".")[-1]}')
                        continue
                    got = it.getattr(o, 'lines', m, 0)
                    if not isinstance(got, list) or not all(isinstance(x, str) for x in got):
                        raise Undecided('lines after trim() are not a list of strings')
                    src = list(lines)
                    cuts = [(i, j) for i in range(len(src) + 1) for j in range(i, len(src) + 1) if src[i:j] == got]
                    ok = False
                    for i, j in cuts:
                        if any(x.strip() for x in src[:i] + src[j:]):
                            continue            # text was cut off
                        if end_only and i != 0:
                            continue
                        if got and got[-1] == '':
                            continue
                        if got and not end_only and got[0] == '':
                            continue
                        ok = True
                    if not got and any(x.strip() for x in src):
                        ok = False
                    if not ok:
                        bad.append(f'{label} -> {got!r}')
    except Undecided as exc:
        run.remark(f'C17: TextBlock.trim could not be interpreted ({exc}); not decided')
        return
    run.add('C17.trim', m.module.name, m.qualname, f'{n} line buffers x end_only', not bad,
            'trim() removes exactly the empty lines at the start (unless end_only) and at the end, and nothing else' if not bad else
            'trim() leaves empty lines at a trimmed end or cuts off something else: ' + '; '.join(bad[:3]))


def _str_rule(ctx, tb: ClassInfo):
    run = ctx.run
    m = tb.methods.get('__str__')
    if m is None:
        run.error('C17.str', tb.module.name, 'TextBlock', '__str__', 'TextBlock.__str__ vanished')
        return
    sem = _str_by_interpretation(ctx, tb, m)
    if sem is not None:
        run.add('C17.str', m.module.name, m.qualname, 'string form of header + lines', not sem,
                'the string form is every header line and every content line followed by one EOL, and empty for a block without '
                'lines (__str__ interpreted on blocks with 0-3 lines, with and without header, blank lines included)' if not sem else
                'string form: ' + '; '.join(sem[:3]))
        run.floor('C17.str', 1)
        return
    rets = [n for n in iter_own_nodes(m.node) if isinstance(n, ast.Return)]
    abs_ = Abs(ctx.prog, ctx.cg, ctx.flow)
    saw_join = False
    for r in rets:
        if const_str(ctx, m, r.value) == '':
            # must be under the emptiness test of the combined lines
            facts = [(ast.unparse(c), p) for c, p in abs_.facts_at(r)]
            ok = any(not p for _t, p in facts)
            run.add('C17.str', m.module.name, m.qualname, r, ok,
                    "'' only for a block without lines" if ok else "returns '' unconditionally", node=r)
            if ok:
                # "every header and content line": the emptiness test must cover the header lines as well as the
                # content lines (a block that only has a header still renders its header)
                tested = ''
                for c, p in abs_.facts_at(r):
                    if p:
                        continue
                    for nm in ast.walk(c):
                        if isinstance(nm, (ast.Name, ast.Attribute)):
                            tested += ' ' + ast.unparse(resolve_local(ctx, m, nm))
                covers_header = 'self._header' in tested
                covers_lines = 'self._lines' in tested or 'self.lines' in tested
                run.add('C17.str', m.module.name, m.qualname, "'' guard", covers_header and covers_lines,
                        "'' only when header and content are both empty" if covers_header and covers_lines else
                        f"'' is returned when {'the content' if covers_lines else 'the header' if covers_header else 'something else'} "
                        f"is empty, whatever the {'header' if covers_lines else 'content'} holds: those lines are missing from the "
                        f"string form", node=r)
            continue
        sh = join_shape(ctx, m, r.value)
        if sh is None:
            run.error('C17.str', m.module.name, m.qualname, r, 'string form not recognised as <sep>.join(<lines>) + <suffix>',
                      node=r)
            continue
        saw_join = True
        x, sep, suffix = sh
        if sep != '\n' or suffix != '\n':
            run.violation('C17.str', m.module.name, m.qualname, r,
                          f'lines are joined with {sep!r} and terminated with {suffix!r}; every line must be followed '
                          f'by exactly one EOL', node=r)
            continue
        x = resolve_local(ctx, m, x)
        txt = ast.unparse(x)
        uses_lines = 'self._lines' in txt or 'self.lines' in txt
        uses_header = 'self._header' in txt
        ok = uses_lines and uses_header
        # header must come first
        if ok and isinstance(x, ast.IfExp):
            body = ast.unparse(x.body)
            ok = body.index('self._header') < body.index('self._lines') if 'self._lines' in body else False
        run.add('C17.str', m.module.name, m.qualname, r, ok,
                'str = EOL.join(header + lines) + EOL' if ok else
                f'the joined sequence `{txt[:60]}` is not header lines followed by content lines', node=r)
        # the join is guarded by non-emptiness (otherwise '' + EOL for an empty block)
        guarded = any(p is False for _c, p in abs_.facts_at(r)) or any(const_str(ctx, m, q.value) == '' for q in rets)
        run.add('C17.str', m.module.name, m.qualname, 'empty-block guard', guarded,
                'an empty block renders as the empty string' if guarded else 'an empty block renders as a lone EOL')
    if not saw_join:
        run.error('C17.str', m.module.name, m.qualname, '__str__', 'no join-based return found')


def _lines_by_interpretation(ctx, tb: ClassInfo):
    """C17.lines: TextBlock(v), block.append(v), block + v and block += v interpreted (E7) for v over None, '', text with and without
    line breaks, numbers (0 and False among them), empty and non-empty lists / dicts, nested ones, and other text blocks:
       lines(v) = the pieces of v depth-first, left to right, each split at its line breaks; None and empty containers give nothing,
                  '' gives one blank line, a number its decimal text, a text block its own lines
       TextBlock(v).lines == lines(v);  after b.append(v) / b += v:  b.lines == old lines + lines(v) (and b itself is handed back);
       (b + v).lines == b.lines + lines(v) with b and v unchanged.
    The code looks at the type and emptiness of what it is given; the universe has every type it distinguishes, empty and not."""
    from ..scenario import Interp, Raised, Undecided, Obj
    run, prog = ctx.run, ctx.prog
    values = [None, '', 'a', 0, 7, False, 0.0, [], {}, ['a'], ['', 'b'], 'two\nlines', 'x\n', '\n', [None], [''], {'k': ''}, ['a', ['b', ''], None, 5],
              ('tb', ()), ('tb', ('x', 'y')), ('tb', ('',)), ['a', ('tb', ('x',)), ''], ('tb', ('x', 'y'), ('HEAD',)), ('tb', (), ('HEAD',))]

    def build(it, v):
        if isinstance(v, tuple) and v and v[0] == 'tb':
            return it.construct(tb, [list(v[1])], {} if len(v) < 3 else {'header': list(v[2])})
        if isinstance(v, list):
            return [build(it, x) for x in v]
        if isinstance(v, dict):
            return {k: build(it, x) for k, x in v.items()}
        return v

    def pieces(v, out):
        if v is None:
            return out
        if isinstance(v, list):
            for x in v:
                pieces(x, out)
        elif isinstance(v, dict):
            for x in v.values():
                pieces(x, out)
        elif isinstance(v, tuple) and v and v[0] == 'tb':
            text = ''.join(x + '\n' for x in (list(v[2]) if len(v) > 2 else []) + list(v[1]))     # (inside a list: its string form)
            if text:
                out.append(text)
        elif isinstance(v, str):
            out.append(v)
        elif str(v):
            out.append(str(v))
        return out

    def lines(v, top=True):
        if top and isinstance(v, tuple) and v and v[0] == 'tb':
            return list(v[1])
        out = []
        for s in pieces(v, []):
            out.extend(s.splitlines() if s else [''])
        return out
    bad: List[str] = []
    n = 0
    m_append, m_add, m_iadd = (prog.lookup_method(tb, x) for x in ('append', '__add__', '__iadd__'))
    if m_append is None:
        return None
    try:
        for v in values:
            want = lines(v)
            # construction
            it = Interp(prog)
            n += 1
            try:
                b = it.construct(tb, [build(it, v)], {})
                got = it.getattr(b, 'lines', m_append, 0)
                if list(got) != want:
                    bad.append(f'TextBlock({v!r}).lines is {list(got)!r}, expected {want!r}')
            except Raised as exc:
                bad.append(f'TextBlock({v!r}) raises {exc.name.split(".")[-1]}')
            for base in (['first', '{'], []):
                for label, meth in (('append', m_append), ('+', m_add), ('+=', m_iadd)):
                    if meth is None:
                        continue
                    it = Interp(prog)
                    n += 1
                    b = it.construct(tb, [list(base)], {})
                    arg = build(it, v)
                    try:
                        res = it.call_function(meth, [arg], {}, self_val=b)
                    except Raised as exc:
                        bad.append(f'TextBlock({base!r}) {label} {v!r} raises {exc.name.split(".")[-1]}')
                        continue
                    if not isinstance(res, Obj) or res.cls is not tb:
                        raise Undecided(f'TextBlock.{meth.name} does not hand back a TextBlock')
                    got = list(it.getattr(res, 'lines', m_append, 0))
                    if got != base + want:
                        bad.append(f'TextBlock({base!r}) {label} {v!r} has the lines {got!r}, expected {base + want!r}')
                    if label == '+':
                        if list(it.getattr(b, 'lines', m_append, 0)) != base:
                            bad.append(f'TextBlock({base!r}) + {v!r} changes its left operand')
                        if res is b:
                            bad.append(f'TextBlock({base!r}) + {v!r} hands back the left operand itself')
                    elif res is not b:
                        bad.append(f'TextBlock.{meth.name} does not hand back the block itself')
                    if isinstance(arg, Obj) and list(it.getattr(arg, 'lines', m_append, 0)) != list(v[1]):
                        bad.append(f'TextBlock({base!r}) {label} a block changes that block')
    except Undecided as exc:
        run.remark(f'C17: TextBlock construction / append / + could not be interpreted ({exc})')
        return None
    run.add('C17.lines', tb.module.name, 'TextBlock.append', f'{n} constructions and extensions over {len(values)} kinds of content',
            not bad, 'a text block holds exactly the lines of what was put into it, in order (construction, append, +, +=; \'\' is one blank line, 0 / False '
            'are text, None and empty containers nothing)' if not bad else f'{len(bad)} of {n} disagree, e.g. ' + '; '.join(bad[:2]))
    return not bad


def _flatten_by_interpretation(ctx, f0: FuncInfo):
    """flatten_to_strlist interpreted (dznverif.scenario, E7) on nested values built from: None, '', 'a', a number, an empty
    and a non-empty list / dict, nesting up to three levels, a container that occurs twice; both skip modes.  Compared with
    the specification written down here: depth-first, left to right; list items and dict values in order; None contributes
    nothing; '' is kept only when not skipped; a str is itself; anything else is str(x) unless that is empty.  The function
    looks at the type and emptiness of what it is given and nothing else.  (number of evaluations, disagreements) or None."""
    from ..scenario import Interp, Raised, Undecided
    prog = ctx.prog
    shared_ = ['x', '']
    values = [None, '', 'a', 0, 7, [], {}, ['a'], ['', 'b'], [None], {'k': 'v'}, {'k': '', 'm': None, 'n': 'w'},
              ['a', ['b', ['c', '']], 'd'], [[], {}, [[]]], {'k': ['a', {'m': ['b']}], 'n': 'c'}, [['a'], None, [''], 5],
              [shared_, shared_], ['a', {'k': []}, 'b'], [[['deep']]], 'two\nlines',
              # objects that are neither str nor container: a text block renders as its lines, an empty one as ''
              ('tb', ()), ['a', ('tb', ()), 'b'], ('tb', ('x', 'y')), [('tb', ('x',)), {'k': ('tb', ())}]]
    tb_cls = prog.classes.get('dznpy.text_gen.TextBlock')

    def build(it, v):
        if isinstance(v, tuple) and v and v[0] == 'tb':
            if tb_cls is None:
                raise Undecided('TextBlock vanished')
            return it.construct(tb_cls, [list(v[1])], {})
        if isinstance(v, list):
            return [build(it, x) for x in v]
        if isinstance(v, dict):
            return {k: build(it, x) for k, x in v.items()}
        return v

    def spec(v, skip, out):
        if v is None:
            return out
        if isinstance(v, list):
            for x in v:
                spec(x, skip, out)
        elif isinstance(v, dict):
            for x in v.values():
                spec(x, skip, out)
        elif isinstance(v, str):
            if v or not skip:
                out.append(v)
        elif isinstance(v, tuple) and v and v[0] == 'tb':
            text = ''.join(x + '\n' for x in v[1])
            if text:
                out.append(text)
        else:
            if str(v):
                out.append(str(v))
        return out
    bad: List[str] = []
    n = 0
    import copy
    try:
        for v in values:
            for skip in (True, False):
                n += 1
                it_ = Interp(prog)
                arg = build(it_, copy.deepcopy(v))
                try:
                    got = it_.call_function(f0, [arg, skip], {})
                except Raised as exc:
                    bad.append(f'{v!r}, skip_empty_strings={skip}: raises {exc.name.split(".")[-1]}')
                    continue
                got = list(got) if isinstance(got, (list, tuple)) else None
                if got is None:
                    raise Undecided('flatten_to_strlist does not yield a list')
                want = spec(v, skip, [])
                if got != want:
                    bad.append(f'{v!r}, skip_empty_strings={skip}: flattened to {got!r}, expected {want!r}')
                if 'tb' not in repr(v) and arg != v:
                    bad.append(f'{v!r}, skip_empty_strings={skip}: the argument is changed to {arg!r}')
    except Undecided as exc:
        ctx.run.remark(f'C17: flatten_to_strlist could not be interpreted ({exc}); the branch walk decides')
        return None
    return n, bad


def _flatten_rule(ctx):
    """What flatten_to_strlist contributes for a value of each kind, decided by walking the function (or the generator it
    wraps) under a scenario: kind of `value` x skip flag.  The walk follows the branch every test selects and records what
    is emitted (appended / yielded / returned) and which recursion happens."""
    from .shared import eval_guard
    run, prog = ctx.run, ctx.prog
    f0 = prog.try_func('misc_utils', 'flatten_to_strlist')
    if f0 is None:
        run.error('C17.flatten-shape', 'dznpy.misc_utils', '-', 'flatten_to_strlist', 'flatten_to_strlist vanished')
        return
    sem = _flatten_by_interpretation(ctx, f0)
    if sem is not None:
        n_, bad_ = sem
        for skipping in (True, False):
            mine = [b for b in bad_ if f'skip_empty_strings={skipping}' in b]
            run.add('C17.flatten-shape', f0.module.name, f0.qualname, f'{n_ // 2} nested values, skip_empty_strings={skipping}', not mine,
                    'the flattened list is the depth-first, left-to-right sequence of the pieces: None and empty containers contribute nothing, '
                    'an empty string only when it is not skipped, dict values in order, other values by str() unless that is empty '
                    '(flatten_to_strlist interpreted on nested values, E7)' if not mine else '; '.join(mine[:3]))
        run.stats['flatten_decided_by'] = f'interpretation of flatten_to_strlist on {n_} values (E7)'
        run.floor('C17.flatten-shape', 2)
        return
    fam = flatten_family(ctx)
    core_name = next((n for n in fam if n != 'flatten_to_strlist'), 'flatten_to_strlist')
    f = prog.try_func('misc_utils', core_name) or f0
    val = f.params()[0].arg
    skip = f.params()[1].arg if len(f.params()) > 1 else None
    defs = {}
    for a in iter_own_nodes(f.node):
        if isinstance(a, ast.Assign) and len(a.targets) == 1 and isinstance(a.targets[0], ast.Name):
            defs.setdefault(a.targets[0].id, []).append(a.value)

    def expand(nm: ast.Name):
        d = defs.get(nm.id, [])
        return d[0] if len(d) == 1 and nm.id not in (val, skip) else None

    KINDS = ('list', 'dict', 'none', 'str-empty', 'str-nonempty', 'other-empty', 'other-nonempty')

    def leaf_for(kind: str, skipping: bool):
        def is_val(e) -> bool:
            return isinstance(e, ast.Name) and e.id == val

        def leaf(e):
            if isinstance(e, ast.Name) and e.id == skip:
                return skipping
            if isinstance(e, ast.Call) and getattr(e.func, 'id', '') == 'isinstance' and len(e.args) == 2 and is_val(e.args[0]):
                ts = e.args[1].elts if isinstance(e.args[1], ast.Tuple) else [e.args[1]]
                names = {getattr(t, 'id', getattr(t, 'attr', '?')) for t in ts}
                base = kind.split('-')[0]
                py = {'list': 'list', 'dict': 'dict', 'str': 'str'}.get(base)
                if names <= {'list', 'dict', 'str', 'List', 'Dict'}:
                    return py is not None and (py in names or py.capitalize() in names)
                return None
            if isinstance(e, ast.Compare) and len(e.ops) == 1 and is_val(e.left) and isinstance(e.comparators[0], ast.Constant):
                c = e.comparators[0].value
                if c is None and isinstance(e.ops[0], (ast.Is, ast.IsNot, ast.Eq, ast.NotEq)):
                    r = kind == 'none'
                    return r if isinstance(e.ops[0], (ast.Is, ast.Eq)) else not r
                if c == '' and isinstance(e.ops[0], (ast.Eq, ast.NotEq)) and kind.startswith('str'):
                    r = kind == 'str-empty'
                    return r if isinstance(e.ops[0], ast.Eq) else not r
            if isinstance(e, ast.Compare) and len(e.ops) == 1 and isinstance(e.left, ast.Call) and getattr(e.left.func, 'id', '') == 'len' \
                    and e.left.args and is_val(e.left.args[0]) and isinstance(e.comparators[0], ast.Constant) and kind.startswith('str'):
                n_ = 0 if kind == 'str-empty' else 1
                c = e.comparators[0].value
                op = e.ops[0]
                table = {ast.Eq: n_ == c, ast.NotEq: n_ != c, ast.Gt: n_ > c, ast.GtE: n_ >= c, ast.Lt: n_ < c, ast.LtE: n_ <= c}
                if type(op) in table and c in (0, 1):
                    return table[type(op)]
            if is_val(e):      # truthiness of the value itself
                return {'none': False, 'str-empty': False, 'str-nonempty': True, 'other-nonempty': None, 'other-empty': None}.get(kind)
            if isinstance(e, ast.Call) and getattr(e.func, 'id', '') == 'str' and len(e.args) == 1 and is_val(e.args[0]):
                return {'str-empty': False, 'str-nonempty': True, 'other-empty': False, 'other-nonempty': True}.get(kind)
            return None
        return leaf

    def what(e: ast.expr) -> str:
        e2 = e
        if isinstance(e2, ast.Name) and e2.id != val:
            d = expand(e2)
            e2 = d if d is not None else e2
        if isinstance(e2, ast.Name) and e2.id == val:
            return 'value'
        if isinstance(e2, ast.Call) and getattr(e2.func, 'id', '') == 'str' and len(e2.args) == 1 and \
                isinstance(e2.args[0], ast.Name) and e2.args[0].id == val:
            return 'str(value)'
        return '?' + ast.unparse(e)[:30]

    def recursion(call: ast.expr, loop_var: Optional[str]) -> Optional[Tuple[bool, bool]]:
        """(on the loop variable?, passes the skip flag on?) for a recursive call of the flatten family"""
        if isinstance(call, ast.Call) and getattr(call.func, 'id', '') in fam and call.args:
            b = prog.bind_call(f.module, call)
            arg0 = call.args[0]
            sk = b.get(skip) if skip else None
            return (isinstance(arg0, ast.Name) and arg0.id == loop_var,
                    skip is None or (isinstance(sk, ast.Name) and sk.id == skip))
        return None

    def walk(stmts, leaf, events) -> Optional[bool]:
        """True: the block certainly returns; False: falls through; None: undecided"""
        for st in stmts:
            if isinstance(st, ast.Expr) and isinstance(st.value, ast.Constant):
                continue
            if isinstance(st, ast.If):
                t = eval_guard(st.test, leaf, expand)
                if t is None:
                    events.append(('undecided', ast.unparse(st.test)[:50]))
                    return None
                r = walk(st.body if t else st.orelse, leaf, events)
                if r is None or r:
                    return r
                continue
            if isinstance(st, ast.Return):
                v = st.value
                if isinstance(v, ast.List) and len(v.elts) == 1:
                    events.append(('emit', what(v.elts[0])))
                elif isinstance(v, (ast.ListComp, ast.GeneratorExp)):
                    events.append(('undecided', 'comprehension result'))
                    return None
                return True
            if isinstance(st, ast.For):
                it = st.iter
                if isinstance(it, ast.Name) and it.id != val:
                    d = expand(it)
                    if isinstance(d, ast.IfExp):
                        t = eval_guard(d.test, leaf, expand)
                        it = (d.body if t else d.orelse) if t is not None else it
                    elif d is not None:
                        it = d
                src = 'value' if isinstance(it, ast.Name) and it.id == val else \
                    'value.values()' if ast.unparse(it) == f'{val}.values()' else '?' + ast.unparse(it)[:30]
                lv = st.target.id if isinstance(st.target, ast.Name) else None
                rec = None
                if len(st.body) == 1 and isinstance(st.body[0], ast.Expr):
                    x = st.body[0].value
                    if isinstance(x, ast.YieldFrom):
                        rec = recursion(x.value, lv)
                    elif isinstance(x, ast.Call) and isinstance(x.func, ast.Attribute) and x.func.attr == 'extend' and x.args:
                        rec = recursion(x.args[0], lv)
                elif len(st.body) == 1 and isinstance(st.body[0], ast.AugAssign) and isinstance(st.body[0].op, ast.Add):
                    rec = recursion(st.body[0].value, lv)
                events.append(('recurse', src, rec))
                continue
            if isinstance(st, ast.Expr):
                x = st.value
                if isinstance(x, ast.Yield) and x.value is not None:
                    events.append(('emit', what(x.value)))
                    continue
                if isinstance(x, ast.Call) and isinstance(x.func, ast.Attribute) and x.func.attr == 'append' and x.args:
                    events.append(('emit', what(x.args[0])))
                    continue
                if isinstance(x, ast.Call) and isinstance(x.func, ast.Attribute) and x.func.attr == 'extend':
                    events.append(('undecided', ast.unparse(x)[:40]))
                    return None
                continue
            if isinstance(st, (ast.Assign, ast.AnnAssign, ast.Pass)):
                continue
            events.append(('undecided', type(st).__name__))
            return None
        return False

    n = 0
    for kind in KINDS:
        for skipping in (True, False):
            events: list = []
            r = walk(f.node.body, leaf_for(kind, skipping), events)
            n += 1
            label = f'{kind} value, skip_empty_strings={skipping}'
            if any(e_[0] == 'undecided' for e_ in events):
                run.error('C17.flatten-shape', f.module.name, f.qualname, label,
                          f'what {f.name} contributes for a {label} could not be decided ({[e_[1] for e_ in events if e_[0] == "undecided"][0]})')
                continue
            want = {'list': [('recurse', 'value', (True, True))], 'dict': [('recurse', 'value.values()', (True, True))],
                    'none': [], 'str-empty': [] if skipping else [('emit', 'value')], 'str-nonempty': [('emit', 'value')],
                    'other-empty': [], 'other-nonempty': [('emit', 'str(value)')]}[kind]
            got = list(events)
            if kind.startswith('str'):
                got = [('emit', 'value') if e_ == ('emit', 'str(value)') else e_ for e_ in got]     # str(s) is s
            ok = got == want
            run.add('C17.flatten-shape', f.module.name, f.qualname, label, ok,
                    {'list': 'a list contributes its items, flattened in order with the same skip flag',
                     'dict': 'a dict contributes its values, flattened in order with the same skip flag',
                     'none': 'None contributes nothing', 'str-empty': 'an empty string is skipped exactly when skipping is requested',
                     'str-nonempty': 'a string contributes itself', 'other-empty': 'a value with an empty str() contributes nothing',
                     'other-nonempty': 'other values contribute str(value)'}[kind] if ok else
                    f'for a {label} {f.name} contributes {got or "nothing"}; specified: {want or "nothing"}')
    # the wrapper hands value and flag through
    if f is not f0:
        body = [b_ for b_ in f0.node.body if not (isinstance(b_, ast.Expr) and isinstance(b_.value, ast.Constant))]
        c = body[0].value
        inner = c.args[0] if getattr(c.func, 'id', '') in ('list', 'tuple') else c
        b = prog.bind_call(f0.module, inner)
        p0 = [a.arg for a in f0.params()]
        ok = isinstance(b.get(val), ast.Name) and b[val].id == p0[0] and (
            skip is None or (isinstance(b.get(skip), ast.Name) and len(p0) > 1 and b[skip].id == p0[1]))
        run.add('C17.flatten-shape', f0.module.name, f0.qualname, 'wrapper', ok,
                f'flatten_to_strlist materialises {f.name}(value, skip_empty_strings)' if ok else
                f'flatten_to_strlist does not hand its arguments on to {f.name} unchanged')
    run.floor('C17.flatten-shape', 6)
